"""Per-property configuration of ./check (harness kind, comparison, coverage expectations)."""
import json


def _classes_present(field, expected):
    def chk(cases, results):
        seen = set()
        for c in cases:
            if isinstance(c.get("in"), dict):
                seen.add(c["in"].get(field))
        return [e for e in expected if e not in seen]
    return chk


PROPS = {
    "C16": {
        "harness": {"kind": "overlay", "pkg": "pkg/p2p/libp2p", "pkgname": "libp2p",
                    "files": ["libp2p/c16_test.go"], "test": "TestVerifC16"},
        "nontrivial_rule": "distinct (tag, model decision) pairs; every case is a distinct identifier/handler pair "
                           "drawn from the exhaustive small-range table, 64-bit boundary values or malformed identifiers",
        "level_text": "Theorem (all names without '/', all 64-bit MAJOR.MINOR.PATCH on both sides): the modelled matcher routes /name/M.m.p to handler (hname, M'.m'.p') iff name = hname, M = M', m <= m'; other segment counts or names never match; an identifier with the handler's name whose numeric version overflows the library's 64-bit components is never routed; the raw-identifier spec applies the major/minor rule over unbounded naturals in the no-match direction; the model is total (no panic). The model is tied to matchProtocolIDWithSemver by an exhaustive small-range table plus 64-bit boundary and malformed identifiers on every run.",
        "level_note": "Trusted: Lean kernel; the differential harness (in-package go test -overlay) as evidence that the Lean model equals the Go function; strings.Split / strconv.ParseUint / Masterminds semver as exercised. Lenient version spellings are outside the claim and only checked for no-panic.",
        "trusted": ["Masterminds/semver lenient spellings are outside the claim (model answers 'outside', only no-panic compared)"],
        "assumptions": ["strings.Split and strconv.ParseUint behave as modelled (compared differentially on every case)"],
    },
}

PROPS["C10"] = {
    "harness": {"kind": "cmd", "cmd": "c10"},
    "extra_harnesses": [{"cmd": "nodewire", "tag": "nodewire"}],
    "level_text": "Theorems for every natural-number cap (no 64-bit bound) and every environment: a submission happens only for a pending target; the replacement has the target's nonce, the client's chain id, value 0, empty data, gas 21000, destination = own address, tip = floor(110*max(tip_o,tip_s)/100) >= both tips, feeCap = max(price_o,feeCap_o)+tip >= feeCap_o+tip; any other lookup answer or a failing call yields an error and no submission. The literals 110/100/21000/0 are regenerated from CancelTx's source and pinned by a theorem. The model is tied to the real EvmClient.CancelTx over a scripted chain node (targets sent through the client first or foreign, legacy and dynamic-fee, boundary and >64-bit caps, every fault). Also: cancelling a cancellation the same client made earlier (the replacement it submitted is what the node reports). Theorems C10_cancel_of_cancellation and C10_cancel_chain: along a chain of cancellations of any length the nonce is the original's, each replacement outbids the one before it by 110 % against the tip suggested at that moment, and the fee cap covers the previous fee cap plus the new tip.",
    "level_note": "Trusted: Lean kernel; differential harness as evidence model = code; go-ethereum types.Transaction accessors and London signer; mockevm. The signed raw transaction reaching the stub node is decoded, so chain id and sender are observed, not assumed.",
    "nontrivial_rule": "distinct (tag, model observation) pairs; tag = lookup kind (+tracked when the target was first sent through the client)",
    "assumptions": ["TransactionByHash's (tx, isPending, err) triple is the only source of the target's state"],
}

PROPS["C08"] = {
    "harness": {"kind": "overlay", "pkg": "pkg/evmclient", "pkgname": "evmclient",
                "files": ["evmclient/stub_test.go", "evmclient/c08_test.go"], "test": "TestVerifC08"},
    "extra_harnesses": [{"cmd": "nodewire", "tag": "nodewire"}],
    "level_text": "Theorem by induction over arbitrary operation lists (sends with any pending answer or failure and any failing call, monitor updates, restarts): every successfully submitted nonce n satisfies max(prev+1, own pending answer) <= n <= max(prev+1, largest pending answer since the previous success) and n <= highest confirmed nonce reported + 1024 (literal; the window constant is regenerated from the source). Corollaries proved on event lists: strictly increasing within a lifetime, consecutive when nothing failed/intervened, a failed request consumes no nonce, restart monotonicity under the (necessary, witnessed) fresh-answer hypothesis. The model is tied to the real EvmClient.Send + real watch loop over a scripted chain node with in-package access. Faults include submissions that fail with the caller's context error or a transport error, and monitor rounds whose confirmed-nonce query fails while the pending-nonce query answers. That failed round is an operation of the model (C08_failed_monitor_round_is_invisible).",
    "level_note": "Trusted: Lean kernel; differential harness; atomicity of Send (whole body under c.mtx) and of the monitor's atomic word are modelling assumptions; the first is exercised on every run by sends overlapping in time (the first is held inside its gas-estimate call while the second arrives), both under -race in the thorough tier. Restart: the client persists nothing, so cross-restart monotonicity is proved under the stated environment hypothesis.",
    "nontrivial_rule": "distinct (tag, model event list) pairs; a sequence is non-trivial when it contains at least one send",
    "assumptions": ["Send is serialised by the client's mutex (one atomic step per request)",
                    "after a restart the chain node's first pending answer exceeds every nonce it accepted from this account (needed only for the cross-restart corollary)"],
}

PROPS["C17"] = {
    "harness": {"kind": "overlay", "pkg": "pkg/p2p/libp2p", "pkgname": "libp2p",
                "files": ["libp2p/c04_test.go", "libp2p/timers_test.go", "libp2p/c17_test.go"], "test": "TestVerifC17"},
    "level_text": "Theorem by induction over arbitrary histories of placements (permanent, timed, re-blocking of the same peer), time advances and queries: isBlocked answers exactly 'some placement on this peer is still in force' (duration 0, or now <= start+duration), the dial and secured hooks answer its negation, the listing is sound and complete away from expiry instants; corollaries: permanent blocks never lapse, timed blocks hold their full term, never-blocked peers are unaffected; the failure-class -> duration table (0/0/2min/5min) is regenerated from libp2p.go and pinned by a theorem. The model is tied to the real blockPeer/isBlocked/BlockedPeers and the real gater by an exhaustive table of <=3 placements x probe times plus random multi-peer histories.",
    "level_note": "Trusted: Lean kernel; differential harness (virtual time by shifting stored start instants, queries kept >= 1 s from expiry instants); time.Now monotonicity; libp2p calling the gater hooks is not modelled.",
    "nontrivial_rule": "distinct (tag, model answer list) pairs; non-trivial = at least one placement and one query",
    "assumptions": ["each blocklist operation is atomic (blockMu held for the whole body)", "libp2p consults InterceptPeerDial / InterceptSecured for every dial / secured connection"],
}

PROPS["C11"] = {
    "harness": {"kind": "cmd", "cmd": "c11"},
    "extra_harnesses": [{"cmd": "nodewire", "tag": "nodewire"}, {"kind": "overlay", "pkg": "pkg/evmclient", "pkgname": "evmclient", "files": ["evmclient/stub_test.go", "evmclient/c09_test.go"], "test": "TestVerifC09Batch", "tag": "c09batch"}],
    "level_text": "Theorems: the check answers yes iff both reads were obtained and decoded and amount >= minimum (any call or decoding failure yields no; a return shorter than 32 bytes is a failure); for all values < 2^256 the decoded words are the on-chain numbers (big-endian round trip); stake/prepay hands exactly (registry address, amount as value, 4-byte selector) to the evm client and reports success iff send succeeded and the receipt has status 1. Tied to both real wrappers over the repository's mock evm client: exhaustive fault placement x return shapes {error, empty, 31, 32, 33, 64 bytes} x boundary value pairs up to 2^256-1 x every receipt outcome. Whole node (node.NewNode, see C07): stake is read at the configured provider registry, allowance at the configured bidder registry, stake/prepay pay those contracts the requested value and report the balance afterwards; any mis-wiring of the reads yields no commitment (theorem) and is observed end to end.",
    "level_note": "Trusted: Lean kernel; differential harness; go-ethereum abi.Pack/Unpack (modelled as: <32 bytes error, else first word big-endian; compared on every case); contracts-abi metadata for selectors.",
    "nontrivial_rule": "distinct (tag, which registry, model observation) cells",
    "assumptions": ["the evm client's WaitForReceipt returns either an error or the transaction's receipt"],
}

PROPS["C02"] = {
    "harness": {"kind": "cmd", "cmd": "signer"},
    "extra_harnesses": [{"cmd": "sendbid", "tag": "sendbid"}],
    "level_text": "Theorems for every hash function H and every signature scheme S (primitives are parameters): acceptance characterisation (iff) of VerifyBid and VerifyPreConfirmation; field binding - equal bid digests imply equal tx-hash bytes, amount value, block number and timestamps, and equal commitment digests additionally equal bid digest and bid signature bytes, or an explicit H-collision is exhibited (injectivity of 256-bit two's complement on the int64 window and on [0,2^256), of lowercase hex, of fixed-width concatenation); malleation - (r, n-s) fails the low-S check (arithmetic on secp256k1's n); completeness - messages built by the node's own signing functions verify to its address (under the stated key-signer laws); no verification path panics. Tied to the real preconfsigner over real keys: primitive answers come from go-ethereum directly, all hashes are recomputed by the Lean Keccak; every single-field and several multi-field value-changing perturbations, digest substitution, s -> n-s, v flips, r/s bit flips, all signature/digest lengths 0..66, absent parts.",
    "level_note": "Trusted: Lean kernel; differential harness; secp256k1 recover/verify and Keccak are parameters of the theorems (EUF-CMA and collision resistance turn the structural facts into the informal 'cannot forge' claim and are not proved); big.Int.SetString / math.U256Bytes modelled byte-exactly and compared on every case.",
    "nontrivial_rule": "distinct (perturbation tag, outcome class) cells; every case is a fresh random key/field combination",
    "assumptions": ["KeySigner.SignHash returns 65 bytes r||s||v with v in {0,1} and a canonical low-S signature (go-ethereum crypto.Sign)"],
}
PROPS["C03"] = {
    "harness": {"kind": "cmd", "cmd": "signer"},
    "level_text": "Theorems for every hash function H: for every tx-hash string, every amount text whose value is < 2^64 and every block number / timestamp in [0,2^63), GetBidHash equals the digest of a generic EIP-712 encoder (encodeType/hashStruct/domain separator/0x19 0x01 envelope written from the standard) for domain (PreConfBid, 1) and GetPreConfirmationHash equals it for (PreConfCommitment, 1) with the two extra string members set to the lowercase hex of bid digest and bid signature; encodeType of the published schemas equals the type strings regenerated from the Go source (kernel-checked on byte lists); emitted signatures are 65 bytes r||s||v with v in {27,28}. Three-way differential on every run: Go digest = Lean Keccak-executed generic digest = go-ethereum signer/core/apitypes.TypedDataAndHash. The digest reported is the one the long-lived signer put into the message it signed (which must equal what the exported hash function returns for that message); measured calls also follow calls the signer refuses, and a cell computes many digests at the same time.",
    "level_note": "Trusted: Lean kernel; the executable Lean Keccak-256 is used only to run the spec (theorems hold for every H); apitypes as independent implementation; harness.",
    "nontrivial_rule": "distinct (kind, length class of tx-hash string, boundary class of amount) - counted as distinct (tag, model digest) pairs",
    "assumptions": ["KeySigner.SignHash contract as in C02"],
}

PROPS["C18"] = {
    "harness": {"kind": "overlay", "pkg": "pkg/p2p/libp2p", "pkgname": "libp2p",
                "files": ["libp2p/c17_test.go", "libp2p/c04_test.go", "libp2p/timers_test.go", "libp2p/c18_test.go"], "test": "TestVerifC18"},
    "extra_harnesses": [{"kind": "overlay", "pkg": "pkg/p2p/libp2p", "pkgname": "libp2p", "files": ["libp2p/c04_test.go", "libp2p/timers_test.go"], "test": "TestVerifC04", "tag": "c04"}],
    "level_text": "Theorems: for every scalar d < 2^256 (hence every count of leading zero bytes) the padded key has exactly 32 bytes and denotes d; the key extracted from a secp256k1 identity peer id is the key it was built from; therefore the address derived from the node's transport identity equals the address of the key's public point, for every hash function and every curve satisfying the compress/decompress round trip. Tied to the real pipeline (PadKeyTo32Bytes, UnmarshalSecp256k1PrivateKey, peer id, GetEthAddressFromPeerID) against crypto.PubkeyToAddress for keys with exactly 0..31 leading zero bytes, scalars 1 and n-1, keys whose public coordinates have leading zero bytes, random keys; padded bytes, peer-id bytes and addresses are compared with the model's (Lean Keccak); a sample of keys goes through the real libp2p.New.",
    "level_note": "Trusted: Lean kernel; harness; the secp256k1 group law and point compression are parameters (the round-trip law is a hypothesis of the coherence theorem, discharged by go-ethereum on every generated key); libp2p's peer-id encoding is modelled at byte level for secp256k1 identity ids and compared on every case.",
    "nontrivial_rule": "distinct (tag, number of leading zero bytes of the key) classes, counted as distinct (tag, model pad prefix) pairs",
    "class_of": lambda c, r: str(len(c["in"]["d"])),
    "assumptions": ["libp2p derives the host identity from the key passed to libp2p.Identity"],
}


def _c13_agree(model, impl):
    """reads compared element-wise; `outside` model answers and inner-unmarshal failures of
    hand-made raw payloads only need 'no panic'"""
    if impl.get("panic"):
        return False
    if "header_eq" in model:
        return impl.get("header_eq") is True
    if model.get("wirelen") != impl.get("wirelen"):
        return False
    if "wire" in model and model["wire"] != impl.get("wire"):
        return False
    mr, ir = model["reads"], impl["reads"]
    for i, m in enumerate(mr):
        if m["t"] == "outside":
            return True
        if i >= len(ir):
            return False
        r = ir[i]
        if r["t"] == "inner-err" and m["t"] == "data":
            continue
        if m["t"] != r["t"]:
            return False
        if m["t"] == "data" and (m["plen"] != r["plen"] or (m["p"] and m["p"] != r.get("p", ""))):
            return False
        if m["t"] == "status" and (m["code"] != r.get("code", 0) or m["msg"] != r.get("msg", "")):
            return False
    return len(ir) == len(mr)


PROPS["C13"] = {
    "harness": {"kind": "overlay", "pkg": "pkg/p2p/libp2p", "pkgname": "libp2p",
                "files": ["libp2p/c04_test.go", "libp2p/timers_test.go", "libp2p/c13_test.go"], "test": "TestVerifC13"},
    "agree": _c13_agree,
    "level_text": "Theorems (byte level, for every payload up to the frame limit, every status code < 2^31 and message, every sequence of writes, any chunking since the reader consumes the concatenation): varint, length-delimited-field and google.rpc.Status round trips; a data envelope decodes as data with the same bytes and never as an error, an error envelope decodes as an error with the same code and message and never as data; readAll(concat(frames of writes)) = the written items in order; the empty envelope is rejected; an oversize length prefix is rejected. Tied to the real stream/metadataStream over an in-memory byte stream with adversarial chunkings: all message types of the protocols, all 17 status codes, sizes around varint boundaries and exactly at/below/above the 8 MiB limit, malformed envelopes, header maps (through the real metadataStream; protobuf library trusted for their content). Wire bytes produced by the Go code are compared with the model's encoder byte for byte. Also: messages carrying unknown fields, several writers on one stream behind a transport that is not draining (every message read exactly once, intact), and handlers that return their verdict or read the peer's message only after having run longer than every real-time bound the package mentions. Theorem C13_concurrent_writers: frames are written under the stream's lock, so for every permutation in which concurrent writers win it the reads are exactly that permutation of the written messages.",
    "level_note": "Trusted: Lean kernel; harness; protobuf marshal/unmarshal of the inner messages and of structpb header maps; msgio. An error frame with code OK reads as success-without-data (outside the claim, modelled); envelopes with several occurrences of the oneof members follow protobuf merge rules (outside the model, only no-panic compared).",
    "nontrivial_rule": "distinct (tag, chunking, model read list) triples",
    "assumptions": ["the byte stream below the framing layer is reliable and ordered (libp2p stream contract)"],
}

PROPS["C19"] = {
    "harness": {"kind": "cmd", "cmd": "c19"},
    "history_len": 6,
    "extra_harnesses": [{"cmd": "nodewire", "tag": "nodewire"}],
    "level_text": "Theorems: the request is accepted iff the hash list is non-empty and every entry is 64 hex digits, the amount is a decimal integer in [1, 2^64), and block number and decay timestamps are positive; a rejected request forwards nothing; for every accepted request the forwarded values are the request's own and the joined hash string splits back into exactly the request's hashes in order (join/split round trip, needs only that hex strings contain no comma); boundary amounts 2^64-1 / 2^64 / 0 / signed; in a session of any length through the one service the k-th call answers for the k-th request alone (forwards its own values or nothing, streams its own commitments), a hand-over the network layer refuses offers the request's own values once and streams nothing, and a malformed request reaches the network layer at no position of a session. Rendering of commitments is field-wise lowercase hex (injective by C02's hex lemma). Tied to the real Service.SendBid with the real protovalidate validator: boundary tables for amounts (signs, spaces, newline, unicode digits, leading zeros, overflow), hash lists (lengths 63/64/65, non-hex, embedded comma/newline, empty), all sign/zero/min-int64 combinations of the three numbers, random requests, commitments with arbitrary contents and several differing commitments per bid, and hand-overs the network layer refuses, each followed by further requests through the same long-lived service (a violation's replay file carries the calls that preceded it). Whole node: the scenarios of harness/cmd/nodewire (two real nodes built by node.NewNode against a scripted JSON-RPC chain node, driven through their gRPC APIs: stake / allowance present or not, engine accepts or rejects, well-formed or malformed request) are part of this check and are judged by Model/Wiring.",
    "level_note": "Trusted: Lean kernel; harness; protovalidate/CEL evaluation (the rules are modelled as Lean predicates and compared on every case, including the runtime-error cases of uint()); strings.Join/Split.",
    "nontrivial_rule": "distinct (tag, accepted?, number of hashes, number of commitments) cells",
    "class_of": lambda c, r: "%s/%d/%d" % (r["model"].get("status"), len(c["in"]["txhashes"]), len(c["in"]["commits"] or [])),
}

PROPS["C15"] = {
    "harness": {"kind": "cmd", "cmd": "c15"},
    "extra_harnesses": [{"kind": "overlay", "pkg": "pkg/p2p/libp2p", "pkgname": "libp2p", "files": ["libp2p/c14_test.go"], "test": "TestVerifC14", "tag": "c14"}],
    "level_text": "Theorems by induction over arbitrary event histories (connected / add / disconnected / gossip, any roles incl. bootnode and unknown, failing lookups, lying gossip records): a peer of role provider or bidder is reported iff the latest event about that (address, role) added it (refinement of the two maps to the history-defined view); on connect the newcomer is sent exactly the other known providers whose lookup succeeded - never its own record, never a non-provider - and nothing if there is none; iff the newcomer is a provider (whose own lookup succeeds) every known bidder is sent exactly its record; gossip dials exactly the listed addresses not in the view and adds exactly the peers the handshakes proved (address and role as returned by Connect). Tied to the real Topology wired to the real Discovery (as announcer and as gossip handler) over a scripted p2p service; sets compared as sorted multisets after every event.",
    "level_note": "Trusted: Lean kernel; harness (dials are gated so that every entry of a gossip list is checked against the view before any dial completes - the schedule the model fixes; lists are kept below the 10-worker semaphore); Go map iteration order is immaterial (outputs sorted).",
    "nontrivial_rule": "distinct (tag, model step list) pairs; an event list is non-trivial if it contains a connect of a provider or a gossip list",
    "assumptions": ["Notifier callbacks are delivered sequentially (libp2p service calls Connected/Disconnected one at a time)"],
}

PROPS["C14"] = {
    "harness": {"kind": "overlay", "pkg": "pkg/p2p/libp2p", "pkgname": "libp2p",
                "files": ["libp2p/c14_test.go"], "test": "TestVerifC14"},
    "extra_harnesses": [{"kind": "overlay", "pkg": "pkg/p2p/libp2p", "pkgname": "libp2p", "files": ["libp2p/c04_test.go", "libp2p/timers_test.go"], "test": "TestVerifC04", "tag": "c04"}],
    "level_text": "Theorems for every sequence (hence every interleaving of the atomic, mutex-protected registry operations) of admissions incl. repeated and multi-connection ones, connection closures tracked or not, lookups, stream registrations/removals - under the hypothesis (discharged by C04) that the recorded address is an injective function of the peer id: an invariant (address map and id map mutually inverse; peer registered iff its tracked connection set is non-empty; stream table domain = registered peers) holds in every reachable state; the unguarded dereference in Disconnected is unreachable (no panic); closing the last tracked connection removes the peer from both maps, cancels every recorded handler context and appends exactly one notification; untracked closures change nothing; and a refinement theorem: the four concrete maps are at all times the projections of an abstract one-map specification (peer id -> proven peer, open connections, handler streams), so lookups by id and address, cancellations and notifications are those of the abstract machine. Tied to the real peerRegistry with fake network.Conn/Stream values: exhaustive sequences over 2 peers x 2 connections x 2 streams, random long ones, incl. the lookup/close/addStream schedule of the handler wrapper.",
    "level_note": "Trusted: Lean kernel; harness; libp2p delivering Disconnected for every closed connection; atomicity of each registry method (one mutex). The two-step stream opening of the wrapper is modelled as two steps: a handler whose peer disconnects between getPeer and addStream runs with a context the registry never cancels (allowed by the statement as written, recorded in DESIGN.md as D14).",
    "nontrivial_rule": "distinct (tag, model snapshot list) pairs",
    "assumptions": ["recorded address = injective function of the peer id (property C04)", "a closed connection id is never admitted again"],
}

PROPS["C12"] = {
    "harness": {"kind": "overlay", "pkg": "pkg/rpc/provider", "pkgname": "providerapi",
                "files": ["provider/c12_test.go"], "test": "TestVerifC12", "race": True},
    "level_text": "Theorems over arbitrary interleavings of the atomic steps (registration, hand-off, abandonment, decision; equal digests allowed; bid ids unique by construction): an invariant (a registered id sits under its own digest; an answered bid is no longer registered; delivered ids are duplicate-free) holds in every reachable state, hence every bid receives at most one status; a decision is delivered exactly to the bid registered under the digest it names, with its status; decisions for unknown, already answered or abandoned digests leave the state unchanged and the stream running; abandonment leaves no entry of that bid; invalid bids are never registered. Tied to the real Service (real protovalidate): the harness plays callers and engine, executes random plans and logs the realised atomic steps (the runtime decides which parked caller the engine takes), including the same digest decided on two decision streams at once with the first stream held between look-up and callback (through the logger it is given).",
    "level_note": "Trusted: Lean kernel; harness (trace validation: the model replays the realised step list); protovalidate. An out-of-range status ends the decision stream with an error (outside the claim, modelled). A status delivered to a bid whose hand-off was abandoned stays unread in its buffered channel (modelled).",
    "nontrivial_rule": "distinct realised step lists (tag, model outs); a run is non-trivial if it contains a decision for a registered digest",
    "assumptions": ["critical sections under bidsMu and the unbuffered hand-off are the atomic steps"],
}

PROPS["C01"] = {
    "harness": {"kind": "cmd", "cmd": "handlebid"},
    "extra_harnesses": [{"cmd": "nodewire", "tag": "nodewire"}],
    "level_text": "Theorem for every environment and every schedule (universally quantified event lists: hand-off, decisions for this or another digest with any status value, deadline, cancellation, in any order, plus every combination of gate outcomes and of sign/store/write faults): any effect (commitment signature, settlement submission, commitment message) implies peer role = bidder, bid read, verified, funded, well-formed and an ACCEPTED decision naming this bid's digest before any deadline/cancellation; effects are always a prefix of sign, store, write; in every other case no effect and an error or nothing. The handler is composed with the provider service's registration/hand-off/decision semantics. Tied to the real handleBid wired to the real preconfsigner (counting key signer), the real bidder-registry wrapper, the real provider Service with real protovalidate (the harness plays the engine on both gRPC streams), the real preconf-contract wrapper and a scripted stream: every single gate failure, every engine behaviour (reject, status 0/3, wrong digest, duplicates, silence, never taken, accept after deadline/cancel), faults, and random cells of the full matrix. Every gate of the model's environment is evaluated by the Lean models of the components (C02 signer with go-ethereum primitive answers, C11 registry decode, C12 format rules). Whole node: the scenarios of harness/cmd/nodewire (two real nodes built by node.NewNode against a scripted JSON-RPC chain node, driven through their gRPC APIs: stake / allowance present or not, engine accepts or rejects, well-formed or malformed request) are part of this check and are judged by Model/Wiring.",
    "level_note": "Trusted: Lean kernel; harness; the 5 s deadline is emulated by cancelling the parent context (real-time behaviour of context.WithTimeout is sampled in the thorough tier only; its literal duration is regenerated from the source); decisions arriving before the engine took the bid are covered by the model and by C12's in-package harness, not forced here.",
    "nontrivial_rule": "distinct (tag, gate vector, schedule class, model observation) cells",
    "class_of": lambda c, r: "%s|%s" % (c["in"]["tag"], json.dumps(r.get("model"), sort_keys=True)),
}
PROPS["C07"] = {
    "harness": {"kind": "cmd", "cmd": "handlebid"},
    "extra_harnesses": [{"cmd": "nodewire", "tag": "nodewire"}],
    "level_text": "Theorems: decode(encode(args)) = args for the 7-argument storeCommitment call (unbounded string/bytes, all 64-bit numbers; selector + head/tail layout); for every bid in the validated domain the calldata built from the commitment decodes to exactly its amount, block number, tx-hash string, decay window, bid signature and commitment signature (the 64-bit conversions are the identity there); in the handler model a commitment is written only after a successful submission and a failed submission yields an error and no commitment. Tied to the real handleBid + real preconf-contract wrapper: captured calldata is decoded by the Lean decoder and compared field by field with the commitment actually written, compared byte for byte with the Lean encoder's output (i.e. with go-ethereum's abi.Pack), destination = configured address, order of Send and WriteMsg; amounts up to 2^64-1 incl. [2^63, 2^64), leading-zero spellings, mixed-case hashes, the same bid retried through the same instances after failed submissions. Whole node: two real nodes built by node.NewNode (bidder + provider, three distinct configured contracts) against an in-process JSON-RPC chain node, driven through their gRPC APIs; the model of the wiring says where every read and transaction must go and when a commitment may exist.",
    "level_note": "Trusted: Lean kernel; harness; go-ethereum abi.Pack (compared byte for byte on every accepting case); contracts-abi metadata for the selector; big.Int.Int64 on [2^63,2^64) returns the low 64 bits in the pinned Go implementation (documented as undefined; compared differentially).",
    "nontrivial_rule": "distinct accepted bids (tag, calldata length class); every case is a fresh random bid",
    "class_of": lambda c, r: "%s|%d" % (c["in"]["tag"], len((c["in"].get("bid") or {"txhash": ""})["txhash"])),
}


def _c05_agree(model, impl):
    """offered bids, closure, leak and panic must agree; deliveries must be equal, except that when the
    caller's deadline passed a goroutine may legitimately pick ctx.Done over the (never blocking)
    channel send: then the implementation's deliveries must be a sub-multiset of the model's"""
    if impl.get("panic") or not impl.get("closed") or impl.get("leaked"):
        return False
    if model.get("send_err") != impl.get("send_err"):
        return False
    if impl.get("send_err"):
        return True
    if canon(model["offered"]) != canon(impl["offered"]):
        return False
    md = [canon(x) for x in model["delivered"]]
    im = [canon(x) for x in impl["delivered"]]
    if model.get("_deadline"):
        for x in im:
            if x in md:
                md.remove(x)
            else:
                return False
        return True
    return sorted(md) == sorted(im)


def canon(x):
    return json.dumps(x, sort_keys=True, separators=(",", ":"))


PROPS["C05"] = {
    "harness": {"kind": "cmd", "cmd": "sendbid"},
    "extra_harnesses": [{"cmd": "nodewire", "tag": "nodewire"}, {"kind": "overlay", "pkg": "pkg/p2p/libp2p", "pkgname": "libp2p", "files": ["libp2p/c14_test.go"], "test": "TestVerifC14Order", "tag": "notify-order"},
                        # which providers count as connected when a bid is sent is the peer registry's bookkeeping of connections
                        {"kind": "overlay", "pkg": "pkg/p2p/libp2p", "pkgname": "libp2p", "files": ["libp2p/c14_test.go"], "test": "TestVerifC14", "tag": "c14"}],
    "agree": _c05_agree,
    "level_text": "Theorems for every number of providers, every reply behaviour and every arrival order (any duplicate-free order of the per-provider goroutines; order independence proved as a permutation statement): every delivered commitment passed VerifyPreConfirmation, carries as provider address the recovered signer (C02 characterisation instantiated: digest = commitment hash over the sent bid, recover + low-S), and embeds exactly the bid this call sent; a commitment for a different valid bid (the provider's own or a replayed one) is never surfaced; at most one delivery per provider; the number of deliveries never exceeds the channel capacity, so no sender blocks and the closer runs once all goroutines returned. Tied to the real SendBid with the real preconfsigner over a scripted topology/streamer: 0..8 providers, 17 reply classes incl. different-valid-bid, replayed bid, foreign/invalid/short signatures, missing parts, error frames, garbage, silence, reset, open/write failures, forced arrival orders, deadline on or off; goroutine count sampled after completion. Whole node: the scenarios of harness/cmd/nodewire (two real nodes built by node.NewNode against a scripted JSON-RPC chain node, driven through their gRPC APIs: stake / allowance present or not, engine accepts or rejects, well-formed or malformed request) are part of this check and are judged by Model/Wiring.",
    "level_note": "Trusted: Lean kernel; harness; liveness is proved under the contract that every blocking stream operation returns by the caller's deadline (stream.ReadMsg/WriteMsg select on ctx); real goroutine scheduling is sampled, not proved. When the deadline passes, a ready delivery may lose the select against ctx.Done (Go picks at random): deliveries are then compared as a sub-multiset.",
    "nontrivial_rule": "distinct (tag, multiset of reply classes, deadline) cells",
    "class_of": lambda c, r: "%s|%s|%s" % (c["in"]["tag"], sorted(p["class"] for p in (c["in"]["providers"] or [])), c["in"]["deadline"]),
}

PROPS["C04"] = {
    "harness": {"kind": "overlay", "pkg": "pkg/p2p/libp2p", "pkgname": "libp2p",
                "files": ["libp2p/c04_test.go", "libp2p/timers_test.go"], "test": "TestVerifC04"},
    "extra_harnesses": [{"cmd": "nodewire", "tag": "nodewire"}, {"kind": "overlay", "pkg": "pkg/p2p/libp2p", "pkgname": "libp2p", "files": ["libp2p/c14_test.go"], "test": "TestVerifC14", "tag": "c14"}, {"cmd": "c15", "tag": "c15"}],
    "level_text": "Theorems for every remote transcript (arbitrary frame lists), both directions, every local role, every registry answer and every primitive answer: characterisation of verifyReq (success iff the signature over exactly role||token verifies, to the address of the authenticated transport identity, and - for the exact role string 'provider' - the registry confirmed it; the registry is consulted at most once and only after the signature and address checks passed); a peer is admitted with (A,T) by the responder only if its first frame is such a request and its second frame echoes the node's own address and role, and by the initiator only if the responder first echoed the initiator's own address and role and then presented such a request; a peer obtains the provider role only through the exact string the stake check keys on (role strings regenerated from p2p.go); registration and notification happen only after success, signature/address failures are blocked forever and stake failures for the regenerated durations. Tied to the real handshake.Service built as libp2p.New builds it (real signer, real GetEthAddressFromPeerID) over a scripted stream, and to the real handleConnectReq / Connect on a Service with a fake libp2p host, real peerRegistry, recording notifier and real block list: message kinds per position x signature classes x role strings (incl. case/whitespace variants) x echoes x truncations x write failures x non-secp256k1 transport identity x registry answers x local roles x direction. Whole node: the scenarios of harness/cmd/nodewire (two real nodes built by node.NewNode against a scripted JSON-RPC chain node, driven through their gRPC APIs: stake / allowance present or not, engine accepts or rejects, well-formed or malformed request) are part of this check and are judged by Model/Wiring.",
    "level_note": "Trusted: Lean kernel; harness; libp2p's authentication of the remote peer id (connection security) is assumed; ECDSA recovery/verification answers come from go-ethereum directly and are parameters of the theorems; an unknown role string is admitted with role 'unknown' (allowed by the statement's 'only if', recorded).",
    "nontrivial_rule": "distinct (tag, direction, level, model observation) cells",
    "class_of": lambda c, r: "%s|%s|%s|%s" % (c["in"]["tag"], c["in"]["inbound"], c["in"]["level"], json.dumps(r.get("model"), sort_keys=True)),
}


def _c09_agree(model, impl):
    if impl.get("crashed") or impl.get("close_err"):
        return False
    mw = [w["outcome"] for w in model["waiters"]]
    iw = [w["outcome"] for w in impl["waiters"]]
    return mw == iw and model["pending"] == impl["pending"] and impl.get("unknown_pending", 0) == 0


PROPS["C09"] = {
    "harness": {"kind": "overlay", "pkg": "pkg/evmclient", "pkgname": "evmclient",
                "files": ["evmclient/stub_test.go", "evmclient/c09_test.go"], "test": "TestVerifC09", "race": True},
    "agree": _c09_agree,
    "level_text": "Theorems over arbitrary interleavings of the atomic steps (submission, watch registration, per-element batch replies for any snapshot, shutdown, drain, client observation): an invariant (a waiter listed in a row is allocated, unanswered and belongs to that row only; delivered waiter ids are duplicate-free) holds in every reachable state, hence no waiter ever has two outcomes and the monitor never sends on a closed channel (no crash); a receipt goes only to waiters of that very hash; 'cancelled' only for a waiter whose nonce is below the confirmed nonce of the snapshot that found no receipt for its hash; 'closed' only after shutdown began; a reply resolves its whole row in that step; after the drain nobody is left waiting and new waiters are refused; the pending list is a subset of what was submitted and resolved transactions leave it once observed. Tied to the real txmonitor + EvmClient with the receipt batch call under a gate (watch/round/close forced in all orders incl. reply in flight during Close, watch during an in-flight reply, a watcher that has read the shutdown flag and is then held while Close runs, a waiter registering while the outcome of that very transaction is being handed out, rounds larger than one receipt batch, CancelTx with an accepted and with a rejected replacement), over both transports: function mock and a real in-process go-ethereum JSON-RPC server where a missing receipt is JSON null; the harness logs the realised atomic steps and the model replays them. Rounds are also driven by the monitor's own ticker after every receipt query of a round failed: new blocks with an idle checker and unresolved transactions below the confirmed nonce must lead to a query (a `missed-check` step is a violation; judged by evaluating the watch-loop model). The watch loop itself (wake-up, block query, confirmed-nonce query, hand-off or drop) is a second model: for any sequence of wake-ups and node answers without a shutdown the loop stays alive, a failed block or nonce query changes nothing, a newer block seen with an idle checker (or a new waiter) always triggers a check carrying that iteration's answers; tied by plan steps in which the block query fails once with a plain error or one wrapping a context error while nobody shut the monitor down.",
    "level_note": "Trusted: Lean kernel; harness (trace validation); the 500 ms ticker and the 10 s Close timeout are real time; liveness is proved as 'a reply resolves its row' / 'the drain resolves everybody', not under the Go scheduler. A case that kills the test process is recognised by its marker line.",
    "nontrivial_rule": "distinct (transport, realised step list) pairs; non-trivial = at least one reply or drain reaching a registered waiter",
    "class_of": lambda c, r: "%s|%s" % (c["in"]["transport"], json.dumps(c["in"]["steps"])),
    "assumptions": ["watchTx / notify / drain / getOlderTxns are atomic (txmonitor.mtx) - exercised by forced schedules inside each of them", "the chain node's answer for a hash is what the reply step carries"],
}

PROPS["C20"] = {
    "harness": {"kind": "overlay", "pkg": "pkg/p2p/libp2p", "pkgname": "libp2p",
                "files": ["libp2p/c17_test.go", "libp2p/c04_test.go", "libp2p/timers_test.go", "libp2p/c20_test.go"], "test": "TestVerifC20"},
    "level_text": "Theorem over all interleavings of the two nodes' steps (asynchronous reliable channel; initiator: write final message, return from Connect, open stream; responder: read+verify final message, register, clear the in-flight marker; responder's stream wrapper: look the peer up, wait for an in-flight handshake of that peer, look again): an invariant (marker cleared implies peer registered) gives that a stream opened after a successful connect is never refused as coming from an unknown peer, however late the responder registers, and a waiting stream is accepted once the responder finished; the wrapper that does not wait (the pinned tree) is refuted by a kernel-evaluated 4-step schedule. A second, lock-level model (the per-peer in-flight record {count, done} of the repair, any number of other inbound handshake handlers of the same peer beginning / registering / returning at arbitrary moments, the wrapper's four separately locked steps) carries the same theorem by an invariant over arbitrary step lists, plus: from every reachable state the schedule in which the handlers return ends with the stream accepted (the wait cannot deadlock for any number of concurrent handlers). Tied to two real services on loopback: the responder's KeySigner.GetAddress (called between reading the final message and registering) is a gate held for chosen delays while the initiator opens 1-3 streams right after Connect returned; plus ungated runs with natural relative speeds and several role pairs.",
    "level_note": "Trusted: Lean kernel; harness; real sockets, libp2p stream negotiation and the Go scheduler are sampled, not modelled (partial): the model's steps are the protocol-level events only. Honest initiator (its final message verifies) is the scope of the statement.",
    "nontrivial_rule": "distinct (tag, delay, streams, role pair) cells",
    "class_of": lambda c, r: json.dumps(c["in"], sort_keys=True),
}

PROPS["C06"] = {
    "harness": {"kind": "overlay", "pkg": "pkg/p2p/libp2p", "pkgname": "libp2p",
                "files": ["libp2p/c17_test.go", "libp2p/c04_test.go", "libp2p/timers_test.go", "libp2p/c06_test.go"], "test": "TestVerifC06"},
    "extra_harnesses": [{"kind": "overlay", "pkg": "pkg/p2p/libp2p", "pkgname": "libp2p", "files": ["libp2p/c14_test.go"], "test": "TestVerifC14", "tag": "c14"},
                        # gossip lists are peer-controlled input too: the topology / discovery driver
                        {"cmd": "c15", "tag": "c15"},
                        # the provider's bid handler facing a bidder (and a chain client whose calls end
                        # with the bidder's stream): the C01 driver, judged by the C01 model
                        {"cmd": "handlebid", "tag": "handlebid", "env": {"VERIF_PROP": "C01"}},
                        # the provider's RPC service between the bid handler and the decision engine (bids and
                        # decisions are peer- and engine-controlled): the C12 driver
                        {"kind": "overlay", "pkg": "pkg/rpc/provider", "pkgname": "providerapi", "files": ["provider/c12_test.go"], "test": "TestVerifC12", "tag": "random"}],
    "level_text": "Theorems: every partial operation that peer-controlled data can reach is modelled with Go's panicking semantics and proved unreachable in the panicking case - sig[64] in eipVerify and the embedded-bid dereference in VerifyPreConfirmation (for every hash function and scheme), the signature slice in signer.Verify (reached only after recovery succeeded, i.e. for 65-byte signatures; the guard is shown necessary), the prefix slice in GetEthAddressFromPeerID (reached only after decompression succeeded), the registry dereference in Disconnected (from the C14 invariant), BytesToAddress total for every length; frame reading is total. Tied to the real entry points invoked the way libp2p invokes them: handshake handler and Connect (all signature lengths 0..70, role strings, non-secp256k1 identities, echo shapes), the AddStreamHandlers wrapper with the real preconfirmation and discovery handlers behind it (digest/signature length classes, non-numeric and huge amounts, extreme numbers, gossip addresses of length 0..40, hostile contact records through the real Connect), the bidder's SendBid reading hostile commitments through the real stream decoder, raw ReadMsg/ReadHeader, oversize/truncated/empty/OK-error frames, byte-level mutations and random bytes.",
    "level_note": "Trusted: Lean kernel; harness; third-party decoders (protobuf, multiaddr / AddrInfo JSON, msgio) are exercised, not modelled (partial). The libp2p Service is built with a metrics registry, as the node does (without one its counters are nil and a failed inbound handshake dereferences them - noted in DESIGN.md).",
    "nontrivial_rule": "distinct (entry point, tag, wire length class) cells",
    "class_of": lambda c, r: "%s|%s|%d" % (c["in"]["entry"], c["in"]["tag"], len(c["in"]["wire"]) // 16),
}

NOT_CLAIMED = {}

"""Per-property configuration of ./check (harness kind, comparison, coverage expectations)."""


def _classes_present(field, expected):
    def chk(cases, results):
        seen = set()
        for c in cases:
            if isinstance(c.get("in"), dict):
                seen.add(c["in"].get(field))
        return [e for e in expected if e not in seen]
    return chk


PROPS = {
    "C16": {
        "harness": {"kind": "overlay", "pkg": "pkg/p2p/libp2p", "pkgname": "libp2p",
                    "files": ["libp2p/c16_test.go"], "test": "TestVerifC16"},
        "nontrivial_rule": "distinct (tag, model decision) pairs; every case is a distinct identifier/handler pair "
                           "drawn from the exhaustive small-range table, 64-bit boundary values or malformed identifiers",
        "level_text": "Theorem (all names without '/', all 64-bit MAJOR.MINOR.PATCH on both sides): the modelled matcher routes /name/M.m.p to handler (hname, M'.m'.p') iff name = hname, M = M', m <= m'; other segment counts or names never match; the model is total (no panic). The model is tied to matchProtocolIDWithSemver by an exhaustive small-range table plus 64-bit boundary and malformed identifiers on every run.",
        "level_note": "Trusted: Lean kernel; the differential harness (in-package go test -overlay) as evidence that the Lean model equals the Go function; strings.Split / strconv.ParseUint / Masterminds semver as exercised. Lenient version spellings are outside the claim and only checked for no-panic.",
        "trusted": ["Masterminds/semver lenient spellings are outside the claim (model answers 'outside', only no-panic compared)"],
        "assumptions": ["strings.Split and strconv.ParseUint behave as modelled (compared differentially on every case)"],
    },
}

NOT_CLAIMED = {}

#!/usr/bin/env python3
"""Rewrite the (theorems / cases / seconds) parentheticals of DESIGN.md §5 from evidence/*.json."""
import json, re, os
ROOT = os.path.dirname(os.path.dirname(os.path.abspath(__file__)))
p = os.path.join(ROOT, "DESIGN.md")
s = open(p).read()
def fmt(n):
    t = str(n)
    return t if n < 1000 else t[:-3] + " " + t[-3:]
def rep(m):
    pid = m.group(1)
    e = json.load(open(os.path.join(ROOT, "evidence", pid + ".json")))
    c = e["coverage"]
    wall = e.get("wall_s") or c.get("wall_s") or 0
    return "%s (%d / %s / %d s)" % (m.group(2), c["obligations"], fmt(c.get("evaluations", 0)), round(wall))
s = re.sub(r"((?:\*\*)(C\d\d) — [^*]*\*\*) \(\d+ / [\d ]+ / \d+ s\)", lambda m: rep(type("M", (), {"group": lambda self, i: {1: m.group(2), 2: m.group(1)}[i]})()), s)
open(p, "w").write(s)

#!/usr/bin/env python3
"""Regenerates MANIFEST.json from lib/props.py (claimed checks) + properties.jsonl (not_applicable for the rest)."""
import json, os, sys
ROOT = os.path.dirname(os.path.dirname(os.path.abspath(__file__)))
sys.path.insert(0, os.path.join(ROOT, "lib"))
from props import PROPS, NOT_CLAIMED

ids = [json.loads(l)["id"] for l in open(os.path.join(ROOT, "properties.jsonl"))]
checks = []
for pid in ids:
    if pid not in PROPS:
        continue
    c = PROPS[pid]
    checks.append({
        "property_id": pid,
        "quick_cmd": "./check %s --tier quick" % pid,
        "thorough_cmd": "./check %s --tier thorough" % pid,
        "evidence_file": "/verif/evidence/%s.json" % pid,
        "replay_cmd_template": "./check %s --replay {path}" % pid,
        "engine": "lean4-proof+go-correspondence",
        "level_claimed": {"category": "proof", "text": c["level_text"], "design_ref": c.get("design_ref", "DESIGN.md section 5, " + pid)},
        "level_note": c["level_note"],
        "technique": c.get("technique", "Lean 4 theorem over an executable model; model tied to the Go code by a differential correspondence harness and regenerated facts"),
    })
na = [{"property_id": pid, "reason": NOT_CLAIMED.get(pid, "check not built yet in this session (planned, see DESIGN.md section 10)")}
      for pid in ids if pid not in PROPS]
m = {
    "version": 1,
    "setup_cmd": "./check --setup",
    "hooks": {
        "guard": "verif",
        "enable": "no source hooks: in-package drivers are injected at test-build time with `go test -overlay` (nothing is written into /repo)",
        "baseline_off_cmd": "cd /repo && go test -mod=mod -vet=off -count=1 ./...",
        "source_commits": [],
        "add_only": True,
    },
    "engines": [{"name": "lean4-proof+go-correspondence", "path": "/verif/check",
                 "serves_properties": [c["property_id"] for c in checks],
                 "kind_free_text": "Lean 4 theorems about hand-written executable models (lean/MevCommit), a compiled Lean driver that runs model+spec on the cases the Go harness (harness/) executed on the real code, and a go/ast fact extractor (extract/) regenerating Extracted.lean"}],
    "checks": checks,
    "not_applicable": na,
    "notes": "See DESIGN.md. known_findings.json lists recorded defects (open) and repaired ones (fixed).",
}
json.dump(m, open(os.path.join(ROOT, "MANIFEST.json"), "w"), indent=1)
print("claimed:", [c["property_id"] for c in checks])

#!/usr/bin/env python3
"""
Re-run every filed seed (seeded/<id>-<k>/patch.diff) against the *current* /repo HEAD with the
*current* checks: one scratch worktree, apply, build, ./check <id> (quick) via VERIF_REPO, revert.
Writes seeded/REVERIFY.json.  usage: reverify_seeds.py [<id>-<k> ...]
"""
import os, sys, re, json, subprocess, time
ENV = dict(os.environ, GOFLAGS="-mod=mod", GOPROXY="off", GOSUMDB="off", GOTOOLCHAIN="local")
WT = "/tmp/seed/RV"


def sh(cmd, cwd=None, env=ENV, timeout=3600):
    p = subprocess.run(cmd, cwd=cwd, env=env, shell=isinstance(cmd, str), stdout=subprocess.PIPE, stderr=subprocess.STDOUT, text=True, timeout=timeout)
    return p.returncode, p.stdout


os.makedirs("/tmp/seed", exist_ok=True)
if not os.path.isdir(WT):
    rc, out = sh(["git", "-C", "/repo", "worktree", "add", "--detach", WT, "HEAD"])
    assert rc == 0, out
head = sh(["git", "-C", WT, "rev-parse", "--short", "HEAD"])[1].strip()
want = sys.argv[1:] or sorted(d for d in os.listdir("/verif/seeded") if re.match(r"C\d\d-\d+$", d))
res = {"repo_head": head, "seeds": {}}
outp = "/verif/seeded/REVERIFY.json"
if sys.argv[1:] and os.path.exists(outp):
    res = json.load(open(outp))
    res["repo_head"] = head
try:
    for sd in want:
        pid = sd.split("-")[0]
        patch = os.path.join("/verif/seeded", sd, "patch.diff")
        r = {}
        assert sh("git status --short", cwd=WT)[1].strip() == "", "worktree not clean"
        rc, out = sh(["git", "apply", "--3way", patch], cwd=WT)
        r["applies"] = rc == 0
        if rc != 0:
            r["apply_log"] = out[-400:]
            sh("git reset -q --hard && git clean -fdq", cwd=WT)
            res["seeds"][sd] = r
            print(sd, "DOES NOT APPLY")
            continue
        sh("git reset -q", cwd=WT)
        try:
            rc, out = sh(["go", "build", "./..."], cwd=WT)
            r["builds"] = rc == 0
            t0 = time.time()
            rc, out = sh(["./check", pid, "--tier", "quick"], cwd="/verif", env=dict(ENV, VERIF_REPO=WT))
            r["check_rc"] = rc
            r["wall_s"] = round(time.time() - t0, 1)
            v = re.search(r"VIOLATION property=(\S+) replay=(\S+)( no-failing-input-found)?", out)
            r["caught"] = bool(rc == 1 and v and v.group(1) == pid)
            if v and os.path.exists(v.group(2)):
                j = json.load(open(v.group(2)))
                r["why"] = j.get("why") or j.get("kind")
                r["kind"] = j.get("kind")
            r["tail"] = out[-300:]
        finally:
            sh("git reset -q --hard && git clean -fdq", cwd=WT)
        res["seeds"][sd] = r
        print(sd, "caught" if r.get("caught") else "MISSED", r.get("why"), r.get("wall_s"))
        json.dump(res, open(outp, "w"), indent=1)
finally:
    sh(["git", "-C", "/repo", "worktree", "remove", "--force", WT])
    sh(["git", "-C", "/repo", "worktree", "prune"])
json.dump(res, open(outp, "w"), indent=1)
print("missed:", [k for k, v in res["seeds"].items() if not v.get("caught")])

#!/usr/bin/env python3
"""
Confirm a seeded mutation myself and file it under /verif/seeded/<PID>-<k>/.
usage: confirm_seed.py <PID> <k> <worktree> <outdir>        e.g.  C10 1 /tmp/seed/C10 /tmp/seed/C10-out/mut1
Steps (all in the scratch worktree, never in /repo):
  1. clean tree: demo passes;  2. apply patch: builds, existing suite passes, demo fails;
  3. run ./check <PID> (quick) against the patched worktree via VERIF_REPO;  4. revert.
Writes meta.json with everything observed.
"""
import sys, os, re, subprocess, json, shutil, time
pid, k, wt, outdir = sys.argv[1], sys.argv[2], sys.argv[3], sys.argv[4]
ENV = dict(os.environ, GOFLAGS="-mod=mod", GOPROXY="off", GOSUMDB="off", GOTOOLCHAIN="local")


def sh(cmd, cwd=None, env=ENV, timeout=1800):
    p = subprocess.run(cmd, cwd=cwd, env=env, shell=isinstance(cmd, str), stdout=subprocess.PIPE, stderr=subprocess.STDOUT, text=True, timeout=timeout)
    return p.returncode, p.stdout


demo = None
for f in os.listdir(outdir):
    if f.endswith(".go"):
        demo = os.path.join(outdir, f)
src = open(demo).read()
head = src[:3000]
m = re.search(r"(pkg/[A-Za-z0-9_/]+?)/?(?:[a-z0-9_]+_test\.go)?\s", head) or re.search(r"\./(pkg/[A-Za-z0-9_/]+)/", head)
pkgdir = m.group(1).rstrip("/")
if pkgdir.endswith(".go"):
    pkgdir = os.path.dirname(pkgdir)
if os.environ.get("DEMO_PKG"):   # when the header comment names several directories
    pkgdir = os.environ["DEMO_PKG"]
m = re.search(r"-run\s+'?\"?([A-Za-z0-9_|^$()]+)", head)
runre = m.group(1) if m else "Test"
dst = os.path.join(wt, pkgdir, "zz_seed_demo_test.go")
meta = {"property": pid, "mutation": int(k), "demo_pkg": pkgdir, "demo_run": runre}
notes = os.path.join(outdir, "notes.md")
meta["needs_to_manifest"] = open(notes).read() if os.path.exists(notes) else ""


def run_demo():
    shutil.copyfile(demo, dst)
    try:
        rc, out = sh(["go", "test", "-vet=off", "-count=1", "-run", runre, "./" + pkgdir + "/"], cwd=wt, timeout=900)
    finally:
        os.remove(dst)
    return rc, out[-1500:]


assert sh("git status --short", cwd=wt)[1].strip() == "", "worktree not clean"
rc, out = run_demo()
meta["demo_on_clean_tree"] = {"rc": rc, "tail": out[-600:]}
rc, out = sh(["git", "apply", os.path.join(outdir, "patch.diff")], cwd=wt)
assert rc == 0, out
try:
    rc, out = sh(["go", "build", "./..."], cwd=wt)
    meta["build_with_change"] = rc
    rc, out = sh(["go", "test", "-vet=off", "-count=1", "./..."], cwd=wt)
    fails = re.findall(r"^--- FAIL: (\S+)", out, flags=re.M)
    if rc != 0:   # the baseline's own flaky test: re-run the failing package once
        rc2, out2 = sh(["go", "test", "-vet=off", "-count=1", "./pkg/p2p/libp2p/..."], cwd=wt)
        meta["suite_rerun_libp2p_rc"] = rc2
    meta["suite_with_change"] = {"rc": rc, "failed_tests": fails, "tail": out[-800:]}
    rc, out = run_demo()
    meta["demo_with_change"] = {"rc": rc, "tail": out[-800:]}
    t0 = time.time()
    rc, out = sh(["./check", pid, "--tier", "quick"], cwd="/verif", env=dict(os.environ, VERIF_REPO=wt))
    meta["check_quick_with_change"] = {"rc": rc, "stdout": out[-1200:], "wall_s": round(time.time() - t0, 1)}
    vio = re.search(r"VIOLATION property=\S+ replay=(\S+)( no-failing-input-found)?", out)
    if vio and os.path.exists(vio.group(1)):
        meta["check_replay"] = json.load(open(vio.group(1)))
        if "build_log" in meta["check_replay"]:
            meta["check_replay"]["build_log"] = meta["check_replay"]["build_log"][-800:]
finally:
    sh("git checkout -- .", cwd=wt)
sd = "/verif/seeded/%s-%s" % (pid, k)
os.makedirs(sd, exist_ok=True)
shutil.copyfile(os.path.join(outdir, "patch.diff"), os.path.join(sd, "patch.diff"))
shutil.copyfile(demo, os.path.join(sd, "demo_test.go.txt"))
if os.path.exists(notes):
    shutil.copyfile(notes, os.path.join(sd, "notes.md"))
FLAKY = {"TestP2PService", "TestP2PService/add_protocol_and_connect", "TestHandlerError"}  # fail on the unchanged tree too (handshake race, property C20)
valid = (meta["demo_on_clean_tree"]["rc"] == 0 and meta["demo_with_change"]["rc"] != 0 and meta["build_with_change"] == 0
         and (meta["suite_with_change"]["rc"] == 0 or meta.get("suite_rerun_libp2p_rc") == 0
              or set(meta["suite_with_change"]["failed_tests"]) <= FLAKY))
meta["confirmed_valid"] = valid
meta["caught"] = meta["check_quick_with_change"]["rc"] == 1
meta["what_i_ran"] = ["demo on clean worktree", "git apply patch.diff", "go build ./...", "go test -vet=off -count=1 ./...",
                      "demo with change", "VERIF_REPO=<worktree> ./check %s --tier quick" % pid, "git checkout -- ."]
json.dump(meta, open(os.path.join(sd, "meta.json"), "w"), indent=1)
print(pid, k, "valid=%s caught=%s" % (valid, meta["caught"]), meta["check_quick_with_change"]["stdout"].strip().splitlines()[-2:] )

/-
Common vocabulary of the models: byte strings, big-endian words, lowercase hex, decimal
text, and the three-way outcome that makes Go's partiality explicit.
Core Lean only (no Mathlib) so the driver links as a `lean_exe`.
-/
namespace MevCommit

abbrev Bytes := List UInt8

/-- Go partiality made explicit: a function returns a value, an error, or panics. -/
inductive Outcome (α : Type) where
  | ok (a : α)
  | err (kind : String)
  | panic (site : String)
  deriving Repr, DecidableEq

namespace Outcome
def isPanic {α} : Outcome α → Bool
  | .panic _ => true
  | _ => false
def isOk {α} : Outcome α → Bool
  | .ok _ => true
  | _ => false
def bind {α β} (x : Outcome α) (f : α → Outcome β) : Outcome β :=
  match x with
  | .ok a => f a
  | .err e => .err e
  | .panic s => .panic s
theorem bind_eq_ok_iff {α β} (x : Outcome α) (f : α → Outcome β) (b : β) :
    x.bind f = .ok b ↔ ∃ a, x = .ok a ∧ f a = .ok b := by
  cases x <;> simp [bind]

theorem bind_ne_panic {α β} (x : Outcome α) (f : α → Outcome β)
    (hx : ∀ p, x ≠ .panic p) (hf : ∀ a p, f a ≠ .panic p) (p : String) : x.bind f ≠ .panic p := by
  cases x with
  | ok a => exact hf a p
  | err e => simp [bind]
  | panic q => exact absurd rfl (hx q)
end Outcome

/-! ### big-endian fixed width words -/

/-- `k` big-endian bytes of `n` (that is, of `n mod 256^k`). -/
def toBE : Nat → Nat → Bytes
  | 0, _ => []
  | k+1, n => toBE k (n / 256) ++ [UInt8.ofNat (n % 256)]

/-- value of a big-endian byte string -/
def fromBE (bs : Bytes) : Nat := bs.foldl (fun acc b => acc * 256 + b.toNat) 0

/-- minimal big-endian encoding (Go `big.Int.Bytes`) : no leading zero bytes, `0 ↦ []` -/
def natBytes (n : Nat) : Bytes :=
  if _h : n = 0 then [] else natBytes (n / 256) ++ [UInt8.ofNat (n % 256)]
decreasing_by omega

/-- two's complement of an `Int` in 256 bits, as go-ethereum `math.U256Bytes` computes it
    (`x & (2^256-1)` on Go big.Int, which uses two's-complement semantics for negatives). -/
def u256 (x : Int) : Nat := (x % (2^256 : Int)).toNat

def be32 (x : Int) : Bytes := toBE 32 (u256 x)

/-! ### hex -/

def hexDigit (n : Nat) : UInt8 :=
  if n < 10 then UInt8.ofNat (48 + n) else UInt8.ofNat (87 + n)

/-- lowercase hex, as Go `hex.EncodeToString` -/
def hexEncode (bs : Bytes) : Bytes :=
  bs.flatMap (fun b => [hexDigit (b.toNat / 16), hexDigit (b.toNat % 16)])

def hexVal (c : UInt8) : Option Nat :=
  if 48 ≤ c.toNat ∧ c.toNat ≤ 57 then some (c.toNat - 48)
  else if 97 ≤ c.toNat ∧ c.toNat ≤ 102 then some (c.toNat - 87)
  else if 65 ≤ c.toNat ∧ c.toNat ≤ 70 then some (c.toNat - 55)
  else none

def hexDecode : Bytes → Option Bytes
  | [] => some []
  | [_] => none
  | a :: b :: rest =>
    match hexVal a, hexVal b, hexDecode rest with
    | some x, some y, some r => some (UInt8.ofNat (x * 16 + y) :: r)
    | _, _, _ => none

/-! ### decimal text -/

def isDigit (c : UInt8) : Bool := 48 ≤ c.toNat && c.toNat ≤ 57

/-- value of a string of ASCII digits (no check) -/
def digitsVal (bs : Bytes) : Nat := bs.foldl (fun acc c => acc * 10 + (c.toNat - 48)) 0

/-- strict decimal: one or more ASCII digits -/
def parseDec (bs : Bytes) : Option Nat :=
  if bs ≠ [] ∧ bs.all isDigit then some (digitsVal bs) else none

/-- Go `big.Int.SetString(s, 10)`: optional sign, then one or more ASCII digits. -/
def parseBigInt (bs : Bytes) : Option Int :=
  match bs with
  | 43 :: rest => (parseDec rest).map Int.ofNat          -- '+'
  | 45 :: rest => (parseDec rest).map (fun n => - Int.ofNat n)  -- '-'
  | _ => (parseDec bs).map Int.ofNat

def digitChar (k : Nat) : UInt8 := UInt8.ofNat (48 + k)

/-- canonical decimal rendering (Go `strconv.FormatUint`, `big.Int.String` for n ≥ 0) -/
def showDec (n : Nat) : Bytes :=
  if n < 10 then [digitChar n] else showDec (n / 10) ++ [digitChar (n % 10)]
decreasing_by omega

def strBytes (s : String) : Bytes := s.toUTF8.toList

end MevCommit

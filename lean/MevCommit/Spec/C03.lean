import MevCommit.Model.Eip712
import MevCommit.Model.Signer
/-
C03 — the published typed-data schemas, and the digest an independent EIP-712 implementation
computes for a bid / commitment.
-/
namespace MevCommit.Spec.C03
open MevCommit.Eip712

def u64 : Ty := .uint 64

/-- PreConfBid(string txnHash,uint64 bid,uint64 blockNumber,uint64 decayStartTimeStamp,uint64 decayEndTimeStamp) -/
def bidSchema : Schema :=
  ⟨[80, 114, 101, 67, 111, 110, 102, 66, 105, 100],
   [⟨[116, 120, 110, 72, 97, 115, 104], .string⟩,
    ⟨[98, 105, 100], u64⟩,
    ⟨[98, 108, 111, 99, 107, 78, 117, 109, 98, 101, 114], u64⟩,
    ⟨[100, 101, 99, 97, 121, 83, 116, 97, 114, 116, 84, 105, 109, 101, 83, 116, 97, 109, 112], u64⟩,
    ⟨[100, 101, 99, 97, 121, 69, 110, 100, 84, 105, 109, 101, 83, 116, 97, 109, 112], u64⟩]⟩

/-- PreConfCommitment(… same five …,string bidHash,string signature) -/
def commitSchema : Schema :=
  ⟨[80, 114, 101, 67, 111, 110, 102, 67, 111, 109, 109, 105, 116, 109, 101, 110, 116],
   bidSchema.members ++
   [⟨[98, 105, 100, 72, 97, 115, 104], .string⟩,
    ⟨[115, 105, 103, 110, 97, 116, 117, 114, 101], .string⟩]⟩

def domainVersion : Bytes := [49]                                              -- "1"
def bidDomainName : Bytes := [80, 114, 101, 67, 111, 110, 102, 66, 105, 100]   -- "PreConfBid"
def commitDomainName : Bytes :=                                                -- "PreConfCommitment"
  [80, 114, 101, 67, 111, 110, 102, 67, 111, 109, 109, 105, 116, 109, 101, 110, 116]

def bidVals (txHash : Bytes) (amount blockNumber decayStart decayEnd : Nat) : List Val :=
  [.str txHash, .num amount, .num blockNumber, .num decayStart, .num decayEnd]

def bidDigest (H : Bytes → Bytes) (txHash : Bytes) (amount blockNumber decayStart decayEnd : Nat) : Bytes :=
  digest H bidDomainName domainVersion bidSchema (bidVals txHash amount blockNumber decayStart decayEnd)

/-- the commitment digest covers the lowercase-hex renderings of bid digest and bid signature -/
def commitDigest (H : Bytes → Bytes) (txHash : Bytes) (amount blockNumber decayStart decayEnd : Nat)
    (bidDigestBytes bidSig : Bytes) : Bytes :=
  digest H commitDomainName domainVersion commitSchema
    (bidVals txHash amount blockNumber decayStart decayEnd ++
      [.str (hexEncode bidDigestBytes), .str (hexEncode bidSig)])

/-- emitted signature form: 65 bytes r‖s‖v with v ∈ {27, 28} -/
def sigFormOk (sig : Bytes) : Bool :=
  sig.length == 65 && (sig.getLast? == some 27 || sig.getLast? == some 28)

end MevCommit.Spec.C03

import MevCommit.Model.Signer
/-
C02 — the property as predicates over one verification:
 * soundness: an accepted bid has a present digest equal to the hash of exactly its fields, a
   65-byte signature from which the primitives recover a key whose low-S verification passes,
   and the reported address is that key's; an accepted commitment additionally embeds a bid
   that is itself accepted (to some address) and its digest is the commitment hash;
 * perturbation: a value-changing perturbation of a valid message is not accepted with the
   original address;
 * completeness: a message built by the node's own signing functions verifies to its address.
-/
namespace MevCommit.Spec.C02
open MevCommit.Signer

def sigAccept (S : Scheme) (h sig a : Bytes) : Bool :=
  sig.length == 65 &&
  (match S.recover h (normaliseV sig) with
   | some pub => S.verifyLowS pub h ((normaliseV sig).take 64) && a == S.addrOf pub
   | none => false)

def bidAccept (H : Bytes → Bytes) (S : Scheme) (b : Bid) (a : Bytes) : Bool :=
  match b.digest, b.signature with
  | some d, some s => (getBidHash H b == .ok d) && sigAccept S d s a
  | _, _ => false

def bidAcceptSome (H : Bytes → Bytes) (S : Scheme) (b : Bid) : Bool :=
  match b.digest, b.signature with
  | some d, some s =>
    (getBidHash H b == .ok d) && s.length == 65 &&
    (match S.recover d (normaliseV s) with
     | some pub => S.verifyLowS pub d ((normaliseV s).take 64)
     | none => false)
  | _, _ => false

def commitAccept (H : Bytes → Bytes) (S : Scheme) (c : Commitment) (a : Bytes) : Bool :=
  match c.digest, c.signature, c.bid with
  | some d, some s, some b => bidAcceptSome H S b && (getCommitHash H b == .ok d) && sigAccept S d s a
  | _, _, _ => false

/-- observation of one verification -/
inductive Obs where
  | ok (addr : Bytes)
  | err
  | panic
  deriving Repr, DecidableEq

structure Ctx where
  perturbed : Bool
  baseAddr : Bytes      -- address the unperturbed message verifies to
  ownAddr : Option Bytes -- message was built by the node's own signing functions

def judge (accept : Bytes → Bool) (ctx : Ctx) : Obs → Bool
  | .panic => false
  | .err => ctx.ownAddr.isNone
  | .ok a =>
    accept a && !(ctx.perturbed && a == ctx.baseAddr) &&
    (match ctx.ownAddr with | some o => a == o | none => true)

end MevCommit.Spec.C02

import MevCommit.Model.Semver
/-
C16 — the property, written over structured claims (independent of the parser model):
an identifier built from (iname, iv) is routed to handler (hname, hv) exactly when the
names are equal, majors equal, and the incoming minor is not greater than the handler's.
-/
namespace MevCommit.Spec.C16
open MevCommit.Semver

def rule (iname hname : Bytes) (iv hv : Version) : Bool :=
  iname == hname && iv.major == hv.major && iv.minor ≤ hv.minor

/-- observation = (panicked, matched) -/
def ok (iname hname : Bytes) (iv hv : Version) (panicked matched : Bool) : Bool :=
  !panicked && matched == rule iname hname iv hv

/-- numeric MAJOR.MINOR.PATCH of any magnitude (no 64-bit bound: the property speaks of numbers) -/
def parseBig (bs : Bytes) : Option Version :=
  match splitOn 46 bs with
  | [a, b, c] =>
    match parseDec a, parseDec b, parseDec c with
    | some x, some y, some z => some ⟨x, y, z⟩
    | _, _, _ => none
  | _ => none

/-- for arbitrary raw identifiers: never a panic; a different number of path segments or a
    different name never matches; and an identifier with the handler's name whose version segment
    is numeric MAJOR.MINOR.PATCH — of any magnitude, also beyond 64 bits — is not matched when the
    major differs or the minor is greater than the handler's (handler version strict) -/
def okRaw (incoming hname version : Bytes) (panicked matched : Bool) : Bool :=
  !panicked &&
  (match splitOn 47 incoming with
   | [_, pname, pver] =>
     if pname ≠ hname then !matched
     else match parseBig pver, parseStrict version with
       | some iv, some hv => if iv.major == hv.major && iv.minor ≤ hv.minor then true else !matched
       | _, _ => true
   | _ => !matched)

end MevCommit.Spec.C16

import MevCommit.Model.Semver
/-
C16 — the property, written over structured claims (independent of the parser model):
an identifier built from (iname, iv) is routed to handler (hname, hv) exactly when the
names are equal, majors equal, and the incoming minor is not greater than the handler's.
-/
namespace MevCommit.Spec.C16
open MevCommit.Semver

def rule (iname hname : Bytes) (iv hv : Version) : Bool :=
  iname == hname && iv.major == hv.major && iv.minor ≤ hv.minor

/-- observation = (panicked, matched) -/
def ok (iname hname : Bytes) (iv hv : Version) (panicked matched : Bool) : Bool :=
  !panicked && matched == rule iname hname iv hv

/-- for arbitrary raw identifiers: never a panic; a different number of path segments or a
    different name never matches -/
def okRaw (incoming hname : Bytes) (panicked matched : Bool) : Bool :=
  !panicked &&
  (match splitOn 47 incoming with
   | [_, pname, _] => if pname ≠ hname then !matched else true
   | _ => !matched)

end MevCommit.Spec.C16

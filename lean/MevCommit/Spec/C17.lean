import MevCommit.Model.Blocklist
/-
C17 — the property over histories: a peer is blocked at time `now` exactly when some block
placed on it earlier is still in force — a permanent one (duration 0) or a timed one whose
term has not passed (now ≤ start + duration).  Dial and secured hooks answer the negation;
never-blocked peers are never blocked.
-/
namespace MevCommit.Spec.C17
open MevCommit.Blocklist

/-- placements so far: (id, start, duration) -/
abbrev Log := List (Nat × Nat × Nat)

def inForce (log : Log) (id now : Nat) : Bool :=
  log.any (fun p => p.1 == id && (p.2.2 == 0 || decide (now ≤ p.2.1 + p.2.2)))

structure S where
  log : Log
  now : Nat

def S0 : S := ⟨[], 0⟩

/-- listing at a time that is not exactly an expiry instant: the blocked ids -/
def stepOk (s : S) (op : Op) (a : Ans) : Bool × S :=
  match op, a with
  | .block id dur, .none => (true, { s with log := (id, s.now, dur) :: s.log })
  | .advance dt, .none => (true, { s with now := s.now + dt })
  | .query id, .blocked b => (b == inForce s.log id s.now, s)
  | .dial id, .allowed b => (b == !inForce s.log id s.now, s)
  | .secured id, .allowed b => (b == !inForce s.log id s.now, s)
  | .list ids, .listing l =>
    -- every listed id is blocked; every blocked id whose block does not end exactly now is listed
    (l.all (fun i => inForce s.log i s.now) &&
     ids.all (fun i => !inForce s.log i (s.now + 1) || l.contains i), s)
  | _, _ => (false, s)

def check : S → List Op → List Ans → Bool
  | _, [], [] => true
  | s, op :: ops, a :: as => (stepOk s op a).1 && check (stepOk s op a).2 ops as
  | _, _, _ => false

def ok (ops : List Op) (as : List Ans) : Bool := check S0 ops as

end MevCommit.Spec.C17

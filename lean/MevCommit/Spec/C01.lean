import MevCommit.Model.Preconf
/-
C01 — the property on (environment, observation):
a commitment signature, a settlement submission or a commitment message exists only if the
peer is a bidder, the bid was read, verified, funded, well-formed, and the schedule contains an
ACCEPTED decision naming this bid's digest before any deadline / cancellation; effects appear
only in the order sign, store, write; in every other case nothing is produced and the bidder
gets an error or nothing.
-/
namespace MevCommit.Spec.C01
open MevCommit.Preconf

/-- an ACCEPTED decision for this digest occurs before the first deadline / cancel event -/
def acceptedInTime : List Event → Bool
  | [] => false
  | .deadline :: _ => false
  | .cancel :: _ => false
  | .decision true 1 :: _ => true
  | _ :: rest => acceptedInTime rest

def gatesOpen (e : Env) : Bool :=
  e.roleIsBidder && e.readOk && e.verifyOk && e.allowanceOk && e.formatOk && acceptedInTime e.schedule

def isPrefixOfFull (l : List Effect) : Bool :=
  l == [] || l == [.sign] || l == [.sign, .store] || l == [.sign, .store, .write]

def ok (e : Env) (o : Obs) : Bool :=
  isPrefixOfFull o.effects &&
  (o.effects.isEmpty || gatesOpen e) &&
  -- a written commitment was preceded by a successful store; a failed store is an error
  (!(o.effects.contains .write) || e.storeOk) &&
  (!(o.effects.contains .store && !e.storeOk) || (o.result != .ok && o.result != .nothing)) &&
  -- success is reported only with a written commitment
  (o.result != .ok || o.effects == [.sign, .store, .write])

end MevCommit.Spec.C01

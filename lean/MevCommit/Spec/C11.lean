import MevCommit.Model.Registry
/-
C11 — the property:
 * check answers yes only when both reads were obtained and decoded and amount ≥ minimum;
   any failure yields no;
 * stake/prepay hands exactly (registry address, requested amount as value, method selector)
   to the evm client and reports success iff the transaction was mined with status 1.
-/
namespace MevCommit.Spec.C11
open MevCommit.Registry

def checkOk (minAns amtAns : CallAns) (answer : Bool) : Bool :=
  match read minAns, read amtAns with
  | some mn, some amt => answer == decide (mn ≤ amt)
  | _, _ => answer == false

def stakeOk (e : StakeEnv) (o : StakeObs) : Bool :=
  o.requests.length == 1 &&
  o.requests.all (fun r => r.toRegistry && r.value == e.amount && r.dataIsSelector) &&
  (o.ok == (e.sendOk && e.receipt == .status 1))

end MevCommit.Spec.C11

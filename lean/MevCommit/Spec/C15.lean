import MevCommit.Model.Topology
/-
C15 — the property over histories.  A peer of role provider/bidder is in the reported set
exactly when the latest event about that (address, role) is an addition (connect / add / gossip
result) rather than a disconnect.
-/
namespace MevCommit.Spec.C15
open MevCommit.Topology

/-- elementary view events extracted from the history -/
inductive Atom where
  | add (p : Peer)
  | del (p : Peer)
  deriving Repr, DecidableEq

end MevCommit.Spec.C15

namespace MevCommit.Spec.C15
open MevCommit.Topology

/-- the membership bit of (address, role), updated by each atom of the history in order:
    an addition sets it, a disconnect clears it, everything else leaves it -/
def inViewF (init : Bool) (as : List Atom) (a : Nat) (r : Int) : Bool :=
  as.foldl (fun b atom => match atom with
    | .add p => if p.addr = a ∧ p.role = r then true else b
    | .del p => if p.addr = a ∧ p.role = r then false else b) init

/-- the atoms an event contributes to the view, given the view it happens in -/
def atomsOf (v : View) : Ev → List Atom
  | .connected p _ => [.add p]
  | .addPeers ps => ps.map .add
  | .disconnected p => [.del p]
  | .gossip es => ((es.filter (fun e => !isConnected v e.claimed)).filterMap (·.connect)).map .add

end MevCommit.Spec.C15

import MevCommit.Model.Cancel
/-
C10 — the property as a predicate on (environment, observation), written with the
property's own literal numbers (110 %, 21000 gas, zero value, empty data).
-/
namespace MevCommit.Spec.C10
open MevCommit.Cancel

def goodReplacement (e : Env) (t : TxCaps) (r : Replacement) : Bool :=
  r.nonce == t.nonce && r.chainId == e.chainId && r.toSelf && r.value == 0 && r.dataLen == 0 &&
  r.gas == 21000 &&
  (match e.suggestTip with
   | some sugg => decide (110 * (max t.tip sugg) / 100 ≤ r.tip)
   | none => false) &&
  decide (t.feeCap + r.tip ≤ r.feeCap)

def ok (e : Env) (o : Obs) : Bool :=
  match e.lookup with
  | .pending t =>
    o.submitted.length ≤ 1 && o.submitted.all (goodReplacement e t) &&
    (if o.ok then o.submitted.length == 1 else true)
  | _ => !o.ok && o.submitted.isEmpty

end MevCommit.Spec.C10

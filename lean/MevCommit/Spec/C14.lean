import MevCommit.Model.PeerRegistry
/-
C14 — abstract specification: ONE map from peer id to the record of a registered peer
(proven address and role, open admitted connections, running handler streams).  A peer is
registered exactly while its connection set is non-empty; closing the last connection removes
the record, cancels its streams' contexts and emits one notification.
-/
namespace MevCommit.Spec.C14
open MevCommit.PeerRegistry

structure Rec where
  peer : Peer
  conns : List Nat
  streams : List Nat
  deriving Repr, DecidableEq

structure A where
  reg : Nat → Option Rec
  cancelled : List Nat
  notified : List Peer

def A0 : A := ⟨fun _ => none, [], []⟩

def astep (a : A) : Op → A
  | .addPeer c pid peer =>
    match a.reg pid with
    | some r => { a with reg := upd a.reg pid (some { r with conns := insertC r.conns c }) }
    | none => { a with reg := upd a.reg pid (some ⟨peer, [c], []⟩) }
  | .disconnected c pid =>
    match a.reg pid with
    | none => a
    | some r =>
      let cs := r.conns.filter (· ≠ c)
      if cs ≠ [] then { a with reg := upd a.reg pid (some { r with conns := cs }) }
      else { reg := upd a.reg pid none, cancelled := a.cancelled ++ r.streams, notified := a.notified ++ [r.peer] }
  | .lookup _ => a
  | .lookupAddr _ => a
  | .addStream pid st =>
    match a.reg pid with
    | none => a
    | some r => { a with reg := upd a.reg pid (some { r with streams := insertC r.streams st }) }
  | .removeStream pid st =>
    match a.reg pid with
    | none => a
    | some r =>
      if r.streams.contains st then
        { a with reg := upd a.reg pid (some { r with streams := r.streams.filter (· ≠ st) }),
                 cancelled := a.cancelled ++ [st] }
      else a

def afinal : A → List Op → A
  | a, [] => a
  | a, op :: ops => afinal (astep a op) ops

end MevCommit.Spec.C14

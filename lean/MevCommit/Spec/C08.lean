import MevCommit.Model.Nonce
/-
C08 — the property as a decidable predicate over the observable event list (independent of
the allocator's state).  Within one process lifetime, for every successful submission with
nonce n, pending answer p, previous successful nonce prev (if any) and M = the largest
pending answer any request saw since the previous success:

   max(prev+1, p) ≤ n ≤ max(prev+1, M)          and        n ≤ highestConfirmedReported + 1024

The lower bound is "strictly greater than every earlier one" and "never below the reported
pending nonce"; the upper bound is "exactly previous+1 unless the chain reported outside
transactions" and "a failed request consumes no nonce" (a gap must be justified by a pending
answer).  1024 is the property's literal.
-/
namespace MevCommit.Spec.C08
open MevCommit.Nonce

structure S where
  last : Option Nat    -- last successful nonce in this lifetime
  maxPend : Nat        -- largest pending answer since then
  highest : Nat        -- highest confirmed nonce the chain node has reported
  deriving Repr, DecidableEq

def S0 : S := ⟨none, 0, 0⟩

def base (s : S) : Nat := match s.last with | some l => l + 1 | none => 0

def stepOk (s : S) : Ev → Bool × S
  | .sent n p =>
    (decide (base s ≤ n) && decide (p ≤ n) &&
       decide (n ≤ base s ∨ n ≤ s.maxPend ∨ n ≤ p) && decide (n ≤ s.highest + 1024),
     { s with last := some n, maxPend := 0 })
  | .failed (some p) => (true, { s with maxPend := max s.maxPend p })
  | .failed none => (true, s)
  | .mon c => (true, { s with highest := max s.highest c })
  | .restarted => (true, { s with last := none, maxPend := 0 })
  | .cancelled => (true, s)
  | .monFailed => (true, s)

def check : S → List Ev → Bool
  | _, [] => true
  | s, e :: es => (stepOk s e).1 && check (stepOk s e).2 es

def ok (es : List Ev) : Bool := check S0 es

end MevCommit.Spec.C08

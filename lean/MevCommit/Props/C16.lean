import MevCommit.Model.Semver
import MevCommit.Spec.C16
import MevCommit.Lemmas.Decimal
import MevCommit.Lemmas.Split
import MevCommit.Extracted
/-
C16 — property theorems.  Model: `Semver.matchProto` (transcription of
matchProtocolIDWithSemver); spec: `Spec.C16.rule`.
-/
open MevCommit MevCommit.Semver

/-- what the node does with a decision: route the stream or not -/
def C16_matched : Decision → Bool
  | .decided b => b
  | _ => false

private theorem parseComponent_showDec (n : Nat) (h : n < 2^64) :
    parseComponent (showDec n) = some n := by
  simp [parseComponent, parseDec_showDec, h]

private theorem dot_not_mem (n : Nat) : (46 : UInt8) ∉ showDec n :=
  not_mem_showDec n 46 (by decide)
private theorem slash_not_mem (n : Nat) : (47 : UInt8) ∉ showDec n :=
  not_mem_showDec n 47 (by decide)

private theorem parseStrict_showVersion (v : Version)
    (h1 : v.major < 2^64) (h2 : v.minor < 2^64) (h3 : v.patch < 2^64) :
    parseStrict (showVersion v) = some v := by
  unfold parseStrict showVersion
  rw [splitOn_append_sep 46 _ _ (dot_not_mem _), splitOn_append_sep 46 _ _ (dot_not_mem _),
    splitOn_no_sep 46 _ (dot_not_mem _)]
  simp [parseComponent_showDec, h1, h2, h3]

private theorem slash_not_mem_version (v : Version) : (47 : UInt8) ∉ showVersion v := by
  unfold showVersion
  simp only [List.mem_append, List.mem_cons, not_or]
  exact ⟨slash_not_mem _, by decide, slash_not_mem _, by decide, slash_not_mem _⟩

/-- **Routing rule.**  For every name without '/', and all 64-bit MAJOR.MINOR.PATCH on both
sides, the identifier "/iname/M.m.p" is matched by handler (hname, "M'.m'.p'") exactly when
iname = hname ∧ M = M' ∧ m ≤ m'. -/
theorem C16_routing_rule (iname hname : Bytes) (iv hv : Version)
    (hn : (47 : UInt8) ∉ iname)
    (hi : iv.major < 2^64 ∧ iv.minor < 2^64 ∧ iv.patch < 2^64)
    (hh : hv.major < 2^64 ∧ hv.minor < 2^64 ∧ hv.patch < 2^64) :
    C16_matched (matchProto (protoId iname (showVersion iv)) hname (showVersion hv))
      = Spec.C16.rule iname hname iv hv := by
  unfold matchProto protoId
  have h0 : splitOn 47 (47 :: (iname ++ 47 :: showVersion iv)) = [[], iname, showVersion iv] := by
    have := splitOn_append_sep 47 [] (iname ++ 47 :: showVersion iv) (by simp)
    simp only [List.nil_append] at this
    rw [this, splitOn_append_sep 47 _ _ hn, splitOn_no_sep 47 _ (slash_not_mem_version iv)]
  rw [h0]
  simp only
  by_cases hname_eq : iname = hname
  · subst hname_eq
    simp only [ne_eq, not_true_eq_false, ite_false]
    rw [parseStrict_showVersion hv hh.1 hh.2.1 hh.2.2, parseStrict_showVersion iv hi.1 hi.2.1 hi.2.2]
    simp only [C16_matched, Spec.C16.rule, beq_self_eq_true, Bool.true_and]
    cases h : (hv.major == iv.major) <;> cases h' : (iv.major == hv.major) <;> simp_all
  · simp [hname_eq, C16_matched, Spec.C16.rule]

/-- the observation the spec accepts is exactly the model's (no panic, rule-conformant match) -/
theorem C16_spec_on_model (iname hname : Bytes) (iv hv : Version)
    (hn : (47 : UInt8) ∉ iname)
    (hi : iv.major < 2^64 ∧ iv.minor < 2^64 ∧ iv.patch < 2^64)
    (hh : hv.major < 2^64 ∧ hv.minor < 2^64 ∧ hv.patch < 2^64) :
    Spec.C16.ok iname hname iv hv false
      (C16_matched (matchProto (protoId iname (showVersion iv)) hname (showVersion hv))) = true := by
  simp [Spec.C16.ok, C16_routing_rule iname hname iv hv hn hi hh]

/-- **Other shapes never match.**  An identifier whose number of '/'-separated segments is
not three, or whose name segment differs from the handler's, is never routed — whatever the
version texts are (including the lenient spellings outside the claim). -/
theorem C16_other_shapes_never_match (incoming hname version : Bytes)
    (h : ∀ a b c, splitOn 47 incoming = [a, b, c] → b ≠ hname) :
    C16_matched (matchProto incoming hname version) = false := by
  unfold matchProto
  split
  · rename_i a b c heq
    have := h a b c heq
    simp [this, C16_matched]
  · simp [C16_matched]

private theorem parseComponent_some (a : Bytes) (x : Nat) (h : parseComponent a = some x) : parseDec a = some x := by
  unfold parseComponent at h
  cases hd : parseDec a with
  | none => simp [hd] at h
  | some n => simp only [hd] at h; split at h <;> simp_all

/-- a strict version text is read with the same numbers by the unbounded reader of the spec -/
theorem C16_parseStrict_parseBig (bs : Bytes) (v : Version) (h : parseStrict bs = some v) :
    Spec.C16.parseBig bs = some v := by
  unfold parseStrict at h
  unfold Spec.C16.parseBig
  split at h
  · rename_i a b c heq
    rw [heq]
    cases ha : parseComponent a with
    | none => simp [ha] at h
    | some x =>
      cases hb : parseComponent b with
      | none => simp [ha, hb] at h
      | some y =>
        cases hc : parseComponent c with
        | none => simp [ha, hb, hc] at h
        | some z =>
          simp only [ha, hb, hc, Option.some.injEq] at h
          simp [parseComponent_some a x ha, parseComponent_some b y hb, parseComponent_some c z hc, h]
  · simp at h

theorem C16_spec_raw_on_model (incoming hname version : Bytes) :
    Spec.C16.okRaw incoming hname version false (C16_matched (matchProto incoming hname version)) = true := by
  unfold Spec.C16.okRaw matchProto
  generalize splitOn 47 incoming = l
  match l with
  | [a, b, c] =>
    by_cases hb : b = hname
    · simp only [hb, ne_eq, not_true_eq_false, if_false, Bool.not_false, Bool.true_and]
      cases hv : parseStrict version with
      | none => cases Spec.C16.parseBig c <;> simp
      | some sv =>
        cases hp : parseStrict c with
        | none => cases Spec.C16.parseBig c <;> simp [C16_matched] <;> split <;> simp
        | some pv =>
          rw [C16_parseStrict_parseBig c pv hp]
          simp only [C16_matched]
          by_cases hr : (pv.major == sv.major && decide (pv.minor ≤ sv.minor)) = true
          · simp [hr]
          · simp only [hr]
            simp only [Bool.and_eq_true, beq_iff_eq, decide_eq_true_eq, not_and] at hr
            by_cases hm : sv.major = pv.major
            · have := hr hm.symm
              simp [hm, this]
            · simp [hm]
    · simp [hb, C16_matched]
  | [] => simp [C16_matched]
  | [_] => simp [C16_matched]
  | [_, _] => simp [C16_matched]
  | _ :: _ :: _ :: _ :: _ => simp [C16_matched]

/-- **numbers beyond 64 bits**: an identifier with the handler's name whose version is numeric but
does not fit the version library's 64-bit components is never routed (the library refuses it) — in
particular not one whose minor is astronomically *greater* than the handler's -/
theorem C16_overflowing_version_never_matches (incoming hname version a pver : Bytes)
    (hs : splitOn 47 incoming = [a, hname, pver]) (ho : parseStrict pver = none) :
    C16_matched (matchProto incoming hname version) = false := by
  unfold matchProto
  rw [hs]
  simp only [ne_eq, not_true_eq_false, if_false, ho]
  cases parseStrict version <;> simp [C16_matched]

/-- non-vacuity: a concrete identifier meets the hypotheses and is routed -/
example : C16_matched (matchProto (protoId Extracted.discoveryProtocolName (showVersion ⟨2, 0, 7⟩))
    Extracted.discoveryProtocolName (showVersion ⟨2, 1, 0⟩)) = true := by
  rw [C16_routing_rule _ _ _ _ (by decide) (by decide) (by decide)]; decide

/-- the protocol identifiers the node itself registers are of the claimed form -/
theorem C16_own_protocols_strict :
    parseStrict MevCommit.Extracted.preconfProtocolVersion ≠ none ∧
    parseStrict MevCommit.Extracted.discoveryProtocolVersion ≠ none := by
  constructor <;> decide

private theorem foldl_muxInsert_distinct (acc ds : List Desc)
    (h : ((acc ++ ds).map Prod.fst).Nodup) : ds.foldl muxInsert acc = acc ++ ds := by
  induction ds generalizing acc with
  | nil => simp
  | cons d ds ih =>
    have hfilter : acc.filter (fun x => x.1 != d.1) = acc := by
      apply List.filter_eq_self.mpr
      intro x hx
      have hne : x.1 ≠ d.1 := by
        intro heq
        rw [List.map_append, List.map_cons] at h
        have := (List.nodup_append.mp h).2.2 x.1 (List.mem_map.mpr ⟨x, hx, rfl⟩) d.1 (by simp)
        exact this heq
      simpa using hne
    have h' : (((acc ++ [d]) ++ ds).map Prod.fst).Nodup := by simpa using h
    simp only [List.foldl_cons, muxInsert, hfilter]
    rw [ih (acc ++ [d]) h']
    simp

/-- **Every protocol stays registered.**  When the descriptors handed to the node carry distinct
protocol names (the node's do: handshake, discovery, preconfirmation), the muxer ends up holding
every one of them — equal *version strings* of different protocols do not evict each other. -/
theorem C16_distinct_names_all_registered (ds : List Desc) (h : (ds.map Prod.fst).Nodup) :
    registerAll ds = ds := by
  have := foldl_muxInsert_distinct [] ds (by simpa using h)
  simpa [registerAll] using this

/-- routing a stream looks at the incoming identifier and the registered descriptors only: the
identifiers seen before (well-formed or not) are no input of it, and with distinct names a
descriptor is among the targets iff the name / major / minor rule says so -/
theorem C16_routing_is_history_free (ds : List Desc) (h : (ds.map Prod.fst).Nodup) (incoming : Bytes)
    (d : Desc) : d ∈ routedTo (registerAll ds) incoming ↔
      d ∈ ds ∧ matchProto incoming d.1 d.2 = .decided true := by
  rw [C16_distinct_names_all_registered ds h]
  simp only [routedTo, List.mem_filter]
  constructor
  · rintro ⟨hm, hd⟩
    refine ⟨hm, ?_⟩
    cases hmp : matchProto incoming d.1 d.2 with
    | decided b => cases b <;> simp [hmp] at hd ⊢
    | _ => simp [hmp] at hd
  · rintro ⟨hm, hd⟩
    exact ⟨hm, by simp [hd]⟩

example : registerAll [([100], [50]), ([112], [50])] = [([100], [50]), ([112], [50])] := by decide
/-- (and what happens when two descriptors do share a name: the earlier one is replaced) -/
example : registerAll [([100], [49]), ([100], [50])] = [([100], [50])] := by decide

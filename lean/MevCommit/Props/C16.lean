import MevCommit.Model.Semver
import MevCommit.Spec.C16
open MevCommit MevCommit.Semver

theorem C16_placeholder : matchProto [] [] [] = .noMatchErr := by decide

import MevCommit.Model.PeerRegistry
import MevCommit.Spec.C14
/-
C14 — property theorems about the peer registry, for every sequence (hence every
interleaving of the atomic registry operations) of admissions, connection closures (tracked
or not), lookups, stream registrations and removals.

Hypothesis on admissions (discharged by the handshake, property C04): the address recorded
for a peer id is a fixed injective function of the peer id.
-/
open MevCommit MevCommit.PeerRegistry MevCommit.Spec.C14

structure C14_Inv (addrOf : Nat → Nat) (s : St) : Prop where
  ov_un : ∀ pid p, s.overlays pid = some p → s.underlays p.addr = some pid ∧ p.addr = addrOf pid
  un_ov : ∀ a pid, s.underlays a = some pid → ∃ p, s.overlays pid = some p ∧ p.addr = a
  conn_ov : ∀ pid cs, s.conns pid = some cs → cs ≠ [] ∧ ∃ p, s.overlays pid = some p
  ov_conn : ∀ pid p, s.overlays pid = some p → ∃ cs, s.conns pid = some cs
  str_ov : ∀ pid, (∃ l, s.streams pid = some l) ↔ (∃ p, s.overlays pid = some p)
  noPanic : s.panicked = false

def C14_WF (addrOf : Nat → Nat) : Op → Prop
  | .addPeer _ pid peer => peer.addr = addrOf pid
  | _ => True

theorem C14_inv_init (addrOf : Nat → Nat) : C14_Inv addrOf init := by
  constructor <;> simp [init]

theorem C14_insertC_ne_nil (l : List Nat) (c : Nat) : insertC l c ≠ [] := by
  unfold insertC
  split
  · rename_i h; intro hc; subst hc; simp at h
  · simp

@[simp] theorem C14_upd_same {α} (f : Nat → Option α) (k : Nat) (v : Option α) : upd f k v k = v := by
  simp [upd]

theorem C14_upd_other {α} (f : Nat → Option α) (k i : Nat) (v : Option α) (h : i ≠ k) : upd f k v i = f i := by
  simp [upd, h]

/-- **The invariant is preserved by every operation.** -/
theorem C14_step_inv (addrOf : Nat → Nat) (hinj : ∀ a b, addrOf a = addrOf b → a = b)
    (s : St) (op : Op) (hwf : C14_WF addrOf op) (h : C14_Inv addrOf s) :
    C14_Inv addrOf (step s op).1 := by
  cases op with
  | lookup pid => exact h
  | lookupAddr a => exact h
  | addStream pid st =>
    simp only [step]
    cases hs : s.streams pid with
    | none => exact h
    | some l =>
      simp only
      refine ⟨h.ov_un, h.un_ov, h.conn_ov, h.ov_conn, ?_, h.noPanic⟩ <;> (try dsimp only)
      intro i
      by_cases hi : i = pid
      · subst hi
        simp only [C14_upd_same]
        constructor
        · intro _; exact (h.str_ov i).mp ⟨l, hs⟩
        · intro _; exact ⟨_, rfl⟩
      · simp only [C14_upd_other _ _ _ _ hi]; exact h.str_ov i
  | removeStream pid st =>
    simp only [step]
    cases hs : s.streams pid with
    | none => exact h
    | some l =>
      simp only
      split
      · refine ⟨h.ov_un, h.un_ov, h.conn_ov, h.ov_conn, ?_, h.noPanic⟩
        intro i
        by_cases hi : i = pid
        · subst hi
          simp only [C14_upd_same]
          constructor
          · intro _; exact (h.str_ov i).mp ⟨l, hs⟩
          · intro _; exact ⟨_, rfl⟩
        · simp only [C14_upd_other _ _ _ _ hi]; exact h.str_ov i
      · exact h
  | addPeer c pid peer =>
    simp only [C14_WF] at hwf
    simp only [step]
    cases hu : s.underlays peer.addr with
    | some pid' =>
      -- already known address: only the connection set of pid grows; by injectivity pid' = pid
      obtain ⟨p', hp', hpa⟩ := h.un_ov _ _ hu
      have hpid : pid' = pid := by
        have := (h.ov_un _ _ hp').2
        exact hinj _ _ (by rw [← this, hpa, hwf])
      subst hpid
      simp only
      refine ⟨h.ov_un, h.un_ov, ?_, ?_, h.str_ov, h.noPanic⟩ <;> (try dsimp only)
      · intro i cs hcs
        by_cases hi : i = pid'
        · subst hi
          simp only [C14_upd_same, Option.some.injEq] at hcs
          subst hcs
          exact ⟨C14_insertC_ne_nil _ _, p', hp'⟩
        · rw [C14_upd_other _ _ _ _ hi] at hcs; exact h.conn_ov i cs hcs
      · intro i p hp
        by_cases hi : i = pid'
        · subst hi; exact ⟨_, C14_upd_same _ _ _⟩
        · rw [C14_upd_other _ _ _ _ hi]; exact h.ov_conn i p hp
    | none =>
      simp only
      -- pid has no overlay yet (otherwise its address would be in underlays)
      have hno : s.overlays pid = none := by
        cases ho : s.overlays pid with
        | none => rfl
        | some q =>
          have := h.ov_un _ _ ho
          rw [this.2, ← hwf, hu] at this
          exact absurd this.1 (by simp)
      refine ⟨?_, ?_, ?_, ?_, ?_, h.noPanic⟩ <;> (try dsimp only)
      · intro i p hp
        by_cases hi : i = pid
        · subst hi
          simp only [C14_upd_same, Option.some.injEq] at hp
          subst hp
          exact ⟨C14_upd_same _ _ _, hwf⟩
        · rw [C14_upd_other _ _ _ _ hi] at hp
          have := h.ov_un i p hp
          refine ⟨?_, this.2⟩
          have hne : p.addr ≠ peer.addr := by
            intro hc; rw [hc, hu] at this; exact absurd this.1 (by simp)
          rw [C14_upd_other _ _ _ _ hne]; exact this.1
      · intro a i hai
        by_cases ha : a = peer.addr
        · subst ha
          simp only [C14_upd_same, Option.some.injEq] at hai
          subst hai
          exact ⟨peer, C14_upd_same _ _ _, rfl⟩
        · rw [C14_upd_other _ _ _ _ ha] at hai
          obtain ⟨p, hp, hpa⟩ := h.un_ov a i hai
          have hi : i ≠ pid := by intro hc; subst hc; rw [hno] at hp; cases hp
          exact ⟨p, by rw [C14_upd_other _ _ _ _ hi]; exact hp, hpa⟩
      · intro i cs hcs
        by_cases hi : i = pid
        · subst hi
          simp only [C14_upd_same, Option.some.injEq] at hcs
          subst hcs
          exact ⟨C14_insertC_ne_nil _ _, peer, C14_upd_same _ _ _⟩
        · rw [C14_upd_other _ _ _ _ hi] at hcs
          obtain ⟨hne, p, hp⟩ := h.conn_ov i cs hcs
          exact ⟨hne, p, by rw [C14_upd_other _ _ _ _ hi]; exact hp⟩
      · intro i p hp
        by_cases hi : i = pid
        · subst hi; exact ⟨_, C14_upd_same _ _ _⟩
        · rw [C14_upd_other _ _ _ _ hi] at hp ⊢; exact h.ov_conn i p hp
      · intro i
        by_cases hi : i = pid
        · subst hi; simp only [C14_upd_same]; exact ⟨fun _ => ⟨_, rfl⟩, fun _ => ⟨_, rfl⟩⟩
        · simp only [C14_upd_other _ _ _ _ hi]; exact h.str_ov i
  | disconnected c pid =>
    simp only [step]
    cases hc : s.conns pid with
    | none => exact h
    | some cs =>
      simp only
      by_cases hrem : cs.filter (· ≠ c) ≠ []
      · rw [if_pos hrem]
        obtain ⟨_, p, hp⟩ := h.conn_ov pid cs hc
        refine ⟨h.ov_un, h.un_ov, ?_, ?_, h.str_ov, h.noPanic⟩ <;> (try dsimp only)
        · intro i cs' hcs'
          by_cases hi : i = pid
          · subst hi
            simp only [C14_upd_same, Option.some.injEq] at hcs'
            subst hcs'
            exact ⟨hrem, p, hp⟩
          · rw [C14_upd_other _ _ _ _ hi] at hcs'; exact h.conn_ov i cs' hcs'
        · intro i q hq
          by_cases hi : i = pid
          · subst hi; exact ⟨_, C14_upd_same _ _ _⟩
          · rw [C14_upd_other _ _ _ _ hi]; exact h.ov_conn i q hq
      · rw [if_neg hrem]
        obtain ⟨_, info, hinfo⟩ := h.conn_ov pid cs hc
        rw [hinfo]
        simp only
        have hia := h.ov_un pid info hinfo
        refine ⟨?_, ?_, ?_, ?_, ?_, h.noPanic⟩ <;> (try dsimp only)
        · intro i p hp
          by_cases hi : i = pid
          · subst hi; simp at hp
          · rw [C14_upd_other _ _ _ _ hi] at hp
            have := h.ov_un i p hp
            refine ⟨?_, this.2⟩
            have hne : p.addr ≠ info.addr := by
              intro hcc
              rw [hcc, hia.1] at this
              exact hi (Option.some.inj this.1).symm
            rw [C14_upd_other _ _ _ _ hne]; exact this.1
        · intro a i hai
          by_cases ha : a = info.addr
          · subst ha; simp at hai
          · rw [C14_upd_other _ _ _ _ ha] at hai
            obtain ⟨p, hp, hpa⟩ := h.un_ov a i hai
            have hi : i ≠ pid := by
              intro hcc; subst hcc
              rw [hinfo] at hp; injection hp with hp; subst hp
              exact ha hpa.symm
            exact ⟨p, by rw [C14_upd_other _ _ _ _ hi]; exact hp, hpa⟩
        · intro i cs' hcs'
          by_cases hi : i = pid
          · subst hi; simp at hcs'
          · rw [C14_upd_other _ _ _ _ hi] at hcs'
            obtain ⟨hne, p, hp⟩ := h.conn_ov i cs' hcs'
            exact ⟨hne, p, by rw [C14_upd_other _ _ _ _ hi]; exact hp⟩
        · intro i p hp
          by_cases hi : i = pid
          · subst hi; simp at hp
          · rw [C14_upd_other _ _ _ _ hi] at hp ⊢; exact h.ov_conn i p hp
        · intro i
          by_cases hi : i = pid
          · subst hi; simp
          · simp only [C14_upd_other _ _ _ _ hi]; exact h.str_ov i

/-- every reachable state satisfies the invariant -/
theorem C14_reachable_inv (addrOf : Nat → Nat) (hinj : ∀ a b, addrOf a = addrOf b → a = b)
    (ops : List Op) (hwf : ∀ op ∈ ops, C14_WF addrOf op) (s : St) (h : C14_Inv addrOf s) :
    C14_Inv addrOf (final s ops) := by
  induction ops generalizing s with
  | nil => exact h
  | cons op ops ih =>
    exact ih (fun o ho => hwf o (by simp [ho])) _
      (C14_step_inv addrOf hinj s op (hwf op (by simp)) h)

/-- **No crash**: the unguarded dereference in `Disconnected` is unreachable. -/
theorem C14_never_panics (addrOf : Nat → Nat) (hinj : ∀ a b, addrOf a = addrOf b → a = b)
    (ops : List Op) (hwf : ∀ op ∈ ops, C14_WF addrOf op) :
    (final init ops).panicked = false :=
  (C14_reachable_inv addrOf hinj ops hwf init (C14_inv_init addrOf)).noPanic

/-- **The two maps agree** in every reachable state: looking a peer up by id and by address are
inverse to each other. -/
theorem C14_maps_agree (addrOf : Nat → Nat) (hinj : ∀ a b, addrOf a = addrOf b → a = b)
    (ops : List Op) (hwf : ∀ op ∈ ops, C14_WF addrOf op) (pid : Nat) (p : Peer) :
    (final init ops).overlays pid = some p ↔
      ((final init ops).underlays p.addr = some pid ∧ ∃ q, (final init ops).overlays pid = some q ∧ q = p) := by
  have hI := C14_reachable_inv addrOf hinj ops hwf init (C14_inv_init addrOf)
  constructor
  · intro h; exact ⟨(hI.ov_un pid p h).1, p, h, rfl⟩
  · rintro ⟨_, q, hq, rfl⟩; exact hq

/-- **Registered exactly while a tracked connection is open.** -/
theorem C14_registered_iff_tracked (addrOf : Nat → Nat) (hinj : ∀ a b, addrOf a = addrOf b → a = b)
    (ops : List Op) (hwf : ∀ op ∈ ops, C14_WF addrOf op) (pid : Nat) :
    (∃ p, (final init ops).overlays pid = some p) ↔
      (∃ cs, (final init ops).conns pid = some cs ∧ cs ≠ []) := by
  have hI := C14_reachable_inv addrOf hinj ops hwf init (C14_inv_init addrOf)
  constructor
  · rintro ⟨p, hp⟩
    obtain ⟨cs, hcs⟩ := hI.ov_conn pid p hp
    exact ⟨cs, hcs, (hI.conn_ov pid cs hcs).1⟩
  · rintro ⟨cs, hcs, _⟩; exact (hI.conn_ov pid cs hcs).2

/-- **Closing the last tracked connection**: the peer is removed from both maps, every
recorded handler context is cancelled, and exactly one notification (for that peer) is emitted. -/
theorem C14_last_close (addrOf : Nat → Nat) (s : St) (h : C14_Inv addrOf s) (c pid : Nat) (cs : List Nat)
    (hc : s.conns pid = some cs) (hlast : cs.filter (· ≠ c) = []) :
    ∃ info, s.overlays pid = some info ∧
      let s' := (step s (.disconnected c pid)).1
      s'.overlays pid = none ∧ s'.underlays info.addr = none ∧ s'.conns pid = none ∧ s'.streams pid = none ∧
      s'.notified = s.notified ++ [info] ∧
      s'.cancelled = s.cancelled ++ (s.streams pid).getD [] := by
  obtain ⟨_, info, hinfo⟩ := h.conn_ov pid cs hc
  refine ⟨info, hinfo, ?_⟩
  have hn : ¬ (cs.filter (· ≠ c) ≠ []) := by rw [hlast]; simp
  simp only [step, hc]
  rw [if_neg hn, hinfo]
  simp

/-- **Untracked closures change nothing** (peer without tracked connections, or a connection
that is not the peer's last tracked one and not tracked at all). -/
theorem C14_untracked_close (s : St) (c pid : Nat) (h : s.conns pid = none) :
    (step s (.disconnected c pid)).1 = s := by
  simp [step, h]

theorem C14_other_conn_close (s : St) (c pid : Nat) (cs : List Nat) (hc : s.conns pid = some cs)
    (hnot : c ∉ cs) (hne : cs ≠ []) :
    let s' := (step s (.disconnected c pid)).1
    s'.overlays = s.overlays ∧ s'.underlays = s.underlays ∧ s'.notified = s.notified ∧
      s'.cancelled = s.cancelled ∧ s'.streams = s.streams := by
  have hf : cs.filter (· ≠ c) = cs := by
    apply List.filter_eq_self.mpr
    intro x hx; simp; intro hxc; subst hxc; exact hnot hx
  have hn : cs.filter (· ≠ c) ≠ [] := by rw [hf]; exact hne
  simp only [step, hc]
  rw [if_pos hn]
  simp

/-- non-vacuity: two connections of one peer, a handler stream, closure of both -/
example : (run init [.addPeer 1 7 ⟨7, 2⟩, .addPeer 2 7 ⟨7, 2⟩, .lookup 7, .addStream 7 50, .disconnected 1 7,
    .lookup 7, .disconnected 9 7, .disconnected 2 7, .lookup 7, .lookupAddr 7]) =
    [.exists_ false, .exists_ true, .peer (some ⟨7, 2⟩), .none, .none, .peer (some ⟨7, 2⟩), .none, .none,
     .peer none, .pid none] := by decide

/-! ### Refinement to the abstract one-map specification -/

/-- coupling: the four concrete maps are the projections of the abstract record map -/
structure C14_R (s : St) (a : A) : Prop where
  ov : ∀ pid, s.overlays pid = (a.reg pid).map (·.peer)
  cn : ∀ pid, s.conns pid = (a.reg pid).map (·.conns)
  st : ∀ pid, s.streams pid = (a.reg pid).map (·.streams)
  un : ∀ ad pid, s.underlays ad = some pid ↔ ∃ r, a.reg pid = some r ∧ r.peer.addr = ad
  ca : s.cancelled = a.cancelled
  no : s.notified = a.notified

theorem C14_R_init : C14_R init A0 := by
  constructor <;> simp [init, A0]

/-- **Refinement step**: under the invariant, a concrete step is matched by the abstract step. -/
theorem C14_refine_step (addrOf : Nat → Nat) (hinj : ∀ x y, addrOf x = addrOf y → x = y)
    (s : St) (a : A) (op : Op) (hwf : C14_WF addrOf op) (hI : C14_Inv addrOf s) (hR : C14_R s a) :
    C14_R (step s op).1 (astep a op) := by
  cases op with
  | lookup pid => exact hR
  | lookupAddr x => exact hR
  | addStream pid st =>
    simp only [step, astep]
    have hs := hR.st pid
    cases hr : a.reg pid with
    | none => rw [hr] at hs; simp only [Option.map_none] at hs; rw [hs]; exact hR
    | some r =>
      rw [hr] at hs; simp only [Option.map_some] at hs; rw [hs]
      refine ⟨?_, ?_, ?_, ?_, hR.ca, hR.no⟩ <;> (try dsimp only)
      · intro i; by_cases hi : i = pid
        · subst hi; simp [hR.ov i, hr]
        · simp [upd, hi, hR.ov i]
      · intro i; by_cases hi : i = pid
        · subst hi; simp [hR.cn i, hr]
        · simp [upd, hi, hR.cn i]
      · intro i; by_cases hi : i = pid
        · subst hi; simp
        · simp [upd, hi, hR.st i]
      · intro ad i
        rw [hR.un ad i]
        by_cases hi : i = pid
        · subst hi; simp [hr]
        · simp [upd, hi]
  | removeStream pid st =>
    simp only [step, astep]
    have hs := hR.st pid
    cases hr : a.reg pid with
    | none => rw [hr] at hs; simp only [Option.map_none] at hs; rw [hs]; exact hR
    | some r =>
      rw [hr] at hs; simp only [Option.map_some] at hs; rw [hs]
      simp only
      by_cases hc : r.streams.contains st = true
      · rw [if_pos hc, if_pos hc]
        refine ⟨?_, ?_, ?_, ?_, by simp [hR.ca], hR.no⟩ <;> (try dsimp only)
        · intro i; by_cases hi : i = pid
          · subst hi; simp [hR.ov i, hr]
          · simp [upd, hi, hR.ov i]
        · intro i; by_cases hi : i = pid
          · subst hi; simp [hR.cn i, hr]
          · simp [upd, hi, hR.cn i]
        · intro i; by_cases hi : i = pid
          · subst hi; simp
          · simp [upd, hi, hR.st i]
        · intro ad i
          rw [hR.un ad i]
          by_cases hi : i = pid
          · subst hi; simp [hr]
          · simp [upd, hi]
      · rw [if_neg hc, if_neg hc]; exact hR
  | addPeer c pid peer =>
    simp only [C14_WF] at hwf
    simp only [step, astep]
    cases hu : s.underlays peer.addr with
    | some pid' =>
      obtain ⟨r, hr, hra⟩ := (hR.un _ _).mp hu
      -- by injectivity the known address belongs to pid itself
      have hov : s.overlays pid' = some r.peer := by rw [hR.ov pid', hr]; rfl
      have hpid : pid' = pid := hinj _ _ (by rw [← (hI.ov_un _ _ hov).2, hra, hwf])
      subst hpid
      rw [hr]
      have hcn : s.conns pid' = some r.conns := by rw [hR.cn pid', hr]; rfl
      simp only [hcn, Option.getD_some]
      refine ⟨?_, ?_, ?_, ?_, hR.ca, hR.no⟩ <;> (try dsimp only)
      · intro i; by_cases hi : i = pid'
        · subst hi; simp [hR.ov i, hr]
        · simp [upd, hi, hR.ov i]
      · intro i; by_cases hi : i = pid'
        · subst hi; simp
        · simp [upd, hi, hR.cn i]
      · intro i; by_cases hi : i = pid'
        · subst hi; simp [hR.st i, hr]
        · simp [upd, hi, hR.st i]
      · intro ad i
        rw [hR.un ad i]
        by_cases hi : i = pid'
        · subst hi; simp [hr]
        · simp [upd, hi]
    | none =>
      -- unknown address: pid is not registered abstractly either
      have hnr : a.reg pid = none := by
        cases hr : a.reg pid with
        | none => rfl
        | some r =>
          have hov : s.overlays pid = some r.peer := by rw [hR.ov pid, hr]; rfl
          have := hI.ov_un _ _ hov
          rw [this.2, ← hwf, hu] at this
          exact absurd this.1 (by simp)
      have hcn : s.conns pid = none := by rw [hR.cn pid, hnr]; rfl
      rw [hnr]
      simp only [hcn, Option.getD_none]
      refine ⟨?_, ?_, ?_, ?_, hR.ca, hR.no⟩ <;> (try dsimp only)
      · intro i; by_cases hi : i = pid
        · subst hi; simp
        · simp [upd, hi, hR.ov i]
      · intro i; by_cases hi : i = pid
        · subst hi; simp [insertC]
        · simp [upd, hi, hR.cn i]
      · intro i; by_cases hi : i = pid
        · subst hi; simp
        · simp [upd, hi, hR.st i]
      · intro ad i
        by_cases hi : i = pid
        · subst hi
          by_cases had : ad = peer.addr
          · subst had; simp [upd]
          · simp only [upd, had, ite_false, ite_true, Option.some.injEq, exists_eq_left']
            constructor
            · intro h'
              obtain ⟨r, hr, _⟩ := (hR.un ad i).mp h'
              rw [hnr] at hr; cases hr
            · intro h'; exact absurd h'.symm had
        · by_cases had : ad = peer.addr
          · subst had
            simp only [upd, ite_true, Option.some.injEq, hi, ite_false]
            constructor
            · intro h'; exact absurd h'.symm hi
            · rintro ⟨r, hr, hra⟩
              have := (hR.un peer.addr i).mpr ⟨r, hr, hra⟩
              rw [hu] at this; cases this
          · simp only [upd, had, ite_false, hi]
            exact hR.un ad i
  | disconnected c pid =>
    simp only [step, astep]
    cases hr : a.reg pid with
    | none =>
      have hcn : s.conns pid = none := by rw [hR.cn pid, hr]; rfl
      rw [hcn]; exact hR
    | some r =>
      have hcn : s.conns pid = some r.conns := by rw [hR.cn pid, hr]; rfl
      have hov : s.overlays pid = some r.peer := by rw [hR.ov pid, hr]; rfl
      have hst : s.streams pid = some r.streams := by rw [hR.st pid, hr]; rfl
      rw [hcn]
      simp only
      by_cases hrem : r.conns.filter (· ≠ c) ≠ []
      · rw [if_pos hrem, if_pos hrem]
        refine ⟨?_, ?_, ?_, ?_, hR.ca, hR.no⟩ <;> (try dsimp only)
        · intro i; by_cases hi : i = pid
          · subst hi; simp [hR.ov i, hr]
          · simp [upd, hi, hR.ov i]
        · intro i; by_cases hi : i = pid
          · subst hi; simp
          · simp [upd, hi, hR.cn i]
        · intro i; by_cases hi : i = pid
          · subst hi; simp [hR.st i, hr]
          · simp [upd, hi, hR.st i]
        · intro ad i
          rw [hR.un ad i]
          by_cases hi : i = pid
          · subst hi; simp [hr]
          · simp [upd, hi]
      · rw [if_neg hrem, if_neg hrem, hov]
        simp only [hst, Option.getD_some]
        refine ⟨?_, ?_, ?_, ?_, by simp [hR.ca], by simp [hR.no]⟩ <;> (try dsimp only)
        · intro i; by_cases hi : i = pid
          · subst hi; simp
          · simp [upd, hi, hR.ov i]
        · intro i; by_cases hi : i = pid
          · subst hi; simp
          · simp [upd, hi, hR.cn i]
        · intro i; by_cases hi : i = pid
          · subst hi; simp
          · simp [upd, hi, hR.st i]
        · intro ad i
          have hua := (hI.ov_un pid r.peer hov).1
          by_cases hi : i = pid
          · subst hi
            simp only [upd, ite_true]
            constructor
            · intro h'
              by_cases had : ad = r.peer.addr
              · simp [had] at h'
              · simp only [had, ite_false] at h'
                obtain ⟨r', hr', hra'⟩ := (hR.un ad i).mp h'
                rw [hr] at hr'; injection hr' with hr'; subst hr'
                exact absurd hra'.symm had
            · rintro ⟨r', hr', _⟩; cases hr'
          · by_cases had : ad = r.peer.addr
            · subst had
              simp only [upd, ite_true, hi, ite_false]
              constructor
              · intro h'; cases h'
              · rintro ⟨r', hr', hra'⟩
                have := (hR.un r.peer.addr i).mpr ⟨r', hr', hra'⟩
                rw [hua] at this
                exact absurd (Option.some.inj this).symm hi
            · simp only [upd, had, ite_false, hi]
              exact hR.un ad i

/-- **Refinement**: after any well-formed operation sequence the concrete registry is the
projection of the abstract one-map specification — same lookups by id and by address, same
cancelled contexts, same notifications. -/
theorem C14_refines (addrOf : Nat → Nat) (hinj : ∀ x y, addrOf x = addrOf y → x = y)
    (ops : List Op) (hwf : ∀ op ∈ ops, C14_WF addrOf op) :
    C14_R (final init ops) (afinal A0 ops) := by
  have key : ∀ (ops : List Op) (s : St) (a : A), (∀ op ∈ ops, C14_WF addrOf op) → C14_Inv addrOf s → C14_R s a →
      C14_R (final s ops) (afinal a ops) := by
    intro ops
    induction ops with
    | nil => intro s a _ _ hR; exact hR
    | cons op ops ih =>
      intro s a hwf hI hR
      exact ih _ _ (fun o ho => hwf o (by simp [ho]))
        (C14_step_inv addrOf hinj s op (hwf op (by simp)) hI)
        (C14_refine_step addrOf hinj s a op (hwf op (by simp)) hI hR)
  exact key ops init A0 hwf (C14_inv_init addrOf) C14_R_init

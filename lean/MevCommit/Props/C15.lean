import MevCommit.Model.Topology
import MevCommit.Spec.C15
open MevCommit MevCommit.Topology MevCommit.Spec.C15

def C15_has (l : List Peer) (a : Nat) : Bool := l.any (fun q => q.addr = a)

theorem C15_has_filter_ne (l : List Peer) (x a : Nat) :
    (l.filter (fun q => q.addr ≠ x)).any (fun q => q.addr = a) =
      (!decide (x = a) && l.any (fun q => q.addr = a)) := by
  induction l with
  | nil => simp
  | cons q l ih =>
    by_cases hq : q.addr = x
    · by_cases hx : x = a
      · subst hx
        rw [List.filter_cons]
        simp only [hq, ne_eq, not_true_eq_false, decide_false, Bool.false_eq_true, ite_false, ih]
        simp
      · have hqa : ¬ q.addr = a := by intro hc; exact hx (hq ▸ hc)
        rw [List.filter_cons]
        simp only [hq, ne_eq, not_true_eq_false, decide_false, Bool.false_eq_true, ite_false, ih,
          List.any_cons]
        simp [hx, hq ▸ hqa]
    · rw [List.filter_cons]
      simp only [ne_eq, hq, not_false_eq_true, decide_true, ite_true, List.any_cons, ih]
      by_cases hx : x = a
      · subst hx; simp [hq]
      · simp [hx]

theorem C15_has_insert (l : List Peer) (p : Peer) (a : Nat) :
    C15_has (Topology.insert l p) a = (decide (p.addr = a) || C15_has l a) := by
  unfold C15_has Topology.insert
  rw [List.any_cons, C15_has_filter_ne]
  by_cases h : p.addr = a <;> simp [h]

theorem C15_has_erase (l : List Peer) (x a : Nat) :
    C15_has (erase l x) a = (!decide (x = a) && C15_has l a) := by
  unfold C15_has erase
  exact C15_has_filter_ne l x a

/-- membership bit of (address, role) in a view; roles other than provider/bidder are never in -/
def C15_member (v : View) (a : Nat) (r : Int) : Bool :=
  if r = roleProvider then C15_has v.providers a
  else if r = roleBidder then C15_has v.bidders a
  else false

def C15_applyAtom (v : View) : Atom → View
  | .add p => add v p
  | .del p => remove v p

theorem C15_member_atom (v : View) (at_ : Atom) (a : Nat) (r : Int)
    (hr : r = roleProvider ∨ r = roleBidder) :
    C15_member (C15_applyAtom v at_) a r =
      (match at_ with
       | .add p => if p.addr = a ∧ p.role = r then true else C15_member v a r
       | .del p => if p.addr = a ∧ p.role = r then false else C15_member v a r) := by
  have hne : roleProvider ≠ roleBidder := by decide
  cases at_ with
  | add p =>
    simp only [C15_applyAtom, add]
    by_cases h1 : p.role = roleProvider
    · rcases hr with rfl | rfl
      · by_cases ha : p.addr = a <;> simp [C15_member, h1, C15_has_insert, ha]
      · simp [C15_member, h1, hne, Ne.symm hne]
    · by_cases h2 : p.role = roleBidder
      · rcases hr with rfl | rfl
        · simp [C15_member, h1, h2, hne, Ne.symm hne]
        · by_cases ha : p.addr = a <;> simp [C15_member, h1, h2, hne, Ne.symm hne, C15_has_insert, ha]
      · rcases hr with rfl | rfl <;> simp [C15_member, h1, h2]
  | del p =>
    simp only [C15_applyAtom, remove]
    by_cases h1 : p.role = roleProvider
    · rcases hr with rfl | rfl
      · by_cases ha : p.addr = a <;> simp [C15_member, h1, C15_has_erase, ha]
      · simp [C15_member, h1, hne, Ne.symm hne]
    · by_cases h2 : p.role = roleBidder
      · rcases hr with rfl | rfl
        · simp [C15_member, h1, h2, hne, Ne.symm hne]
        · by_cases ha : p.addr = a <;> simp [C15_member, h1, h2, hne, Ne.symm hne, C15_has_erase, ha]
      · rcases hr with rfl | rfl <;> simp [C15_member, h1, h2]

theorem C15_member_atoms (v : View) (as : List Atom) (a : Nat) (r : Int)
    (hr : r = roleProvider ∨ r = roleBidder) :
    C15_member (as.foldl C15_applyAtom v) a r = inViewF (C15_member v a r) as a r := by
  induction as generalizing v with
  | nil => simp [inViewF]
  | cons x xs ih =>
    simp only [List.foldl_cons, inViewF]
    rw [ih, C15_member_atom v x a r hr]
    cases x <;> rfl

/-- one event changes the view exactly by its atoms -/
theorem C15_step_atoms (v : View) (e : Ev) : (step v e).1 = (atomsOf v e).foldl C15_applyAtom v := by
  cases e with
  | connected p f => simp [step, atomsOf, C15_applyAtom]
  | disconnected p => simp [step, atomsOf, C15_applyAtom]
  | addPeers ps =>
    simp only [step, atomsOf]
    induction ps generalizing v with
    | nil => simp
    | cons p ps ih => simp [List.foldl_cons, C15_applyAtom, ih]
  | gossip es =>
    simp only [step, atomsOf]
    generalize (es.filter (fun e => !isConnected v e.claimed)).filterMap (·.connect) = ps
    induction ps generalizing v with
    | nil => simp
    | cons p ps ih => simp [List.foldl_cons, C15_applyAtom, ih]

/-- all atoms of a history, each event's atoms computed in the view it happened in -/
def C15_historyAtoms : View → List Ev → List Atom
  | _, [] => []
  | v, e :: es => atomsOf v e ++ C15_historyAtoms (step v e).1 es

def C15_finalView : View → List Ev → View
  | v, [] => v
  | v, e :: es => C15_finalView (step v e).1 es

/-- **The view follows connect / add / disconnect exactly**: after any history, a peer of role
provider or bidder is reported iff the latest event about that (address, role) added it. -/
theorem C15_view_exact (es : List Ev) (a : Nat) (r : Int) (hr : r = roleProvider ∨ r = roleBidder) :
    C15_member (C15_finalView View.empty es) a r = inViewF false (C15_historyAtoms View.empty es) a r := by
  have key : ∀ (v : View) (es : List Ev),
      C15_member (C15_finalView v es) a r = inViewF (C15_member v a r) (C15_historyAtoms v es) a r := by
    intro v es
    induction es generalizing v with
    | nil => simp [C15_finalView, C15_historyAtoms, inViewF]
    | cons e es ih =>
      simp only [C15_finalView, C15_historyAtoms]
      rw [ih, C15_step_atoms, C15_member_atoms _ _ _ _ hr]
      simp [inViewF, List.foldl_append]
  have := key View.empty es
  rcases hr with rfl | rfl <;> simpa [C15_member, View.empty, C15_has] using this

/-! ### announcements -/

/-- what the newcomer is sent: only other providers of the view whose lookup succeeded — never
its own record — and all of them; nothing at all if there is none -/
theorem C15_newcomer_gets_other_providers (v : View) (p : Peer) (ok : Nat → Bool) (b : Broadcast)
    (hb : b ∈ announce v p ok) (hto : b.to = p) (hnb : ¬ (p.role = roleProvider ∧ ok p.addr ∧ p ∈ v.bidders)) :
    b.records ≠ [] ∧ ∀ a, a ∈ b.records ↔ (a ≠ p.addr ∧ ok a = true ∧ ∃ q ∈ v.providers, q.addr = a) := by
  unfold announce at hb
  simp only [List.mem_append] at hb
  rcases hb with hb | hb
  · split at hb
    · simp at hb
    · rename_i hne
      simp only [List.mem_singleton] at hb
      subst hb
      refine ⟨by simpa using hne, ?_⟩
      intro a
      simp only [List.mem_map, List.mem_filter, decide_eq_true_eq]
      constructor
      · rintro ⟨q, ⟨hq, hqa, hok⟩, rfl⟩; exact ⟨hqa, hok, q, hq, rfl⟩
      · rintro ⟨hne', hok, q, hq, rfl⟩; exact ⟨q, ⟨hq, hne', hok⟩, rfl⟩
  · split at hb
    · rename_i hp
      simp only [List.mem_map] at hb
      obtain ⟨bd, hbd, rfl⟩ := hb
      simp only at hto
      subst hto
      exact absurd ⟨hp.1, hp.2, hbd⟩ hnb
    · simp at hb

/-- the newcomer's own record goes to every known bidder iff it is a provider (whose lookup
succeeds), and to nobody else -/
theorem C15_provider_announced_to_bidders (v : View) (p : Peer) (ok : Nat → Bool) :
    (p.role = roleProvider ∧ ok p.addr = true → ∀ bd ∈ v.bidders, (⟨bd, [p.addr]⟩ : Broadcast) ∈ announce v p ok) ∧
    (¬ (p.role = roleProvider ∧ ok p.addr = true) → ∀ b ∈ announce v p ok, b.to = p) := by
  refine ⟨?_, ?_⟩
  · intro hp bd hbd
    unfold announce
    simp only [List.mem_append]
    right
    rw [if_pos hp]
    exact List.mem_map.mpr ⟨bd, hbd, rfl⟩
  · intro hp b hb
    unfold announce at hb
    simp only [List.mem_append] at hb
    rcases hb with hb | hb
    · split at hb
      · simp at hb
      · simp only [List.mem_singleton] at hb; rw [hb]
    · rw [if_neg hp] at hb; simp at hb

/-- no broadcast ever carries a record that is not a provider of the view or the newcomer itself
(in particular never a bidder's record) -/
theorem C15_only_provider_records (v : View) (p : Peer) (ok : Nat → Bool) (b : Broadcast)
    (hb : b ∈ announce v p ok) (a : Nat) (ha : a ∈ b.records) :
    (∃ q ∈ v.providers, q.addr = a) ∨ (a = p.addr ∧ p.role = roleProvider) := by
  unfold announce at hb
  simp only [List.mem_append] at hb
  rcases hb with hb | hb
  · split at hb
    · simp at hb
    · simp only [List.mem_singleton] at hb
      subst hb
      simp only [List.mem_map, List.mem_filter] at ha
      obtain ⟨q, ⟨hq, _⟩, rfl⟩ := ha
      exact Or.inl ⟨q, hq, rfl⟩
  · split at hb
    · rename_i hp
      simp only [List.mem_map] at hb
      obtain ⟨bd, _, rfl⟩ := hb
      simp only [List.mem_singleton] at ha
      exact Or.inr ⟨ha, hp.1⟩
    · simp at hb

/-! ### gossip -/

/-- already-connected addresses are not dialled; everything else in the list is -/
theorem C15_gossip_dials (v : View) (es : List Entry) (a : Nat) :
    a ∈ (step v (.gossip es)).2.dialled ↔ ∃ e ∈ es, e.claimed = a ∧ isConnected v a = false := by
  simp only [step, List.mem_map, List.mem_filter, Bool.not_eq_true']
  constructor
  · rintro ⟨e, ⟨he, hc⟩, rfl⟩; exact ⟨e, he, rfl, hc⟩
  · rintro ⟨e, he, rfl, hc⟩; exact ⟨e, ⟨he, hc⟩, rfl⟩

/-- gossip adds exactly the peers the handshakes proved (address and role as returned by
Connect), never the claimed address of an entry -/
theorem C15_gossip_adds_only_proven (v : View) (es : List Entry) (at_ : Atom)
    (h : at_ ∈ atomsOf v (.gossip es)) : ∃ e ∈ es, ∃ p, e.connect = some p ∧ at_ = .add p := by
  simp only [atomsOf, List.mem_map, List.mem_filterMap, List.mem_filter] at h
  obtain ⟨p, ⟨e, ⟨he, _⟩, hc⟩, rfl⟩ := h
  exact ⟨e, he, p, hc, rfl⟩

/-- **The view is updated before anything is announced and whatever is announced**: the view after
`Connected p` is `add v p` — it does not depend on the address-book lookups or on any
announcement — so an event arriving while the announcements are still going out (the harness
delivers a disconnect of the same peer at that moment) meets the view that already holds `p`,
and the view after it is the sequential one. -/
theorem C15_connected_view_first (v : View) (p : Peer) (fails : List Nat) :
    (step v (.connected p fails)).1 = add v p ∧
    (step (step v (.connected p fails)).1 (.disconnected p)).1 = remove (add v p) p := by
  exact ⟨rfl, rfl⟩

/-- a peer that connects and disconnects again is not reported, whatever was reported before -/
theorem C15_connect_then_disconnect_absent (v : View) (p : Peer) (fails : List Nat)
    (hr : p.role = roleProvider ∨ p.role = roleBidder) :
    isConnected (step (step v (.connected p fails)).1 (.disconnected p)).1 p.addr =
      (if p.role = roleProvider then v.bidders.any (fun q => q.addr = p.addr)
       else v.providers.any (fun q => q.addr = p.addr)) := by
  have hne : roleProvider ≠ roleBidder := by decide
  rcases hr with hr | hr
  · simp [step, add, remove, hr, isConnected, MevCommit.Topology.insert, MevCommit.Topology.erase, List.any_filter]
  · have : p.role ≠ roleProvider := by rw [hr]; exact fun h => hne h.symm
    simp [step, add, remove, hr, isConnected, MevCommit.Topology.insert, MevCommit.Topology.erase, List.any_filter, hne.symm]

/-- non-vacuity -/
example : (run View.empty [.connected ⟨1, 1⟩ [], .connected ⟨2, 2⟩ [], .connected ⟨3, 1⟩ [],
    .disconnected ⟨1, 1⟩, .gossip [⟨3, none⟩, ⟨9, some ⟨7, 1⟩⟩]]).map (·.2) =
    [⟨[], []⟩, ⟨[⟨⟨2, 2⟩, [1]⟩], []⟩, ⟨[⟨⟨3, 1⟩, [1]⟩, ⟨⟨2, 2⟩, [3]⟩], []⟩, ⟨[], []⟩, ⟨[], [9]⟩] := by decide

import MevCommit.Model.ProviderSvc
open MevCommit MevCommit.ProviderSvc

/-- ids of bids that received a status -/
def C12_deliveredIds (s : St) : List Nat := s.delivered.map (·.1)

structure C12_Inv (s : St) : Prop where
  /-- a registered id is below the counter and its recorded digest is the key it sits under -/
  pend : ∀ d id, s.pending d = some id → id < s.nextId ∧ s.digestOf id = some d
  /-- recorded digests only for allocated ids -/
  dig : ∀ id d, s.digestOf id = some d → id < s.nextId
  /-- a bid that was answered is no longer registered -/
  done : ∀ id, id ∈ C12_deliveredIds s → ∀ d, s.pending d ≠ some id
  /-- at most once -/
  nodup : (C12_deliveredIds s).Nodup
  /-- only allocated ids are answered -/
  alloc : ∀ id, id ∈ C12_deliveredIds s → id < s.nextId

theorem C12_inv_init : C12_Inv init := by
  constructor <;> simp [init, C12_deliveredIds]

theorem C12_step_inv (s : St) (op : Op) (h : C12_Inv s) : C12_Inv (step s op).1 := by
  cases op with
  | handoff id => exact ⟨h.pend, h.dig, h.done, h.nodup, h.alloc⟩
  | submit d valid =>
    simp only [step]
    cases valid with
    | false => exact h
    | true =>
      simp only [Bool.not_true, Bool.false_eq_true, ite_false]
      refine ⟨?_, ?_, ?_, h.nodup, ?_⟩
      · intro d' id hp
        by_cases hd : d' = d
        · subst hd
          simp only [upd, ite_true, Option.some.injEq] at hp
          subst hp
          exact ⟨Nat.lt_succ_self _, by simp [upd]⟩
        · simp only [upd, hd, ite_false] at hp
          have := h.pend d' id hp
          refine ⟨Nat.lt_succ_of_lt this.1, ?_⟩
          have hne : id ≠ s.nextId := Nat.ne_of_lt this.1
          simp [upd, hne, this.2]
      · intro id d' hdg
        by_cases hi : id = s.nextId
        · subst hi; exact Nat.lt_succ_self _
        · simp only [upd, hi, ite_false] at hdg
          exact Nat.lt_succ_of_lt (h.dig id d' hdg)
      · intro id hid d' hp
        by_cases hd : d' = d
        · subst hd
          simp only [upd, ite_true, Option.some.injEq] at hp
          have := h.alloc id hid
          omega
        · simp only [upd, hd, ite_false] at hp
          exact h.done id hid d' hp
      · intro id hid; exact Nat.lt_succ_of_lt (h.alloc id hid)
  | abandon id =>
    simp only [step]
    cases hdg : s.digestOf id with
    | none => exact h
    | some d =>
      refine ⟨?_, h.dig, ?_, h.nodup, h.alloc⟩
      · intro d' id' hp
        by_cases hd : d' = d
        · subst hd; simp [upd] at hp
        · simp only [upd, hd, ite_false] at hp; exact h.pend d' id' hp
      · intro id' hid d' hp
        by_cases hd : d' = d
        · subst hd; simp [upd] at hp
        · simp only [upd, hd, ite_false] at hp; exact h.done id' hid d' hp
  | decision d st =>
    simp only [step]
    by_cases hv : validStatus st = true
    · simp only [hv, Bool.not_true, Bool.false_eq_true, ite_false]
      cases hp : s.pending d with
      | none => exact h
      | some id =>
        have hid := h.pend d id hp
        have hnot : id ∉ C12_deliveredIds s := fun hin => h.done id hin d hp
        refine ⟨?_, h.dig, ?_, ?_, ?_⟩
        · intro d' id' hp'
          by_cases hd : d' = d
          · subst hd; simp [upd] at hp'
          · simp only [upd, hd, ite_false] at hp'; exact h.pend d' id' hp'
        · intro id' hid' d' hp'
          simp only [C12_deliveredIds, List.map_append, List.map_cons, List.map_nil, List.mem_append,
            List.mem_singleton] at hid'
          by_cases hd : d' = d
          · subst hd; simp [upd] at hp'
          · simp only [upd, hd, ite_false] at hp'
            rcases hid' with hid' | hid'
            · exact h.done id' hid' d' hp'
            · -- id' = id is registered under d only
              subst hid'
              have := (h.pend d' id' hp').2
              rw [hid.2] at this
              exact hd (Option.some.inj this).symm
        · simp only [C12_deliveredIds, List.map_append, List.map_cons, List.map_nil]
          rw [List.nodup_append]
          refine ⟨h.nodup, by simp, ?_⟩
          intro a ha b hb
          simp only [List.mem_singleton] at hb
          subst hb
          intro hab; subst hab; exact hnot ha
        · intro id' hid'
          simp only [C12_deliveredIds, List.map_append, List.map_cons, List.map_nil, List.mem_append,
            List.mem_singleton] at hid'
          rcases hid' with hid' | hid'
          · exact h.alloc id' hid'
          · subst hid'; exact hid.1
    · simp only [Bool.not_eq_true] at hv
      simp only [hv, Bool.not_false, ite_true]
      exact ⟨h.pend, h.dig, h.done, h.nodup, h.alloc⟩

theorem C12_reachable (ops : List Op) (s : St) (h : C12_Inv s) : C12_Inv (final s ops) := by
  induction ops generalizing s with
  | nil => exact h
  | cons op ops ih => exact ih _ (C12_step_inv s op h)

/-- **At most once**: after any interleaving of submissions (equal digests allowed), hand-offs,
abandonments and decisions (valid, duplicate, unknown, out of range), no bid has received more
than one status. -/
theorem C12_at_most_once (ops : List Op) : (C12_deliveredIds (final init ops)).Nodup :=
  (C12_reachable ops init C12_inv_init).nodup

/-- **Only the named pending bid**: a decision is delivered exactly to the bid registered under
the digest it names, with the status it carries; nothing else changes. -/
theorem C12_decision_reaches_named_bid (s : St) (d st id : Nat) (hv : validStatus st = true)
    (hp : s.pending d = some id) :
    (step s (.decision d st)).2 = .delivered id ∧
    (step s (.decision d st)).1.delivered = s.delivered ++ [(id, st)] ∧
    (step s (.decision d st)).1.pending d = none := by
  simp [step, hv, hp, upd]

/-- **Unknown, answered or abandoned digests are ignored**: state unchanged, stream continues. -/
theorem C12_unknown_ignored (s : St) (d st : Nat) (hv : validStatus st = true) (hp : s.pending d = none) :
    step s (.decision d st) = (s, .ignored) := by
  simp [step, hv, hp]

/-- a second decision for the same digest right after the first one is ignored -/
theorem C12_duplicate_ignored (s : St) (d st st' : Nat) (hv : validStatus st = true) (hv' : validStatus st' = true) :
    (step (step s (.decision d st)).1 (.decision d st')).2 = .ignored := by
  cases hp : s.pending d with
  | none => simp [step, hv, hv', hp]
  | some id => simp [step, hv, hv', hp, upd]

/-- **Abandonment leaves no entry of that bid** (in any reachable state). -/
theorem C12_abandon_leaves_nothing (ops : List Op) (id : Nat) :
    ∀ d, (step (final init ops) (.abandon id)).1.pending d ≠ some id := by
  have hI := C12_reachable ops init C12_inv_init
  intro d hp
  simp only [step] at hp
  cases hdg : (final init ops).digestOf id with
  | none =>
    simp only [hdg] at hp
    have := (hI.pend d id hp).2
    rw [hdg] at this; cases this
  | some d0 =>
    simp only [hdg] at hp
    by_cases hd : d = d0
    · subst hd; simp [upd] at hp
    · simp only [upd, hd, ite_false] at hp
      have := (hI.pend d id hp).2
      rw [hdg] at this
      exact hd (Option.some.inj this).symm

/-- an invalid bid never reaches the engine's table -/
theorem C12_invalid_not_registered (s : St) (d : Nat) : step s (.submit d false) = (s, .rejected) := by
  simp [step]

/-- non-vacuity: equal digests, duplicate and unknown decisions, an out-of-range status -/
example : run init [.submit 5 true, .submit 5 true, .handoff 0, .decision 5 1, .decision 5 2, .decision 9 1,
    .decision 5 0, .submit 6 true, .abandon 2, .decision 6 1] =
    [.registered 0, .registered 1, .ok, .delivered 1, .ignored, .ignored, .streamEnded, .registered 2, .ok, .ignored] := by
  decide

import MevCommit.Model.Hostile
import MevCommit.Props.C02
import MevCommit.Props.C14
import MevCommit.Model.Framing
open MevCommit MevCommit.Hostile

/-- `signer.Verify` never panics: the slice is reached only after recovery succeeded, and
recovery succeeds only for 65-byte signatures -/
theorem C06_signerVerify_no_panic (recover : Bytes → Bytes → Option Bytes) (verify : Bytes → Bytes → Bytes → Bool)
    (recoverLen : ∀ h s pub, recover h s = some pub → s.length = 65) (hash sig : Bytes) (p : String) :
    signerVerify recover verify hash sig ≠ .panic p := by
  unfold signerVerify
  cases hr : recover hash sig with
  | none => simp
  | some pub =>
    have hl := recoverLen hash sig pub hr
    simp only [sliceTo, hl]
    simp [Outcome.bind]

/-- without the recovery guard the slice would panic on an empty signature (the guard is needed) -/
theorem C06_slice_needs_guard : sliceTo [] (((([] : Bytes).length : Int)) - 1) = .panic "slice bounds out of range" := by
  decide

/-- address derivation from a peer id never panics: a successfully decompressed key has 65 bytes -/
theorem C06_addrFromCompressed_no_panic (decompress : Bytes → Option Bytes) (H : Bytes → Bytes)
    (decLen : ∀ raw pub, decompress raw = some pub → pub.length = 65) (raw : Bytes) (p : String) :
    addrFromCompressed decompress H raw ≠ .panic p := by
  unfold addrFromCompressed
  cases hd : decompress raw with
  | none => simp
  | some pub =>
    have hl := decLen raw pub hd
    simp [sliceFrom, hl, Outcome.bind]

/-- `BytesToAddress` is total and always yields 20 bytes, whatever length a gossiped address has -/
theorem C06_bytesToAddress_length (b : Bytes) : (bytesToAddress b).length = 20 := by
  unfold bytesToAddress
  by_cases h : 20 < b.length
  · simp [h]; omega
  · simp [h]; omega

/-- bid / commitment verification never panics, whatever a peer sends (from C02) -/
theorem C06_verifyBid_no_panic (H : Bytes → Bytes) (S : Signer.Scheme) (b : Signer.Bid) (p : String) :
    Signer.verifyBid H S b ≠ .panic p := C02_verifyBid_no_panic H S b p

theorem C06_verifyCommitment_no_panic (H : Bytes → Bytes) (S : Signer.Scheme) (c : Signer.Commitment) (p : String) :
    Signer.verifyCommitment H S c ≠ .panic p := C02_verifyCommitment_no_panic H S c p

/-- the registry's unguarded dereference is unreachable (from C14) -/
theorem C06_registry_no_panic (addrOf : Nat → Nat) (hinj : ∀ a b, addrOf a = addrOf b → a = b)
    (ops : List PeerRegistry.Op) (hwf : ∀ op ∈ ops, C14_WF addrOf op) :
    (PeerRegistry.final PeerRegistry.init ops).panicked = false := C14_never_panics addrOf hinj ops hwf

/-- frame reading is total: every byte string yields a (possibly empty) list of read results -/
theorem C06_readAll_total (fuel : Nat) (s : Bytes) : ∃ rs, Framing.readAll fuel s = rs := ⟨_, rfl⟩

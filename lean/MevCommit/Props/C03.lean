import MevCommit.Spec.C03
import MevCommit.Lemmas.BE
open MevCommit MevCommit.Signer MevCommit.Eip712 MevCommit.Spec.C03

theorem C03_showDec64 : showDec 64 = [54, 52] := by
  rw [showDec]; simp only [show ¬ (64 < 10) by decide, ite_false]
  rw [showDec]; simp [digitChar]

/-- the type strings in the Go source are exactly `encodeType` of the published schemas -/
theorem C03_type_strings :
    encodeType bidSchema = Extracted.bidTypeString ∧
    encodeType commitSchema = Extracted.commitTypeString ∧
    encodeType domainSchema = Extracted.bidDomainType ∧
    encodeType domainSchema = Extracted.commitDomainType := by
  refine ⟨?_, ?_, ?_, ?_⟩ <;>
    simp [encodeType, bidSchema, commitSchema, domainSchema, memberText, tyName, u64, joinComma,
      C03_showDec64] <;> decide

theorem C03_domains :
    Extracted.bidDomainName = bidDomainName ∧ Extracted.commitDomainName = commitDomainName ∧
    Extracted.bidDomainVersion = domainVersion ∧ Extracted.commitDomainVersion = domainVersion ∧
    Extracted.bidPrefix = [0x19, 0x01] ∧ Extracted.commitPrefix = [0x19, 0x01] ∧
    Extracted.missing = [] := by decide

/-- a non-negative integer below 2^256 is encoded as its plain 32-byte big-endian word -/
theorem C03_be32_nat (n : Nat) (h : n < 2 ^ 256) : be32 (Int.ofNat n) = toBE 32 n := by
  unfold be32 u256
  have : (Int.ofNat n % (2 ^ 256 : Int)).toNat = n := by
    have h2 : ((2:Int) ^ 256) = ((2 ^ 256 : Nat) : Int) := by norm_cast
    rw [h2]
    have : (Int.ofNat n % ((2 ^ 256 : Nat) : Int)) = ((n % 2 ^ 256 : Nat) : Int) := by
      simp [Int.ofNat_mod_ofNat]
    rw [this, Nat.mod_eq_of_lt h]; simp
  rw [this]

theorem C03_be32_int (x : Int) (h0 : 0 ≤ x) (h : x < 2 ^ 256) : be32 x = toBE 32 x.toNat := by
  obtain ⟨n, rfl⟩ := Int.eq_ofNat_of_zero_le h0
  have hn : n < 2 ^ 256 := by exact_mod_cast h
  simpa using C03_be32_nat n hn

/-- **Bid digest = EIP-712 digest** for every hash function, every tx-hash string, every amount
text whose value fits uint64 and every block number / timestamp in [0, 2^63). -/
theorem C03_bid_digest_is_eip712 (H : Bytes → Bytes) (b : Bid) (amt : Nat)
    (ha : parseBigInt b.amount = some (Int.ofNat amt)) (hamt : amt < 2 ^ 64)
    (hb : 0 ≤ b.blockNumber ∧ b.blockNumber < 2 ^ 63)
    (hs : 0 ≤ b.decayStart ∧ b.decayStart < 2 ^ 63)
    (he : 0 ≤ b.decayEnd ∧ b.decayEnd < 2 ^ 63) :
    getBidHash H b = .ok (bidDigest H b.txHash amt b.blockNumber.toNat b.decayStart.toNat b.decayEnd.toNat) := by
  have hlt : amt < 2 ^ 256 := Nat.lt_of_lt_of_le hamt (Nat.pow_le_pow_right (by decide) (by decide))
  have hamt' : (Int.ofNat amt) < 2 ^ 256 := by
    have : ((amt : Nat) : Int) < ((2 ^ 256 : Nat) : Int) := Int.ofNat_lt.mpr hlt
    simpa using this
  have hpa : parseAmount b.amount = some (Int.ofNat amt) := by
    simp only [parseAmount, ha]
    rw [if_pos ⟨Int.natCast_nonneg amt, hamt'⟩]
  have w (x : Int) (h0 : 0 ≤ x) (h1 : x < 2 ^ 63) : be32 x = toBE 32 x.toNat :=
    C03_be32_int x h0 (Int.lt_of_lt_of_le h1 (by decide))
  unfold getBidHash
  rw [hpa]
  simp only [bidDigest, digest, hashStruct, domainSeparator, bidStructData, bidVals, encodeVal,
    List.map_cons, List.map_nil, List.flatten_cons, List.flatten_nil, List.append_nil,
    C03_type_strings.1, C03_type_strings.2.2.1, C03_domains.1, C03_domains.2.2.1, C03_domains.2.2.2.2.1,
    w _ hb.1 hb.2, w _ hs.1 hs.2, w _ he.1 he.2,
    C03_be32_nat amt hlt, List.append_assoc]

/-- **Commitment digest = EIP-712 digest**, covering the lowercase-hex renderings of the bid's
digest and signature. -/
theorem C03_commit_digest_is_eip712 (H : Bytes → Bytes) (b : Bid) (amt : Nat) (d s : Bytes)
    (hd : b.digest = some d) (hsg : b.signature = some s)
    (ha : parseBigInt b.amount = some (Int.ofNat amt)) (hamt : amt < 2 ^ 64)
    (hb : 0 ≤ b.blockNumber ∧ b.blockNumber < 2 ^ 63)
    (hs : 0 ≤ b.decayStart ∧ b.decayStart < 2 ^ 63)
    (he : 0 ≤ b.decayEnd ∧ b.decayEnd < 2 ^ 63) :
    getCommitHash H b = .ok (commitDigest H b.txHash amt b.blockNumber.toNat b.decayStart.toNat
      b.decayEnd.toNat d s) := by
  have hlt : amt < 2 ^ 256 := Nat.lt_of_lt_of_le hamt (Nat.pow_le_pow_right (by decide) (by decide))
  have hamt' : (Int.ofNat amt) < 2 ^ 256 := by
    have : ((amt : Nat) : Int) < ((2 ^ 256 : Nat) : Int) := Int.ofNat_lt.mpr hlt
    simpa using this
  have hpa : parseAmount b.amount = some (Int.ofNat amt) := by
    simp only [parseAmount, ha]
    rw [if_pos ⟨Int.natCast_nonneg amt, hamt'⟩]
  have w (x : Int) (h0 : 0 ≤ x) (h1 : x < 2 ^ 63) : be32 x = toBE 32 x.toNat :=
    C03_be32_int x h0 (Int.lt_of_lt_of_le h1 (by decide))
  unfold getCommitHash
  rw [hpa]
  simp only [commitDigest, digest, hashStruct, domainSeparator, commitStructData, bidVals, encodeVal,
    List.map_cons, List.map_nil, List.flatten_cons, List.flatten_nil, List.append_nil, List.map_append,
    List.cons_append, List.nil_append, hd, hsg, Option.getD_some,
    C03_type_strings.2.1, C03_type_strings.2.2.2, C03_domains.2.1, C03_domains.2.2.2.1, C03_domains.2.2.2.2.2.1,
    w _ hb.1 hb.2, w _ hs.1 hs.2, w _ he.1 he.2,
    C03_be32_nat amt hlt, List.append_assoc]

/-- **Signature form**: given the key signer's contract (65 bytes, v ∈ {0,1}) the emitted
signature is 65 bytes, r‖s unchanged, v ∈ {27,28}. -/
theorem C03_emitted_signature_form (rs : Bytes) (v : UInt8) (hl : rs.length = 64) (hv : v = 0 ∨ v = 1) :
    emitV (rs ++ [v]) = rs ++ [v + 27] ∧ sigFormOk (emitV (rs ++ [v])) = true := by
  have h1 : emitV (rs ++ [v]) = rs ++ [v + 27] := by
    simp [emitV, hv]
  refine ⟨h1, ?_⟩
  rw [h1]
  rcases hv with rfl | rfl <;> simp [sigFormOk, hl]

import MevCommit.Model.Wiring
import MevCommit.Model.Abi
import MevCommit.Lemmas.BE
open MevCommit MevCommit.Abi

theorem C07_word_length (n : Nat) : (word n).length = 32 := by simp [word]

theorem C07_dyn_length (b : Bytes) : (dyn b).length = dynSize b := by
  simp [dyn, dynSize, C07_word_length]; omega

/-- reading the i-th word when exactly i words precede it -/
theorem C07_wordAt (pre post : Bytes) (n i : Nat) (hpre : pre.length = 32 * i) (hn : n < 2 ^ 256) :
    wordAt (pre ++ (word n ++ post)) i = n := by
  unfold wordAt
  rw [List.drop_left' hpre, List.take_left' (C07_word_length n)]
  unfold word
  exact fromBE_toBE_of_lt 32 n (by rw [pow256_32]; exact hn)

/-- reading a dynamic value that starts exactly at the given offset -/
theorem C07_dynAt (pre post b : Bytes) (off : Nat) (hpre : pre.length = off) (hb : b.length < 2 ^ 256) :
    dynAt (pre ++ (dyn b ++ post)) off = some b := by
  unfold dynAt
  have hlen : (pre ++ (dyn b ++ post)).length = off + dynSize b + post.length := by
    simp [C07_dyn_length, hpre, Nat.add_assoc]
  have h1 : ¬ (pre ++ (dyn b ++ post)).length < off + 32 := by rw [hlen]; unfold dynSize; omega
  rw [if_neg h1]
  have hd : (pre ++ (dyn b ++ post)).drop off = dyn b ++ post := List.drop_left' hpre
  have hlw : ((pre ++ (dyn b ++ post)).drop off).take 32 = word b.length := by
    rw [hd]; unfold dyn
    rw [List.append_assoc, List.append_assoc, List.take_left' (C07_word_length _)]
  simp only [hlw]
  have hv : fromBE (word b.length) = b.length := by
    unfold word; exact fromBE_toBE_of_lt 32 _ (by rw [pow256_32]; exact hb)
  rw [hv]
  have h2 : ¬ (pre ++ (dyn b ++ post)).length < off + 32 + b.length := by rw [hlen]; unfold dynSize; omega
  rw [if_neg h2]
  have hd2 : (pre ++ (dyn b ++ post)).drop (off + 32) = b ++ (List.replicate (padLen b.length) 0 ++ post) := by
    have : pre ++ (dyn b ++ post) = (pre ++ word b.length) ++ (b ++ (List.replicate (padLen b.length) 0 ++ post)) := by
      unfold dyn; simp [List.append_assoc]
    rw [this]
    exact List.drop_left' (by simp [C07_word_length, hpre])
  rw [hd2, List.take_left' rfl]

/-- **ABI round trip** for all arguments: unbounded strings / byte strings, all 64-bit numbers. -/
theorem C07_decode_encode (a : Args)
    (h1 : a.bid < 2 ^ 64) (h2 : a.blockNumber < 2 ^ 64) (h3 : a.decayStart < 2 ^ 64) (h4 : a.decayEnd < 2 ^ 64)
    (hl : a.txnHash.length + a.bidSignature.length + a.commitmentSignature.length < 2 ^ 200) :
    decodeArgs (encodeArgs a) = some a := by
  have up : ∀ n, n < 2 ^ 64 → n < 2 ^ 256 := fun n h =>
    Nat.lt_of_lt_of_le h (Nat.pow_le_pow_right (by decide) (by decide))
  have big : (2:Nat) ^ 200 + 1000 < 2 ^ 256 := by decide
  obtain ⟨bid, blk, tx, ds, de, bs, cs⟩ := a
  simp only at h1 h2 h3 h4 hl
  -- name the pieces
  let o1 := headSize
  let o2 := o1 + dynSize tx
  let o3 := o2 + dynSize bs
  have hpad : ∀ n, padLen n < 32 := fun n => Nat.mod_lt _ (by decide)
  have ho1 : o1 < 2 ^ 256 := by show headSize < _; unfold headSize; decide
  have ho2 : o2 < 2 ^ 256 := by
    show headSize + dynSize tx < _
    unfold headSize dynSize; have := hpad tx.length; omega
  have ho3 : o3 < 2 ^ 256 := by
    show headSize + dynSize tx + dynSize bs < _
    unfold headSize dynSize; have := hpad tx.length; have := hpad bs.length; omega
  -- the encoded buffer, right-nested
  have hbuf : encodeArgs ⟨bid, blk, tx, ds, de, bs, cs⟩ =
      word bid ++ (word blk ++ (word o1 ++ (word ds ++ (word de ++ (word o2 ++ (word o3 ++
        (dyn tx ++ (dyn bs ++ (dyn cs ++ []))))))))) := by
    simp [encodeArgs, o1, o2, o3, List.append_assoc]
  rw [hbuf]
  unfold decodeArgs
  have hlen : ¬ (word bid ++ (word blk ++ (word o1 ++ (word ds ++ (word de ++ (word o2 ++ (word o3 ++
        (dyn tx ++ (dyn bs ++ (dyn cs ++ [])))))))))).length < headSize := by
    simp [C07_word_length, headSize]; omega
  rw [if_neg hlen]
  -- the seven head words
  have w0 := C07_wordAt [] (word blk ++ (word o1 ++ (word ds ++ (word de ++ (word o2 ++ (word o3 ++
        (dyn tx ++ (dyn bs ++ (dyn cs ++ []))))))))) bid 0 rfl (up _ h1)
  have w1 := C07_wordAt (word bid) (word o1 ++ (word ds ++ (word de ++ (word o2 ++ (word o3 ++
        (dyn tx ++ (dyn bs ++ (dyn cs ++ [])))))))) blk 1 (by simp [C07_word_length]) (up _ h2)
  have w2 := C07_wordAt (word bid ++ word blk) (word ds ++ (word de ++ (word o2 ++ (word o3 ++
        (dyn tx ++ (dyn bs ++ (dyn cs ++ []))))))) o1 2 (by simp [C07_word_length]) ho1
  have w3 := C07_wordAt (word bid ++ word blk ++ word o1) (word de ++ (word o2 ++ (word o3 ++
        (dyn tx ++ (dyn bs ++ (dyn cs ++ [])))))) ds 3 (by simp [C07_word_length]) (up _ h3)
  have w4 := C07_wordAt (word bid ++ word blk ++ word o1 ++ word ds) (word o2 ++ (word o3 ++
        (dyn tx ++ (dyn bs ++ (dyn cs ++ []))))) de 4 (by simp [C07_word_length]) (up _ h4)
  have w5 := C07_wordAt (word bid ++ word blk ++ word o1 ++ word ds ++ word de) (word o3 ++
        (dyn tx ++ (dyn bs ++ (dyn cs ++ [])))) o2 5 (by simp [C07_word_length]) ho2
  have w6 := C07_wordAt (word bid ++ word blk ++ word o1 ++ word ds ++ word de ++ word o2)
        (dyn tx ++ (dyn bs ++ (dyn cs ++ []))) o3 6 (by simp [C07_word_length]) ho3
  simp only [List.nil_append, List.append_assoc] at w0 w1 w2 w3 w4 w5 w6
  rw [w0, w1, w2, w3, w4, w5, w6]
  -- the three dynamic values
  have d1 := C07_dynAt (word bid ++ word blk ++ word o1 ++ word ds ++ word de ++ word o2 ++ word o3)
        (dyn bs ++ (dyn cs ++ [])) tx o1 (by simp [C07_word_length, o1, headSize]) (by omega)
  have d2 := C07_dynAt (word bid ++ word blk ++ word o1 ++ word ds ++ word de ++ word o2 ++ word o3 ++ dyn tx)
        (dyn cs ++ []) bs o2 (by simp [C07_word_length, C07_dyn_length, o2, o1, headSize]; omega) (by omega)
  have d3 := C07_dynAt (word bid ++ word blk ++ word o1 ++ word ds ++ word de ++ word o2 ++ word o3 ++ dyn tx ++ dyn bs)
        [] cs o3 (by simp [C07_word_length, C07_dyn_length, o3, o2, o1, headSize]; omega) (by omega)
  simp only [List.append_assoc] at d1 d2 d3
  rw [d1, d2, d3]

theorem C07_call_roundtrip (sel : Bytes) (hs : sel.length = 4) (a : Args)
    (h1 : a.bid < 2 ^ 64) (h2 : a.blockNumber < 2 ^ 64) (h3 : a.decayStart < 2 ^ 64) (h4 : a.decayEnd < 2 ^ 64)
    (hl : a.txnHash.length + a.bidSignature.length + a.commitmentSignature.length < 2 ^ 200) :
    decodeCall (encodeCall sel a) = some (sel, a) := by
  unfold decodeCall encodeCall
  have : ¬ (sel ++ encodeArgs a).length < 4 := by simp [hs]
  rw [if_neg this, List.drop_left' hs, List.take_left' hs, C07_decode_encode a h1 h2 h3 h4 hl]
  rfl

/-- in the validated domain the 64-bit conversions are the identity -/
theorem C07_low64_id (x : Int) (h0 : 0 ≤ x) (h : x < 2 ^ 64) : low64 x = x.toNat := by
  unfold low64
  rw [Int.emod_eq_of_lt h0 h]

/-- **The settlement transaction carries exactly the commitment's fields**: for every bid in the
validated domain (amount in [1,2^64), block number and timestamps in [1,2^63)), decoding the
calldata built from the commitment yields its amount, block number, transaction-hash string,
decay window, bid signature and commitment signature, field by field. -/
theorem C07_calldata_is_commitment (sel : Bytes) (hs : sel.length = 4)
    (amount blk ds de : Int) (tx bidSig commitSig : Bytes)
    (ha : 1 ≤ amount ∧ amount < 2 ^ 64) (hb : 1 ≤ blk ∧ blk < 2 ^ 63)
    (hds : 1 ≤ ds ∧ ds < 2 ^ 63) (hde : 1 ≤ de ∧ de < 2 ^ 63)
    (hl : tx.length + bidSig.length + commitSig.length < 2 ^ 200) :
    decodeCall (encodeCall sel (argsOfCommitment amount blk ds de tx bidSig commitSig)) =
      some (sel, ⟨amount.toNat, blk.toNat, tx, ds.toNat, de.toNat, bidSig, commitSig⟩) := by
  have e1 := C07_low64_id amount (by omega) ha.2
  have e2 := C07_low64_id blk (by omega) (by omega)
  have e3 := C07_low64_id ds (by omega) (by omega)
  have e4 := C07_low64_id de (by omega) (by omega)
  have b (x : Int) (h0 : 0 ≤ x) (h : x < 2 ^ 64) : x.toNat < 2 ^ 64 := by
    have : (x.toNat : Int) < ((2 ^ 64 : Nat) : Int) := by rw [Int.toNat_of_nonneg h0]; simpa using h
    exact_mod_cast this
  unfold argsOfCommitment
  rw [e1, e2, e3, e4]
  exact C07_call_roundtrip sel hs _ (b _ (by omega) ha.2) (b _ (by omega) (by omega))
    (b _ (by omega) (by omega)) (b _ (by omega) (by omega)) hl

/-! ### Whole-node wiring (pkg/node.NewNode), tied by the `nodewire` harness -/
section Wiring
open MevCommit.Wiring

/-- as NewNode wires the node, every commitment transaction goes to the configured commitment
store, whatever the chain says about stake and allowance -/
theorem C07_wire_commit_tx_at_configured_store (wd : World) :
    ∀ t ∈ (scenario nodeWire wd).commitTxsAt, t = Target.preconf := by
  cases wd with
  | mk s a f e => cases s <;> cases a <;> cases f <;> cases e <;> decide

/-- for every wiring: as many commitments reach the bidder as commitment transactions were sent -/
theorem C07_wire_commitments_eq_txs (w : Wire) (wd : World) :
    (scenario w wd).commitments = (scenario w wd).commitTxsAt.length := by
  simp only [scenario]
  split <;> rfl

/-- the node yields a commitment exactly when the provider is staked and the bidder funded at the
configured registries -/
theorem C07_wire_commitment_iff (wd : World) :
    (scenario nodeWire wd).commitments = 1 ↔
      (wd.staked = true ∧ wd.allowed = true ∧ wd.wellFormed = true ∧ wd.engineAccepts = true) := by
  cases wd with
  | mk s a f e => cases s <;> cases a <;> cases f <;> cases e <;> decide

end Wiring

import MevCommit.Model.BidderApi
import MevCommit.Lemmas.Split
import MevCommit.Lemmas.Decimal
open MevCommit MevCommit.BidderApi

/-- **Acceptance = the published well-formedness**: non-empty list of 64-hex-digit hashes, amount
a decimal integer in [1, 2^64), positive block number and decay timestamps. -/
theorem C19_accept_iff (r : Req) :
    accept r = true ↔
      (r.txHashes ≠ [] ∧ ∀ h ∈ r.txHashes, h.length = 64 ∧ ∀ c ∈ h, isHexChar c = true) ∧
      (∃ v, parseDec r.amount = some v ∧ 0 < v ∧ v < 2 ^ 64) ∧
      0 < r.blockNumber ∧ 0 < r.decayStart ∧ 0 < r.decayEnd := by
  unfold accept validAmount validPos
  cases hp : parseDec r.amount with
  | none => simp
  | some v =>
    simp only [Bool.and_eq_true, List.all_eq_true, Bool.not_eq_true', List.isEmpty_eq_false_iff,
      decide_eq_true_eq, validHash, beq_iff_eq, Option.some.injEq, exists_eq_left']
    constructor
    · intro h
      obtain ⟨⟨⟨⟨⟨hall, hne⟩, hv⟩, hb⟩, hs⟩, he⟩ := h
      exact ⟨⟨hne, hall⟩, hv, hb, hs, he⟩
    · intro h
      obtain ⟨⟨hne, hall⟩, hv, hb, hs, he⟩ := h
      exact ⟨⟨⟨⟨⟨hall, hne⟩, hv⟩, hb⟩, hs⟩, he⟩

theorem C19_rejected_nothing_sent (r : Req) (h : accept r = false) : forwarded r = none := by
  simp [forwarded, h]

theorem C19_hex_has_no_comma (h : Bytes) (hv : validHash h = true) : (44 : UInt8) ∉ h := by
  intro hm
  simp only [validHash, Bool.and_eq_true, List.all_eq_true] at hv
  have := hv.2 44 hm
  simp [isHexChar] at this

/-- join then split on ',' gives the list back when no element contains ',' -/
theorem C19_split_join (hs : List Bytes) (hne : hs ≠ []) (hc : ∀ h ∈ hs, (44 : UInt8) ∉ h) :
    Semver.splitOn 44 (joinComma hs) = hs := by
  induction hs with
  | nil => exact absurd rfl hne
  | cons x rest ih =>
    cases rest with
    | nil => simpa [joinComma] using Semver.splitOn_no_sep 44 x (hc x (by simp))
    | cons y rest' =>
      rw [joinComma, Semver.splitOn_append_sep 44 x _ (hc x (by simp))]
      rw [ih (by simp) (fun h hh => hc h (by simp [hh]))]

/-- **Verbatim forwarding**: for every accepted request the sender receives the request's own
values, and the joined hash string splits back into exactly the request's hashes, in order. -/
theorem C19_forwarded_verbatim (r : Req) (h : accept r = true) :
    ∃ f, forwarded r = some f ∧ Semver.splitOn 44 f.txHash = r.txHashes ∧ f.amount = r.amount ∧
      f.blockNumber = r.blockNumber ∧ f.decayStart = r.decayStart ∧ f.decayEnd = r.decayEnd := by
  refine ⟨⟨joinComma r.txHashes, r.amount, r.blockNumber, r.decayStart, r.decayEnd⟩,
    by simp [forwarded, h], ?_, rfl, rfl, rfl, rfl⟩
  have ha := (C19_accept_iff r).mp h
  have hall : ∀ x ∈ r.txHashes, validHash x = true := by
    intro x hx
    have := ha.1.2 x hx
    simp [validHash, this.1, List.all_eq_true]
    exact this.2
  exact C19_split_join r.txHashes ha.1.1 (fun x hx => C19_hex_has_no_comma x (hall x hx))

/-- amounts at the boundary: 2^64 − 1 accepted, 2^64 rejected, zero rejected, signs rejected -/
theorem C19_amount_boundaries :
    validAmount (showDec (2 ^ 64 - 1)) = true ∧ validAmount (showDec (2 ^ 64)) = false ∧
    validAmount (showDec 0) = false ∧ validAmount (43 :: showDec 5) = false ∧
    validAmount (45 :: showDec 5) = false ∧ validAmount [] = false := by
  refine ⟨?_, ?_, ?_, ?_, ?_, ?_⟩
  · simp [validAmount, parseDec_showDec]
  · simp [validAmount, parseDec_showDec]
  · simp [validAmount, parseDec_showDec]
  · simp [validAmount, parseDec, isDigit]
  · simp [validAmount, parseDec, isDigit]
  · simp [validAmount, parseDec]

/-- **Every call answers for its own request, whatever came before.**  In a session of any length
through the one service, the k-th call forwards the k-th request's own values (or nothing, when
that request is malformed) and streams that call's commitments — a refused hand-over, a rejected
request or a large bundle earlier in the session leaves no trace in it. -/
theorem C19_session_call_is_its_own (pre post : List (Req × Net)) (r : Req) (n : Net) :
    (session (pre ++ (r, n) :: post))[pre.length]? = some (handle1 r n) := by
  simp [session]

/-- a hand-over the network layer refuses: the request's own values were offered once, nothing is
streamed, and the caller is told (Internal), for accepted requests only -/
theorem C19_refused_handover (r : Req) (h : accept r = true) :
    handle1 r .fails =
      ⟨.internal, [⟨joinComma r.txHashes, r.amount, r.blockNumber, r.decayStart, r.decayEnd⟩], []⟩ := by
  simp [handle1, forwarded, h]

/-- a malformed request reaches the network layer in no session position -/
theorem C19_session_malformed_never_forwarded (xs : List (Req × Net)) (o : Out) (k : Nat)
    (hk : (session xs)[k]? = some o) (r : Req) (n : Net) (hx : xs[k]? = some (r, n))
    (hbad : accept r = false) : o.forwarded = [] ∧ o.streamed = [] ∧ o.status = .invalid := by
  simp [session, hx] at hk
  subst hk
  simp [handle1, forwarded, hbad]

import MevCommit.Model.Identity
import MevCommit.Lemmas.BE
open MevCommit MevCommit.Identity

theorem C18_fromBE_natBytes (n : Nat) : fromBE (natBytes n) = n := by
  induction n using Nat.strongRecOn with
  | _ n ih =>
    unfold natBytes
    split
    · rename_i h; simp [fromBE, h]
    · rename_i h
      rw [fromBE_append_single, ih (n / 256) (by omega), UInt8.toNat_ofNat']
      have : (2:Nat) ^ 8 = 256 := by decide
      omega

theorem C18_natBytes_length (n k : Nat) (h : n < 256 ^ k) : (natBytes n).length ≤ k := by
  induction k generalizing n with
  | zero =>
    have : n = 0 := by simpa using h
    subst this; unfold natBytes; simp
  | succ k ih =>
    unfold natBytes
    split
    · simp
    · have : n / 256 < 256 ^ k := by
        rw [Nat.pow_succ] at h
        exact Nat.div_lt_of_lt_mul (by rw [Nat.mul_comm]; exact h)
      have := ih (n / 256) this
      simp only [List.length_append, List.length_singleton]
      omega

theorem C18_fromBE_zeros (k : Nat) (bs : Bytes) : fromBE (List.replicate k 0 ++ bs) = fromBE bs := by
  induction k with
  | zero => simp
  | succ k ih =>
    rw [List.replicate_succ, List.cons_append]
    unfold fromBE at *
    simpa using ih

/-- **Padding**: for every scalar below 2^256 — in particular for every count of leading zero
bytes — the padded key has exactly 32 bytes and denotes the same scalar. -/
theorem C18_pad32 (d : Nat) (h : d < 2 ^ 256) :
    (pad32 d).length = 32 ∧ fromBE (pad32 d) = d := by
  have hl := C18_natBytes_length d 32 (by rw [pow256_32]; exact h)
  unfold pad32
  by_cases hlt : (natBytes d).length < 32
  · simp only [hlt, ite_true]
    refine ⟨by simp; omega, ?_⟩
    rw [C18_fromBE_zeros, C18_fromBE_natBytes]
  · simp only [hlt, ite_false]
    exact ⟨by omega, C18_fromBE_natBytes d⟩

/-- **Peer identity round trip**: the key extracted from a secp256k1 identity id is the key it
was built from. -/
theorem C18_extract_peerId (pk : Bytes) (h : pk.length = 33) : extractKey (peerId pk) = some pk := by
  simp [peerId, keyProto, extractKey, h]

/-- **Coherence**: for every key d ∈ [1, n−1] ⊂ [0, 2^256), the address derived from the node's
transport identity equals the address of the key's public point — given the curve's
compress/decompress round trip on that point. -/
theorem C18_identity_coherent (H : Bytes → Bytes) (C : Curve) (d : Nat) (h : d < 2 ^ 256)
    (hlen : (C.compress (C.pubOf d)).length = 33)
    (hrt : C.decompress (C.compress (C.pubOf d)) = some (C.pubOf d)) :
    ethAddrFromPeerId H C (nodePeerId C d) = some (addrOfPub H (C.pubOf d)) := by
  unfold nodePeerId ethAddrFromPeerId
  rw [(C18_pad32 d h).2, C18_extract_peerId _ hlen]
  simp [hrt]

/-- without the padding the scalar would still be right, but libp2p rejects keys that are not
32 bytes; with right-padding the scalar changes: witness with one leading zero byte -/
theorem C18_right_pad_is_wrong :
    fromBE (natBytes (2 ^ 247) ++ List.replicate 1 0) ≠ 2 ^ 247 := by
  rw [show natBytes (2 ^ 247) ++ List.replicate 1 0 = natBytes (2 ^ 247) ++ [0] from rfl,
    fromBE_append_single, C18_fromBE_natBytes]
  decide

import MevCommit.Model.Handshake
open MevCommit MevCommit.Handshake

/-- `verifyReq` succeeds exactly when the signature over role‖token verifies, to the address of
the authenticated transport identity, and — for the role string "provider" — the registry
confirmed that address; the registry is consulted only after the signature and address checks
passed, and at most once. -/
theorem C04_verifyReq_ok_iff (e : Env) (r : Req) (a : Bytes) (n : Nat) :
    verifyReq e r = (.inl a, n) ↔
      e.verify r.sig (r.role ++ r.token) = some (true, a) ∧ e.addrOfPeer = some a ∧
      ((r.role = Extracted.roleProvider ∧ e.registered a = true ∧ n = 1) ∨
       (r.role ≠ Extracted.roleProvider ∧ n = 0)) := by
  unfold verifyReq
  cases hv : e.verify r.sig (r.role ++ r.token) with
  | none =>
    constructor
    · intro h; injection h with h1 _; cases h1
    · rintro ⟨h1, _⟩; cases h1
  | some p =>
    obtain ⟨ok, addr⟩ := p
    cases ok with
    | false =>
      constructor
      · intro h; injection h with h1 _; cases h1
      · rintro ⟨h1, _⟩; injection h1 with h1; injection h1 with h1 _; cases h1
    | true =>
      cases hp : e.addrOfPeer with
      | none =>
        constructor
        · intro h; injection h with h1 _; cases h1
        · rintro ⟨_, h2, _⟩; cases h2
      | some obs =>
        simp only
        by_cases hne : obs = addr
        · subst hne
          rw [if_neg (fun h => h rfl)]
          by_cases hr : r.role = Extracted.roleProvider
          · rw [if_pos hr]
            by_cases hreg : e.registered obs = true
            · rw [if_pos hreg]
              constructor
              · intro h
                injection h with h1 h2
                injection h1 with h1
                subst h1; subst h2
                exact ⟨rfl, rfl, Or.inl ⟨hr, hreg, rfl⟩⟩
              · rintro ⟨h1, _, h3⟩
                injection h1 with h1
                injection h1 with _ h1
                subst h1
                rcases h3 with ⟨_, _, hn⟩ | ⟨hc, _⟩
                · rw [hn]
                · exact absurd hr hc
            · rw [if_neg hreg]
              constructor
              · intro h; injection h with h1 _; cases h1
              · rintro ⟨h1, _, h3⟩
                injection h1 with h1
                injection h1 with _ h1
                subst h1
                rcases h3 with ⟨_, h, _⟩ | ⟨hc, _⟩
                · exact absurd h hreg
                · exact absurd hr hc
          · rw [if_neg hr]
            constructor
            · intro h
              injection h with h1 h2
              injection h1 with h1
              subst h1; subst h2
              exact ⟨rfl, rfl, Or.inr ⟨hr, rfl⟩⟩
            · rintro ⟨h1, _, h3⟩
              injection h1 with h1
              injection h1 with _ h1
              subst h1
              rcases h3 with ⟨hc, _⟩ | ⟨_, hn⟩
              · exact absurd hc hr
              · rw [hn]
        · rw [if_pos hne]
          constructor
          · intro h; injection h with h1 _; cases h1
          · rintro ⟨h1, h2, _⟩
            injection h1 with h1
            injection h1 with _ h1
            injection h2 with h2
            exact absurd (h2.trans h1.symm) hne

/-- **Responder admission**: a remote is admitted with address A and role T only if its first
frame was a request whose signature over exactly its claimed role‖token verifies to A, A is the
address of the authenticated transport identity, a provider claim was confirmed by the registry
in this handshake, and its second frame echoed the local node's own address and role. -/
theorem C04_handle_admits_only_proven (e : Env) (tok sg : Bytes) (remote : List Frame) (a : Bytes) (t : Role)
    (n : Nat) (w : List Frame) (h : handle e tok sg remote = ⟨.admitted a t, n, w⟩) :
    ∃ r ack rest, remote = .req r :: .resp ack :: rest ∧
      e.verify r.sig (r.role ++ r.token) = some (true, a) ∧ e.addrOfPeer = some a ∧
      (r.role = Extracted.roleProvider → e.registered a = true) ∧
      t = roleOf r.role ∧ ack.observed = e.ownAddr ∧ ack.role = e.ownRole ∧ n ≤ 1 := by
  unfold handle at h
  cases remote with
  | nil => simp at h
  | cons f rest =>
    cases f with
    | resp _ => simp at h
    | bad => simp at h
    | req r =>
      simp only at h
      cases hv : verifyReq e r with
      | mk res k =>
        cases res with
        | inr why => simp [hv] at h
        | inl addr =>
          simp only [hv] at h
          by_cases h0 : e.writeOk 0 = true
          · by_cases h1 : e.writeOk 1 = true
            · simp only [h0, h1, Bool.not_true, Bool.false_eq_true, ite_false] at h
              cases rest with
              | nil => simp at h
              | cons g rest' =>
                cases g with
                | req _ => simp at h
                | bad => simp at h
                | resp ack =>
                  simp only at h
                  by_cases hr : verifyResp e ack = true
                  · simp only [hr, ite_true, Obs.mk.injEq, Outcome.admitted.injEq] at h
                    obtain ⟨⟨rfl, rfl⟩, rfl, _⟩ := h
                    have := (C04_verifyReq_ok_iff e r addr k).mp hv
                    simp only [verifyResp, decide_eq_true_eq] at hr
                    refine ⟨r, ack, rest', rfl, this.1, this.2.1, ?_, rfl, hr.1, hr.2, ?_⟩
                    · intro hp
                      rcases this.2.2 with ⟨_, hreg, _⟩ | ⟨hc, _⟩
                      · exact hreg
                      · exact absurd hp hc
                    · rcases this.2.2 with ⟨_, _, hn⟩ | ⟨_, hn⟩ <;> omega
                  · simp [hr] at h
            · simp [h0, h1] at h
          · simp [h0] at h

/-- **Initiator admission**: the responder must first echo the initiator's own address and role,
then present a request that passes the same checks. -/
theorem C04_handshake_admits_only_proven (e : Env) (tok sg : Bytes) (remote : List Frame) (a : Bytes) (t : Role)
    (n : Nat) (w : List Frame) (h : handshake e tok sg remote = ⟨.admitted a t, n, w⟩) :
    ∃ echo r rest, remote = .resp echo :: .req r :: rest ∧
      echo.observed = e.ownAddr ∧ echo.role = e.ownRole ∧
      e.verify r.sig (r.role ++ r.token) = some (true, a) ∧ e.addrOfPeer = some a ∧
      (r.role = Extracted.roleProvider → e.registered a = true) ∧ t = roleOf r.role ∧ n ≤ 1 := by
  unfold handshake at h
  by_cases h0 : e.writeOk 0 = true
  · simp only [h0, Bool.not_true, Bool.false_eq_true, ite_false] at h
    cases remote with
    | nil => simp at h
    | cons f rest =>
      cases f with
      | req _ => simp at h
      | bad => simp at h
      | resp echo =>
        simp only at h
        by_cases hr : verifyResp e echo = true
        · simp only [hr, Bool.not_true, Bool.false_eq_true, ite_false] at h
          cases rest with
          | nil => simp at h
          | cons g rest' =>
            cases g with
            | resp _ => simp at h
            | bad => simp at h
            | req r =>
              simp only at h
              cases hv : verifyReq e r with
              | mk res k =>
                cases res with
                | inr why => simp [hv] at h
                | inl addr =>
                  simp only [hv] at h
                  by_cases h1 : e.writeOk 1 = true
                  · simp only [h1, Bool.not_true, Bool.false_eq_true, ite_false, Obs.mk.injEq,
                      Outcome.admitted.injEq] at h
                    obtain ⟨⟨rfl, rfl⟩, rfl, _⟩ := h
                    have := (C04_verifyReq_ok_iff e r addr k).mp hv
                    simp only [verifyResp, decide_eq_true_eq] at hr
                    refine ⟨echo, r, rest', rfl, hr.1, hr.2, this.1, this.2.1, ?_, rfl, ?_⟩
                    · intro hp
                      rcases this.2.2 with ⟨_, hreg, _⟩ | ⟨hc, _⟩
                      · exact hreg
                      · exact absurd hp hc
                    · rcases this.2.2 with ⟨_, _, hn⟩ | ⟨_, hn⟩ <;> omega
                  · simp [h1] at h
        · simp [hr] at h
  · simp [h0] at h

/-- a peer is admitted *as provider* only through the exact role string the stake check keys on -/
theorem C04_provider_role_needs_stake (r : Bytes) (h : roleOf r = .provider) : r = Extracted.roleProvider := by
  have d1 : Extracted.roleBidder ≠ Extracted.roleBootnode := by decide
  have d2 : Extracted.roleBidder ≠ Extracted.roleProvider := by decide
  unfold roleOf at h
  by_cases h1 : r = Extracted.roleBootnode
  · rw [if_pos h1] at h; cases h
  · by_cases h2 : r = Extracted.roleProvider
    · exact h2
    · rw [if_neg h1, if_neg h2] at h
      by_cases h3 : r = Extracted.roleBidder
      · rw [if_pos h3] at h; cases h
      · rw [if_neg h3] at h; cases h

theorem C04_role_strings :
    Extracted.roleProvider = [112, 114, 111, 118, 105, 100, 101, 114] ∧
    Extracted.roleBidder = [98, 105, 100, 100, 101, 114] ∧
    Extracted.roleBootnode = [98, 111, 111, 116, 110, 111, 100, 101] := by decide

/-- **Registration and notification only after success**; refusals for signature / address
failures are blocked forever, stake failures for a limited time, other failures not at all -/
theorem C04_caller (inbound known : Bool) (o : Outcome) :
    ((caller inbound known o).registered.isSome ↔ ∃ a t, o = .admitted a t) ∧
    ((caller inbound known o).notified = true → ∃ a t, o = .admitted a t) ∧
    (∀ why, o = .refused why → (caller inbound known o).blocked = blockFor inbound why) := by
  cases o with
  | admitted a t => simp [caller]
  | refused why => simp [caller]

/-- non-vacuity: an honest bidder is admitted by a provider node -/
example :
    let e : Env := ⟨fun _ _ => some (true, [1, 2]), some [1, 2], fun _ => false, [9], Extracted.roleProvider, fun _ => true⟩
    (handle e [] [] [.req ⟨Extracted.roleBidder, [], []⟩, .resp ⟨[9], Extracted.roleProvider⟩]).outcome =
      .admitted [1, 2] .bidder := by decide

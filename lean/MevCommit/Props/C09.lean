import MevCommit.Model.Monitor
import MevCommit.Model.WatchLoop
/-
C09 — property theorems about the receipt monitor, for every sequence (every interleaving of
the atomic steps) of submissions, watch registrations, batch-element replies for any snapshot,
shutdown, drain and client observations.
-/
open MevCommit MevCommit.Monitor

structure C09_Inv (s : St) : Prop where
  /-- a waiter listed in a row is allocated, has no outcome yet and belongs to that row only -/
  row : ∀ n h w, w ∈ s.rows n h → w < s.nextId ∧ w ∉ deliveredIds s ∧ ∃ b, s.info w = some ⟨n, h, b⟩
  rowNodup : ∀ n h, (s.rows n h).Nodup
  /-- at most one outcome per waiter -/
  once : (deliveredIds s).Nodup
  alloc : ∀ w ∈ deliveredIds s, w < s.nextId
  noCrash : s.crashed = false
  /-- `closed` only after shutdown began -/
  closedAfter : (∃ w, (w, Outcome.closed) ∈ s.delivered) → s.shutdown = true
  /-- `cancelled` only for a waiter whose nonce is below the confirmed nonce of the snapshot that
      found no receipt for its hash -/
  cancelOk : ∀ w, (w, Outcome.cancelled) ∈ s.delivered → ∃ c i, (w, c) ∈ s.cancelProof ∧ s.info w = some i ∧ i.nonce < c
  /-- a receipt goes only to waiters of that very hash -/
  receiptOk : ∀ w hh st, (w, Outcome.receipt hh st) ∈ s.delivered → ∃ i, s.info w = some i ∧ i.hash = hh
  drainedEmpty : s.drained = true → s.shutdown = true ∧ ∀ n h, s.rows n h = []
  infoAlloc : ∀ w i, s.info w = some i → w < s.nextId
  pendingSub : ∀ p ∈ s.pending, p ∈ s.submitted
  /-- an entry is flagged cancelled only after a waiter of that hash was told `cancelled` -/
  lateOk : ∀ h ∈ s.cancelledSeen, ∃ w i, (w, Outcome.cancelled) ∈ s.delivered ∧ s.info w = some i ∧ i.hash = h

theorem C09_inv_init : C09_Inv init := by
  constructor <;> simp [init, deliveredIds]

theorem C09_deliveredIds_notify (s : St) (n h : Nat) (o : Outcome) (c : Nat) :
    deliveredIds (notify s n h o c) = deliveredIds s ++ s.rows n h := by
  simp only [deliveredIds, notify, List.map_append, List.map_map]
  congr 1
  induction s.rows n h with
  | nil => rfl
  | cons x xs ih => simp [ih]

/-- `notify` preserves the invariant, for a receipt of this hash, for `cancelled` under a
snapshot above the row's nonce, and for `closed` after shutdown began -/
theorem C09_notify_inv (s : St) (n h : Nat) (o : Outcome) (c : Nat) (hI : C09_Inv s)
    (ho : (o = .closed → s.shutdown = true) ∧ (o = .cancelled → n < c) ∧ (∀ hh st, o = .receipt hh st → hh = h)) :
    C09_Inv (notify s n h o c) := by
  have hids := C09_deliveredIds_notify s n h o c
  have hrow_info : ∀ w, w ∈ s.rows n h → ∃ b, s.info w = some ⟨n, h, b⟩ := fun w hw => (hI.row n h w hw).2.2
  refine ⟨?_, ?_, ?_, ?_, ?_, ?_, ?_, ?_, ?_, ?_, ?_, ?_⟩
  · -- row
    intro n' h' w hw
    by_cases hk : n' = n ∧ h' = h
    · simp [notify, setRow, hk] at hw
    · have hw' : w ∈ s.rows n' h' := by simpa [notify, setRow, hk] using hw
      obtain ⟨h1, h2, b, h3⟩ := hI.row n' h' w hw'
      refine ⟨h1, ?_, b, h3⟩
      rw [hids, List.mem_append, not_or]
      refine ⟨h2, ?_⟩
      intro hin
      obtain ⟨b', hb'⟩ := hrow_info w hin
      rw [h3] at hb'
      injection hb' with hb'
      injection hb' with e1 e2 _
      exact hk ⟨e1, e2⟩
  · intro n' h'
    by_cases hk : n' = n ∧ h' = h
    · simp [notify, setRow, hk]
    · simpa [notify, setRow, hk] using hI.rowNodup n' h'
  · rw [hids, List.nodup_append]
    refine ⟨hI.once, hI.rowNodup n h, ?_⟩
    intro a ha b hb hab
    subst hab
    exact (hI.row n h a hb).2.1 ha
  · intro w hw
    rw [hids, List.mem_append] at hw
    rcases hw with hw | hw
    · exact hI.alloc w hw
    · exact (hI.row n h w hw).1
  · -- no crash
    simp only [notify, hI.noCrash, Bool.false_or]
    rw [List.any_eq_false]
    intro w hw
    have := (hI.row n h w hw).2.1
    simpa using this
  · -- closed only after shutdown
    rintro ⟨w, hw⟩
    simp only [notify, List.mem_append, List.mem_map, Prod.mk.injEq] at hw ⊢
    rcases hw with hw | ⟨w', _, _, ho'⟩
    · exact hI.closedAfter ⟨w, hw⟩
    · exact ho.1 ho'
  · -- cancelled justified
    intro w hw
    simp only [notify, List.mem_append, List.mem_map, Prod.mk.injEq] at hw
    rcases hw with hw | ⟨w', hw', rfl, ho'⟩
    · obtain ⟨c', i, h1, h2, h3⟩ := hI.cancelOk w hw
      refine ⟨c', i, ?_, h2, h3⟩
      simp only [notify]
      split
      · exact List.mem_append_left _ h1
      · exact h1
    · obtain ⟨b, hb⟩ := hrow_info w' hw'
      refine ⟨c, ⟨n, h, b⟩, ?_, hb, ho.2.1 ho'⟩
      simp only [notify, ho', ite_true]
      exact List.mem_append_right _ (List.mem_map.mpr ⟨w', hw', rfl⟩)
  · -- receipts only to waiters of that hash
    intro w hh st hw
    simp only [notify, List.mem_append, List.mem_map, Prod.mk.injEq] at hw
    rcases hw with hw | ⟨w', hw', rfl, ho'⟩
    · exact hI.receiptOk w hh st hw
    · obtain ⟨b, hb⟩ := hrow_info w' hw'
      exact ⟨⟨n, h, b⟩, hb, (ho.2.2 hh st ho').symm⟩
  · intro hd
    have := hI.drainedEmpty hd
    refine ⟨this.1, ?_⟩
    intro n' h'
    by_cases hk : n' = n ∧ h' = h
    · simp [notify, setRow, hk]
    · simpa [notify, setRow, hk] using this.2 n' h'
  · exact hI.infoAlloc
  · exact hI.pendingSub
  · intro h' hh
    obtain ⟨w, i, h1, h2, h3⟩ := hI.lateOk h' hh
    exact ⟨w, i, by simp only [notify]; exact List.mem_append_left _ h1, h2, h3⟩

theorem C09_addWaiter_inv (s : St) (n h : Nat) (b : Bool) (hI : C09_Inv s) :
    C09_Inv (addWaiter s n h b).1 := by
  unfold addWaiter
  by_cases hs : s.shutdown = true
  · simpa [hs] using hI
  · simp only [hs, Bool.false_eq_true, ite_false]
    have hnot_drained : s.drained = false := by
      cases hd : s.drained with
      | false => rfl
      | true => exact absurd (hI.drainedEmpty hd).1 hs
    refine ⟨?_, ?_, hI.once, ?_, hI.noCrash, fun hc => (hs (hI.closedAfter hc)).elim, ?_, ?_, ?_, ?_, hI.pendingSub, ?_⟩
    · intro n' h' w hw
      by_cases hk : n' = n ∧ h' = h
      · obtain ⟨rfl, rfl⟩ := hk
        simp only [setRow, and_self, ite_true, List.mem_append, List.mem_singleton] at hw
        rcases hw with hw | rfl
        · obtain ⟨h1, h2, b', h3⟩ := hI.row _ _ w hw
          refine ⟨Nat.lt_succ_of_lt h1, h2, b', ?_⟩
          have : w ≠ s.nextId := Nat.ne_of_lt h1
          simp [this, h3]
        · refine ⟨Nat.lt_succ_self _, ?_, b, by simp⟩
          intro hin
          exact Nat.lt_irrefl _ (hI.alloc _ hin)
      · have hw' : w ∈ s.rows n' h' := by simpa [setRow, hk] using hw
        obtain ⟨h1, h2, b', h3⟩ := hI.row _ _ w hw'
        refine ⟨Nat.lt_succ_of_lt h1, h2, b', ?_⟩
        have : w ≠ s.nextId := Nat.ne_of_lt h1
        simp [this, h3]
    · intro n' h'
      by_cases hk : n' = n ∧ h' = h
      · obtain ⟨rfl, rfl⟩ := hk
        simp only [setRow, and_self, ite_true]
        rw [List.nodup_append]
        refine ⟨hI.rowNodup _ _, by simp, ?_⟩
        intro a ha b' hb hab
        simp only [List.mem_singleton] at hb
        subst hab; subst hb
        exact Nat.lt_irrefl _ (hI.row _ _ _ ha).1
      · simpa [setRow, hk] using hI.rowNodup n' h'
    · intro w hw; exact Nat.lt_succ_of_lt (hI.alloc w hw)
    · intro w hw
      obtain ⟨c, i, h1, h2, h3⟩ := hI.cancelOk w hw
      refine ⟨c, i, h1, ?_, h3⟩
      have : w ≠ s.nextId := Nat.ne_of_lt (hI.infoAlloc w i h2)
      simp [this, h2]
    · intro w hh st hw
      obtain ⟨i, h2, h3⟩ := hI.receiptOk w hh st hw
      refine ⟨i, ?_, h3⟩
      have : w ≠ s.nextId := Nat.ne_of_lt (hI.infoAlloc w i h2)
      simp [this, h2]
    · intro hd; simp [hnot_drained] at hd
    · intro w i hi
      by_cases hw : w = s.nextId
      · subst hw; exact Nat.lt_succ_self _
      · simp only [hw, ite_false] at hi
        exact Nat.lt_succ_of_lt (hI.infoAlloc w i hi)
    · intro h' hh
      obtain ⟨w, i, h1, h2, h3⟩ := hI.lateOk h' hh
      refine ⟨w, i, h1, ?_, h3⟩
      have : w ≠ s.nextId := Nat.ne_of_lt (hI.infoAlloc w i h2)
      simp [this, h2]

/-- draining = notifying `closed` row by row -/
theorem C09_drain_fold_inv (ks : List (Nat × Nat)) (s : St) (hI : C09_Inv s) (hs : s.shutdown = true) :
    C09_Inv (ks.foldl (fun st k => notify st k.1 k.2 .closed 0) s) ∧
    (ks.foldl (fun st k => notify st k.1 k.2 .closed 0) s).shutdown = true := by
  induction ks generalizing s with
  | nil => exact ⟨hI, hs⟩
  | cons k ks ih =>
    simp only [List.foldl_cons]
    apply ih
    · exact C09_notify_inv s k.1 k.2 .closed 0 hI ⟨fun _ => hs, (fun h => by cases h), (fun _ _ h => by cases h)⟩
    · simpa [notify] using hs

/-- **The invariant is preserved by every step.** -/
theorem C09_step_inv (s : St) (op : Op) (hI : C09_Inv s) : C09_Inv (step s op).1 := by
  cases op with
  | send n h =>
    simp only [step]
    apply C09_addWaiter_inv
    refine ⟨hI.row, hI.rowNodup, hI.once, hI.alloc, hI.noCrash, hI.closedAfter, hI.cancelOk, hI.receiptOk,
      hI.drainedEmpty, hI.infoAlloc, ?_, ?_⟩
    · intro p hp
      simp only [List.mem_cons] at hp ⊢
      rcases hp with hp | hp
      · exact Or.inl hp
      · exact Or.inr (hI.pendingSub p hp)
    · intro h' hh
      exact hI.lateOk h' (List.mem_filter.mp hh).1
  | watch n h =>
    simp only [step]
    split
    · exact hI
    · split
      · exact hI
      · exact C09_addWaiter_inv s n h false hI
  | reply c n h a =>
    simp only [step]
    by_cases hlt : n < c
    · simp only [hlt, not_true_eq_false, ite_false]
      cases a with
      | receipt st =>
        exact C09_notify_inv s n h _ c hI ⟨(fun h' => by cases h'), (fun h' => by cases h'),
          (fun hh st' h' => by injection h' with h1 _; exact h1.symm)⟩
      | notFound =>
        exact C09_notify_inv s n h _ c hI ⟨(fun h' => by cases h'), (fun _ => hlt), (fun _ _ h' => by cases h')⟩
      | otherErr => exact hI
      | empty => exact hI
    · simp only [hlt, not_false_eq_true, ite_true]; exact hI
  | beginShutdown =>
    simp only [step]
    exact ⟨hI.row, hI.rowNodup, hI.once, hI.alloc, hI.noCrash, fun _ => rfl, hI.cancelOk, hI.receiptOk,
      fun hd => ⟨rfl, (hI.drainedEmpty hd).2⟩, hI.infoAlloc, hI.pendingSub, hI.lateOk⟩
  | drain =>
    simp only [step]
    by_cases hs : s.shutdown = true
    · simp only [hs, Bool.not_true, Bool.false_eq_true, ite_false]
      obtain ⟨hJ, hsh⟩ := C09_drain_fold_inv s.keys s hI hs
      refine ⟨?_, ?_, hJ.once, hJ.alloc, hJ.noCrash, hJ.closedAfter, hJ.cancelOk, hJ.receiptOk, ?_, hJ.infoAlloc, hJ.pendingSub, hJ.lateOk⟩
      · intro n h w hw; simp at hw
      · intro n h; simp
      · intro _; exact ⟨hsh, fun _ _ => rfl⟩
    · simp only [Bool.not_eq_true] at hs
      simp only [hs, Bool.not_false, ite_true]; exact hI
  | abandon w => exact hI
  | observe w =>
    simp only [step]
    split
    · rename_i i a o hinfo hfind
      split
      · refine ⟨hI.row, hI.rowNodup, hI.once, hI.alloc, hI.noCrash, hI.closedAfter, hI.cancelOk, hI.receiptOk,
          hI.drainedEmpty, hI.infoAlloc, ?_, ?_⟩
        · intro p hp
          exact hI.pendingSub p (List.mem_filter.mp hp).1
        · intro h' hh
          by_cases ho : o = .cancelled
          · simp only [ho, ite_true, List.mem_cons] at hh
            rcases hh with rfl | hh
            · have hmem := List.mem_of_find?_eq_some hfind
              have ha : a = w := by simpa using List.find?_some hfind
              subst ha; subst ho
              exact ⟨a, i, hmem, hinfo, rfl⟩
            · exact hI.lateOk h' hh
          · simp only [ho, ite_false] at hh
            exact hI.lateOk h' hh
      · exact hI
    · exact hI

theorem C09_reachable (ops : List Op) (s : St) (hI : C09_Inv s) : C09_Inv (final s ops) := by
  induction ops generalizing s with
  | nil => exact hI
  | cons op ops ih => exact ih _ (C09_step_inv s op hI)

/-- **Exactly-once, safety half**: in every reachable state no waiter has two outcomes. -/
theorem C09_at_most_one_outcome (ops : List Op) : (deliveredIds (final init ops)).Nodup :=
  (C09_reachable ops init C09_inv_init).once

/-- **Never a crash**: no interleaving makes the monitor send on a closed channel. -/
theorem C09_never_crashes (ops : List Op) : (final init ops).crashed = false :=
  (C09_reachable ops init C09_inv_init).noCrash

/-- **Truthful outcomes**: a receipt only for the waiter's own hash; `cancelled` only when the
chain had no receipt for it under a snapshot whose confirmed nonce exceeds the transaction's
nonce; `closed` only after shutdown began. -/
theorem C09_truthful (ops : List Op) :
    let s := final init ops
    (∀ w hh st, (w, Outcome.receipt hh st) ∈ s.delivered → ∃ i, s.info w = some i ∧ i.hash = hh) ∧
    (∀ w, (w, Outcome.cancelled) ∈ s.delivered → ∃ c i, (w, c) ∈ s.cancelProof ∧ s.info w = some i ∧ i.nonce < c) ∧
    ((∃ w, (w, Outcome.closed) ∈ s.delivered) → s.shutdown = true) := by
  have hI := C09_reachable ops init C09_inv_init
  exact ⟨hI.receiptOk, hI.cancelOk, hI.closedAfter⟩

/-- a mined transaction is never reported cancelled: a reply carrying a receipt delivers that
receipt to every waiter of the row and to nobody else -/
theorem C09_receipt_reply (s : St) (c n h st : Nat) (hlt : n < c) :
    (step s (.reply c n h (.receipt st))).1.delivered = s.delivered ++ (s.rows n h).map (fun w => (w, .receipt h st)) := by
  simp [step, hlt, notify]

/-- **Exactly-once, liveness half (shutdown)**: after the drain no waiter is left waiting, and new
waiters are refused. -/
theorem C09_drain_leaves_nobody (ops : List Op) (hd : (final init ops).drained = true) :
    (∀ n h, (final init ops).rows n h = []) ∧
    ∀ n h, (step (final init ops) (.watch n h)).2 = .refused ∨
      (step (final init ops) (.watch n h)).2 = .lateCancelled ∨ (step (final init ops) (.watch n h)).2 = .unknownTx := by
  have hI := C09_reachable ops init C09_inv_init
  have := hI.drainedEmpty hd
  refine ⟨this.2, fun n h => ?_⟩
  simp only [step]
  split
  · exact Or.inr (Or.inl rfl)
  · split
    · exact Or.inr (Or.inr rfl)
    · exact Or.inl (by simp [addWaiter, this.1])

/-- **Liveness half (resolution)**: when a check answers for a row, every waiter of that row gets
its outcome in that very step and the row disappears. -/
theorem C09_reply_resolves_row (s : St) (c n h : Nat) (a : ChainAns) (hlt : n < c)
    (ha : a = .notFound ∨ ∃ st, a = .receipt st) :
    (step s (.reply c n h a)).1.rows n h = [] ∧
    ∀ w ∈ s.rows n h, w ∈ deliveredIds (step s (.reply c n h a)).1 := by
  rcases ha with rfl | ⟨st, rfl⟩ <;>
    simp [step, hlt, notify, setRow, deliveredIds, List.map_append, List.map_map] <;>
    intro w hw <;> exact Or.inr hw

/-- **Late callers are answered truthfully too**: `WaitForReceipt` answers "cancelled" at once only
for a hash one of whose waiters was told `cancelled` by a snapshot above its nonce; it never
registers a waiter in that case (nobody is left waiting). -/
theorem C09_late_cancelled_truthful (ops : List Op) (n h : Nat)
    (hl : (step (final init ops) (.watch n h)).2 = .lateCancelled) :
    let s := final init ops
    (∃ w c i, (w, Outcome.cancelled) ∈ s.delivered ∧ (w, c) ∈ s.cancelProof ∧ s.info w = some i ∧ i.hash = h ∧ i.nonce < c) ∧
    (step s (.watch n h)).1 = s := by
  have hI := C09_reachable ops init C09_inv_init
  intro s
  have hin : h ∈ s.cancelledSeen := by
    by_cases hc : s.cancelledSeen.contains h = true
    · simpa using hc
    · exfalso
      simp only [step] at hl
      rw [if_neg hc] at hl
      split at hl
      · cases hl
      · simp only [addWaiter] at hl
        split at hl <;> cases hl
  refine ⟨?_, ?_⟩
  · obtain ⟨w, i, h1, h2, h3⟩ := hI.lateOk h hin
    obtain ⟨c, i', h4, h5, h6⟩ := hI.cancelOk w h1
    rw [h2] at h5
    injection h5 with h5
    subst h5
    exact ⟨w, c, i, h1, h4, h2, h3, h6⟩
  · have hc : s.cancelledSeen.contains h = true := by simpa using hin
    simp only [step]
    rw [if_pos hc]

/-- a transaction the client still lists as pending can always be waited for (before shutdown):
the caller gets a waiter, never "tx not found" -/
theorem C09_pending_is_watchable (s : St) (n h : Nat) (hp : (h, n) ∈ s.pending)
    (hc : h ∉ s.cancelledSeen) (hs : s.shutdown = false) :
    ∃ id, (step s (.watch n h)).2 = .waiter id := by
  have h2 : s.pending.any (fun p => p.1 = h) = true := by
    rw [List.any_eq_true]; exact ⟨(h, n), hp, by simp⟩
  simp [step, hc, h2, addWaiter, hs]

/-- a party that stops waiting changes nothing for anybody else: the step is the identity on the
monitor's state (its channel is buffered, so the later delivery to it cannot block) -/
theorem C09_abandon_is_identity (s : St) (w : Nat) : (step s (.abandon w)).1 = s := rfl

/-- **Pending list**: never shows a transaction the node did not send -/
theorem C09_pending_subset_submitted (ops : List Op) : ∀ p ∈ (final init ops).pending, p ∈ (final init ops).submitted :=
  (C09_reachable ops init C09_inv_init).pendingSub

/-- resolved (mined or replaced) transactions leave the pending list once the client observed
the outcome -/
theorem C09_observe_removes (s : St) (w : Nat) (i : WInfo) (o : Outcome)
    (hi : s.info w = some i) (hint : i.internal = true)
    (hd : s.delivered.find? (fun d => d.1 = w) = some (w, o)) (ho : o ≠ .closed) :
    ∀ p ∈ (step s (.observe w)).1.pending, p.1 ≠ i.hash := by
  simp only [step, hi, hd, hint, ho, ne_eq, not_false_eq_true, and_self, ite_true]
  intro p hp
  simpa using (List.mem_filter.mp hp).2

theorem C09_range_filterMap_getElem (l : List α) (start k : Nat) (h : start + k ≤ l.length) :
    (List.range k).filterMap (fun i => l[start + i]?) = (l.drop start).take k := by
  induction k with
  | zero => simp
  | succ k ih =>
    rw [List.range_succ, List.filterMap_append, ih (by omega)]
    have hlt : start + k < l.length := by omega
    simp only [List.filterMap_cons, List.filterMap_nil, List.getElem?_eq_getElem hlt]
    rw [List.take_add_one]
    simp [List.getElem?_drop, List.getElem?_eq_getElem hlt]

theorem C09_batching_transparent_from (bs : Nat) (hbs : 0 < bs) (l : List α) (fuel start : Nat)
    (hf : l.length - start ≤ fuel) : checkOrder bs l start fuel = l.drop start := by
  induction fuel generalizing start with
  | zero =>
    have : l.length ≤ start := by omega
    simp [checkOrder, List.drop_eq_nil_of_le this]
  | succ fuel ih =>
    unfold checkOrder
    by_cases hs : start < l.length
    · simp only [hs, ite_true]
      have he : start + (min (start + bs) l.length - start) ≤ l.length := by omega
      rw [C09_range_filterMap_getElem l start _ he, ih (min (start + bs) l.length) (by omega)]
      have : min (start + bs) l.length = start + (min (start + bs) l.length - start) := by omega
      rw [this, ← List.drop_drop]
      have := List.take_append_drop (min (start + bs) l.length - start) (l.drop start)
      simpa using this
    · simp only [hs, ite_false]
      exact (List.drop_eq_nil_of_le (by omega)).symm

/-- **Batching is transparent**: whatever the batch size (> 0) and however many rows the snapshot
holds, the receipt check attributes exactly one result to every snapshot row, in order — in
particular with the shipped batch size. -/
theorem C09_batching_transparent (l : List α) :
    checkOrder Extracted.batchSize l 0 l.length = l := by
  have := C09_batching_transparent_from Extracted.batchSize (by decide) l l.length 0 (by omega)
  simpa using this

/-- the slip "index the snapshot without the batch offset" is not transparent -/
example : (List.range 3).filterMap (fun i => [10, 11, 12, 13, 14][0 + i]?) ++
    (List.range 2).filterMap (fun i => [10, 11, 12, 13, 14][0 + i]?) ≠ [10, 11, 12, 13, 14] := by decide

/-- non-vacuity: mined, replaced, watched twice, reply in flight after shutdown, drain -/
example : (run init [.send 1 11, .send 2 22, .watch 2 22, .reply 3 1 11 (.receipt 1), .observe 0,
    .reply 3 2 22 .notFound, .beginShutdown, .watch 5 55, .reply 9 2 22 (.receipt 1), .drain, .reply 9 1 11 .notFound]).length = 11 ∧
    (final init [.send 1 11, .send 2 22, .watch 2 22, .reply 3 1 11 (.receipt 1), .observe 0,
      .reply 3 2 22 .notFound]).delivered = [(0, .receipt 11 1), (1, .cancelled), (2, .cancelled)] ∧
    -- a late caller: the replaced tx answers "cancelled" at once, the mined one is unknown
    run init [.send 1 11, .send 2 22, .reply 3 1 11 (.receipt 1), .observe 0, .reply 3 2 22 .notFound, .observe 1,
      .watch 2 22, .watch 1 11] = [.waiter 0, .waiter 1, .none, .none, .none, .none, .lateCancelled, .unknownTx] := by
  decide

/-! ## The watch loop (`Model/WatchLoop`): what wakes the checker, and what never stops the loop -/

/-- **only shutdown stops the watch loop**: whatever the chain node answers — failed block or nonce
queries of any kind included — and however busy the checker is, the loop is alive after any
sequence of wake-ups that contains no shutdown (so nobody is told "monitor closed" and new waiters
keep being served) -/
theorem C09_watch_loop_stops_only_on_shutdown (es : List WatchLoop.Ev) (s : WatchLoop.St) (ha : s.alive = true)
    (hn : ∀ e ∈ es, e.w ≠ .shutdown) : (WatchLoop.run s es).alive = true := by
  induction es generalizing s with
  | nil => exact ha
  | cons e es ih =>
    apply ih
    · have := hn e List.mem_cons_self
      simp only [WatchLoop.step, ha]
      cases hw : e.w with
      | shutdown => exact absurd hw this
      | newTx => cases e.block <;> simp <;> (try split) <;> (try cases e.nonce) <;> simp_all
      | tick => cases e.block <;> simp <;> (try split) <;> (try cases e.nonce) <;> simp_all
    · intro e' he'; exact hn e' (List.mem_cons_of_mem _ he')

/-- a failed block-number query teaches nothing and changes nothing -/
theorem C09_failed_block_query_is_invisible (s : WatchLoop.St) (w : WatchLoop.Wake) (nonce : WatchLoop.Ans) (idle : Bool)
    (ha : s.alive = true) (hw : w ≠ .shutdown) : WatchLoop.step s w .err nonce idle = (s, .nothing) := by
  cases w <;> simp_all [WatchLoop.step]

/-- a failed confirmed-nonce query teaches nothing and changes nothing -/
theorem C09_failed_nonce_query_is_invisible (s : WatchLoop.St) (w : WatchLoop.Wake) (block : WatchLoop.Ans) (idle : Bool)
    (ha : s.alive = true) (hw : w ≠ .shutdown) : WatchLoop.step s w block .err idle = (s, .nothing) := by
  cases w <;> cases block <;> simp_all [WatchLoop.step] <;> split <;> rfl

/-- **progress**: a new block seen by an idle checker always leads to a check with the confirmed
nonce the node reports — unresolved transactions below it are asked about again, by the ticker
alone, nobody new having to start waiting -/
theorem C09_new_block_triggers_check (s : WatchLoop.St) (w : WatchLoop.Wake) (b k : Nat) (ha : s.alive = true)
    (hw : w ≠ .shutdown) (hb : s.lastBlock < b) :
    (WatchLoop.step s w (.ok b) (.ok k) true).2 = .check k b := by
  have hnb : ¬ b ≤ s.lastBlock := by omega
  cases w
  · exact absurd rfl hw
  · simp [WatchLoop.step, ha]
  · simp [WatchLoop.step, ha, hnb]

/-- … and a newly registered waiter triggers one whatever the block number is -/
theorem C09_new_waiter_triggers_check (s : WatchLoop.St) (b k : Nat) (ha : s.alive = true) :
    (WatchLoop.step s .newTx (.ok b) (.ok k) true).2 = .check k b := by
  simp [WatchLoop.step, ha]

/-- a check carries exactly the answers of this iteration's two queries -/
theorem C09_check_carries_this_rounds_answers (s : WatchLoop.St) (w : WatchLoop.Wake) (block nonce : WatchLoop.Ans) (idle : Bool) (k b : Nat)
    (h : (WatchLoop.step s w block nonce idle).2 = .check k b) : block = .ok b ∧ nonce = .ok k ∧ idle = true := by
  unfold WatchLoop.step at h
  split at h
  · simp at h
  · cases w <;> cases block <;> cases nonce <;> cases idle <;> simp at h <;> (try split at h) <;> simp_all

example : (WatchLoop.run WatchLoop.init [⟨.newTx, .ok 3, .ok 1, true⟩, ⟨.tick, .err, .ok 9, true⟩, ⟨.tick, .ok 4, .err, true⟩,
    ⟨.tick, .ok 5, .ok 2, false⟩]) = ⟨true, 5, 2⟩ := by decide


/-- a check that was due while the checker was busy is dropped, not lost for good: the next tick
that sees a still newer block with the checker idle hands over a check with the then-current
confirmed nonce (which covers everything the dropped one would have asked about) -/
theorem C09_dropped_check_is_made_up (s : WatchLoop.St) (w : WatchLoop.Wake) (b k b' k' : Nat)
    (ha : s.alive = true) (hw : w ≠ .shutdown) (hb : b < b')
    (hd : (WatchLoop.step s w (.ok b) (.ok k) false).2 = .dropped k b) :
    (WatchLoop.step (WatchLoop.step s w (.ok b) (.ok k) false).1 .tick (.ok b') (.ok k') true).2 = .check k' b' := by
  apply C09_new_block_triggers_check
  · cases w <;> simp [WatchLoop.step, ha] <;> (try split) <;> simp_all
  · decide
  · cases w
    · exact absurd rfl hw
    · simp [WatchLoop.step, ha]; omega
    · simp only [WatchLoop.step, ha] at hd ⊢
      by_cases hle : b ≤ s.lastBlock
      · simp [hle] at hd
      · simp [hle]; omega

/-- non-vacuity of the drop hypothesis -/
example : (WatchLoop.step ⟨true, 3, 0⟩ .tick (.ok 4) (.ok 2) false).2 = .dropped 2 4 := by decide

import MevCommit.Model.Cancel
import MevCommit.Spec.C10
open MevCommit MevCommit.Cancel

/-- the regenerated constants are the ones the property names -/
theorem C10_constants :
    Extracted.cancelBumpNum = 110 ∧ Extracted.cancelBumpDen = 100 ∧
    Extracted.cancelGas = 21000 ∧ Extracted.cancelValue = 0 := by decide

/-- **Exact caps** for every natural (no 64-bit bound): the tip is ⌊110·max(tip_o, tip_s)/100⌋
and the fee cap is max(price_o, feeCap_o) plus that tip. -/
theorem C10_exact_caps (e : Env) (t : TxCaps) (sugg : Nat) :
    (replacement e t sugg).tip = 110 * (max t.tip sugg) / 100 ∧
    (replacement e t sugg).feeCap = max t.gasPrice t.feeCap + 110 * (max t.tip sugg) / 100 := by
  unfold replacement bumpedTip
  simp only [C10_constants.1, C10_constants.2.1]
  constructor
  · by_cases h : sugg ≤ t.tip
    · simp [h, Nat.max_eq_left h, Nat.mul_comm]
    · simp [h, Nat.max_eq_right (Nat.le_of_not_le h), Nat.mul_comm]
  · have h1 : (if sugg ≤ t.tip then t.tip else sugg) = max t.tip sugg := by
      by_cases h : sugg ≤ t.tip
      · simp [h, Nat.max_eq_left h]
      · simp [h, Nat.max_eq_right (Nat.le_of_not_le h)]
    have h2 : (if t.gasPrice ≤ t.feeCap then t.feeCap else t.gasPrice) = max t.gasPrice t.feeCap := by
      by_cases h : t.gasPrice ≤ t.feeCap
      · simp [h, Nat.max_eq_right h]
      · simp [h, Nat.max_eq_left (Nat.le_of_not_le h)]
    simp only [h1, h2, Nat.mul_comm]

/-- the bumped tip outbids both the original and the suggested tip -/
theorem C10_tip_outbids (e : Env) (t : TxCaps) (sugg : Nat) :
    t.tip ≤ (replacement e t sugg).tip ∧ sugg ≤ (replacement e t sugg).tip := by
  rw [(C10_exact_caps e t sugg).1]
  have h1 : t.tip ≤ max t.tip sugg := Nat.le_max_left _ _
  have h2 : sugg ≤ max t.tip sugg := Nat.le_max_right _ _
  constructor <;> omega

/-- **The property holds of the model, for every environment.** -/
theorem C10_cancel_conforms (e : Env) : Spec.C10.ok e (cancelTx e) = true := by
  unfold Spec.C10.ok cancelTx
  cases hl : e.lookup with
  | error => simp
  | notFound => simp
  | mined t => simp
  | pending t =>
    cases hs : e.suggestTip with
    | none => simp
    | some sugg =>
      by_cases hsign : e.signOk
      · have hc := C10_exact_caps e t sugg
        simp only [hsign, Bool.not_true, Bool.false_eq_true, ite_false, List.length_singleton,
          Nat.le_refl, decide_true, List.all_cons, List.all_nil, Bool.and_true, Bool.true_and,
          BEq.rfl, ite_self]
        unfold Spec.C10.goodReplacement
        simp only [hs, hc.1, hc.2]
        simp [replacement, C10_constants]
        have : t.feeCap ≤ max t.gasPrice t.feeCap := Nat.le_max_right _ _
        omega
      · simp [hsign]

/-- refusal: anything but a pending target yields an error and no submission -/
theorem C10_refuses_non_pending (e : Env) (h : ∀ t, e.lookup ≠ .pending t) :
    (cancelTx e).ok = false ∧ (cancelTx e).submitted = [] := by
  unfold cancelTx
  cases hl : e.lookup with
  | pending t => exact absurd hl (h t)
  | _ => simp

/-- non-vacuity: a pending target with a >64-bit tip is replaced -/
example : (cancelTx ⟨.pending ⟨7, 2^70, 2^70, 2^65 + 99⟩, some 5, true, true, 1⟩).submitted.length = 1 := by
  decide

/-- what the chain node reports for a replacement this client submitted (a dynamic-fee
transaction: `GasPrice()` is its fee cap) -/
def C10_asLookedUp (r : Replacement) : TxCaps := ⟨r.nonce, r.feeCap, r.feeCap, r.tip⟩

/-- **Cancelling a cancellation.**  A replacement the client submitted earlier, still pending, is
cancelled like any other transaction: the second replacement re-uses the nonce, its tip is at
least 110 % of the first replacement's tip and of what the node suggests *now*, and its fee cap
covers the first replacement's fee cap plus the new tip — however many times this is repeated
(`C10_cancel_chain`). -/
theorem C10_cancel_of_cancellation (e1 e2 : Env) (t : TxCaps) (s1 s2 : Nat) :
    let r1 := replacement e1 t s1
    let r2 := replacement e2 (C10_asLookedUp r1) s2
    r2.nonce = t.nonce ∧ 110 * r1.tip / 100 ≤ r2.tip ∧ 110 * s2 / 100 ≤ r2.tip ∧
    r1.feeCap + r2.tip ≤ r2.feeCap ∧ r1.tip ≤ r2.tip := by
  intro r1 r2
  have hx := C10_exact_caps e2 (C10_asLookedUp r1) s2
  have hl : r1.tip ≤ max r1.tip s2 := Nat.le_max_left _ _
  have hr : s2 ≤ max r1.tip s2 := Nat.le_max_right _ _
  refine ⟨rfl, ?_, ?_, ?_, ?_⟩
  · show 110 * r1.tip / 100 ≤ (replacement e2 (C10_asLookedUp r1) s2).tip
    rw [hx.1]; simp only [C10_asLookedUp]
    exact Nat.div_le_div_right (Nat.mul_le_mul_left _ hl)
  · show 110 * s2 / 100 ≤ (replacement e2 (C10_asLookedUp r1) s2).tip
    rw [hx.1]; simp only [C10_asLookedUp]
    exact Nat.div_le_div_right (Nat.mul_le_mul_left _ hr)
  · show r1.feeCap + (replacement e2 (C10_asLookedUp r1) s2).tip ≤ (replacement e2 (C10_asLookedUp r1) s2).feeCap
    rw [hx.2, hx.1]; simp only [C10_asLookedUp, Nat.max_self]; exact Nat.le_refl _
  · show r1.tip ≤ (replacement e2 (C10_asLookedUp r1) s2).tip
    rw [hx.1]; simp only [C10_asLookedUp]; omega

/-- the k-th replacement in a chain of cancellations of cancellations -/
def C10_chain (e : Env) (t : TxCaps) : List Nat → TxCaps
  | [] => t
  | s :: ss => C10_chain e (C10_asLookedUp (replacement e t s)) ss

/-- along any chain of cancellations the nonce is the original's and tip and fee cap never go down -/
theorem C10_cancel_chain (e : Env) (t : TxCaps) (ss : List Nat) :
    (C10_chain e t ss).nonce = t.nonce ∧ t.tip ≤ (C10_chain e t ss).tip ∧
    t.feeCap ≤ (C10_chain e t ss).feeCap := by
  induction ss generalizing t with
  | nil => exact ⟨rfl, Nat.le_refl _, Nat.le_refl _⟩
  | cons s ss ih =>
    have h := ih (C10_asLookedUp (replacement e t s))
    have ht := (C10_tip_outbids e t s).1
    have hf := (C10_exact_caps e t s).2
    simp only [C10_chain]
    refine ⟨h.1.trans rfl, Nat.le_trans ht h.2.1, Nat.le_trans ?_ h.2.2⟩
    show t.feeCap ≤ (replacement e t s).feeCap
    rw [hf]
    have : t.feeCap ≤ max t.gasPrice t.feeCap := Nat.le_max_right _ _
    omega

example : (C10_chain ⟨.notFound, none, true, true, 1⟩ ⟨5, 100, 100, 10⟩ [10, 50, 3]).tip = 60 := by decide

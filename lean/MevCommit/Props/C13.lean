import MevCommit.Model.Framing
import MevCommit.Lemmas.BE
/-
C13 — property theorems: framing and envelope round trips, for payloads of every length up to
the frame limit, every status code/message, every sequence of writes.
-/
open MevCommit MevCommit.Framing

/-! ### varints -/

theorem C13_varint_roundtrip' (fuel n : Nat) (rest : Bytes) (h : n < 128 ^ (fuel + 1)) :
    decodeVarint (fuel + 1) (encodeVarint n ++ rest) = some (n, rest) := by
  induction fuel generalizing n with
  | zero =>
    have hn : n < 128 := by simpa using h
    unfold encodeVarint
    simp only [hn, ite_true, List.cons_append, List.nil_append, decodeVarint]
    have : (UInt8.ofNat n).toNat = n := by rw [UInt8.toNat_ofNat']; omega
    simp [this, hn]
  | succ fuel ih =>
    unfold encodeVarint
    by_cases hn : n < 128
    · simp only [hn, ite_true, List.cons_append, List.nil_append, decodeVarint]
      have : (UInt8.ofNat n).toNat = n := by rw [UInt8.toNat_ofNat']; omega
      simp [this, hn]
    · simp only [hn, ite_false, List.cons_append, decodeVarint]
      have hb : (UInt8.ofNat (n % 128 + 128)).toNat = n % 128 + 128 := by
        rw [UInt8.toNat_ofNat']; omega
      have hlt : n / 128 < 128 ^ (fuel + 1) := by
        rw [Nat.pow_succ] at h
        exact Nat.div_lt_of_lt_mul (by rw [Nat.mul_comm]; exact h)
      rw [hb, ih (n / 128) hlt]
      have : ¬ (n % 128 + 128 < 128) := by omega
      simp only [this, ite_false]
      congr 2
      omega

theorem C13_varint_roundtrip (n : Nat) (rest : Bytes) (h : n < 128 ^ varintMax) :
    decodeVarint varintMax (encodeVarint n ++ rest) = some (n, rest) :=
  C13_varint_roundtrip' 9 n rest h

theorem C13_encodeVarint_length (fuel n : Nat) (h : n < 128 ^ (fuel + 1)) :
    (encodeVarint n).length ≤ fuel + 1 := by
  induction fuel generalizing n with
  | zero =>
    have hn : n < 128 := by simpa using h
    unfold encodeVarint; simp [hn]
  | succ fuel ih =>
    unfold encodeVarint
    by_cases hn : n < 128
    · simp [hn]
    · simp only [hn, ite_false, List.length_cons]
      have hlt : n / 128 < 128 ^ (fuel + 1) := by
        rw [Nat.pow_succ] at h
        exact Nat.div_lt_of_lt_mul (by rw [Nat.mul_comm]; exact h)
      have := ih (n / 128) hlt
      omega

theorem C13_encodeVarint_ne_nil (n : Nat) : encodeVarint n ≠ [] := by
  unfold encodeVarint; split <;> simp

private theorem small_lt (n : Nat) (h : n < 2 ^ 64) : n < 128 ^ varintMax := by
  unfold varintMax
  have : (2:Nat) ^ 64 < 128 ^ 10 := by decide
  omega

/-! ### fields -/

theorem C13_parse_len_field (num : Nat) (b rest : Bytes) (hn : 0 < num) (hnum : num < 2 ^ 32)
    (hb : b.length < 2 ^ 64) :
    parseField (encodeLenField num b ++ rest) = some (.len num b, rest) := by
  unfold parseField encodeLenField
  rw [List.append_assoc, List.append_assoc,
    C13_varint_roundtrip (num * 8 + 2) _ (small_lt _ (by omega))]
  have h1 : (num * 8 + 2) / 8 = num := by omega
  have h2 : (num * 8 + 2) % 8 = 2 := by omega
  simp only [h1, h2]
  rw [if_neg (by omega), C13_varint_roundtrip b.length _ (small_lt _ hb)]
  simp

theorem C13_parse_varint_field (num v : Nat) (rest : Bytes) (hn : 0 < num) (hnum : num < 2 ^ 32)
    (hv : v < 2 ^ 64) :
    parseField (encodeVarintField num v ++ rest) = some (.varint num v, rest) := by
  unfold parseField encodeVarintField
  rw [List.append_assoc, C13_varint_roundtrip (num * 8) _ (small_lt _ (by omega))]
  have h1 : (num * 8) / 8 = num := by omega
  have h2 : (num * 8) % 8 = 0 := by omega
  simp only [h1, h2]
  rw [if_neg (by omega), C13_varint_roundtrip v _ (small_lt _ hv)]

private theorem lenField_length_pos (num : Nat) (b : Bytes) : 0 < (encodeLenField num b).length := by
  unfold encodeLenField
  have := C13_encodeVarint_ne_nil (num * 8 + 2)
  cases h : encodeVarint (num * 8 + 2) with
  | nil => exact absurd h this
  | cons x xs => simp

theorem C13_parseFields_step (fuel : Nat) (buf rest : Bytes) (f : Field) (hne : buf ≠ [])
    (h : parseField buf = some (f, rest)) :
    parseFields (fuel + 1) buf = (parseFields fuel rest).map (f :: ·) := by
  cases buf with
  | nil => exact absurd rfl hne
  | cons x xs =>
    simp only [parseFields, h]
    cases parseFields fuel rest <;> rfl

private theorem parseFields_single (f : Field) (enc : Bytes) (fuel : Nat) (hf : 0 < fuel) (hne : enc ≠ [])
    (h : parseField (enc ++ []) = some (f, [])) : parseFields fuel enc = some [f] := by
  cases fuel with
  | zero => omega
  | succ k =>
    rw [List.append_nil] at h
    rw [C13_parseFields_step k enc [] f hne h]
    cases k <;> simp [parseFields]

/-! ### the envelope -/

/-- **Data never reads as error**: a written message is read back as data with the same bytes -/
theorem C13_data_roundtrip (p : Bytes) (h : p.length < 2 ^ 64) :
    decodeStreamMsg (encodeData p) = some (.data p) := by
  unfold decodeStreamMsg encodeData
  have hp := C13_parse_len_field 1 p [] (by decide) (by decide) h
  have hne : encodeLenField 1 p ≠ [] := by
    intro hc; have := lenField_length_pos 1 p; rw [hc] at this; simp at this
  rw [parseFields_single _ _ _ (lenField_length_pos 1 p) hne hp]
  simp [bodyOfFields, isKnown]

theorem C13_status_roundtrip (st : Status) (hc : st.code < 2 ^ 31) (hm : st.message.length < 2 ^ 64) :
    (parseFields (encodeStatus st).length (encodeStatus st)).map statusOfFields = some st := by
  obtain ⟨code, msg⟩ := st
  simp only at hc hm
  unfold encodeStatus
  by_cases h0 : code = 0
  · by_cases hm0 : msg = []
    · subst h0; subst hm0; simp [parseFields, statusOfFields]
    · simp only [h0, ite_true, hm0, ite_false, List.nil_append]
      have hp := C13_parse_len_field 2 msg [] (by decide) (by decide) hm
      have hne : encodeLenField 2 msg ≠ [] := by
        intro hc'; have := lenField_length_pos 2 msg; rw [hc'] at this; simp at this
      rw [parseFields_single _ _ _ (lenField_length_pos 2 msg) hne hp]
      simp [statusOfFields, h0]
  · have hcf := C13_parse_varint_field 1 code
    have hvne : encodeVarintField 1 code ≠ [] := by
      unfold encodeVarintField
      intro hc'
      have := C13_encodeVarint_ne_nil (1 * 8)
      cases h : encodeVarint (1 * 8) with
      | nil => exact absurd h this
      | cons x xs => rw [h] at hc'; simp at hc'
    by_cases hm0 : msg = []
    · simp only [h0, ite_false, hm0, ite_true, List.append_nil]
      have hp := hcf [] (by decide) (by decide) (by omega)
      have hpos : 0 < (encodeVarintField 1 code).length := by
        cases h : encodeVarintField 1 code with
        | nil => exact absurd h hvne
        | cons x xs => simp
      rw [parseFields_single _ _ _ hpos hvne hp]
      simp only [Option.map_some, statusOfFields, List.foldl_cons, List.foldl_nil, Option.some.injEq,
        Status.mk.injEq, and_true]
      exact Nat.mod_eq_of_lt (by omega)
    · simp only [h0, ite_false, hm0]
      -- two fields: code then message
      have hp1 := hcf (encodeLenField 2 msg) (by decide) (by decide) (by omega)
      have hp2 := C13_parse_len_field 2 msg [] (by decide) (by decide) hm
      have hne2 : encodeLenField 2 msg ≠ [] := by
        intro hc'; have := lenField_length_pos 2 msg; rw [hc'] at this; simp at this
      have hlen : (encodeVarintField 1 code ++ encodeLenField 2 msg).length =
          ((encodeVarintField 1 code).length - 1 + (encodeLenField 2 msg).length) + 1 := by
        have hpos : 0 < (encodeVarintField 1 code).length := by
          cases h : encodeVarintField 1 code with
          | nil => exact absurd h hvne
          | cons x xs => simp
        simp only [List.length_append]; omega
      rw [hlen]
      have hne12 : encodeVarintField 1 code ++ encodeLenField 2 msg ≠ [] := by
        intro hc'
        have := congrArg List.length hc'
        simp only [List.length_append, List.length_nil] at this
        have := lenField_length_pos 2 msg
        omega
      rw [C13_parseFields_step _ _ _ _ hne12 hp1]
      have hfuel : 0 < (encodeVarintField 1 code).length - 1 + (encodeLenField 2 msg).length := by
        have := lenField_length_pos 2 msg; omega
      rw [parseFields_single _ _ _ hfuel hne2 hp2]
      simp only [Option.map_some, statusOfFields, List.foldl_cons, List.foldl_nil, Option.some.injEq,
        Status.mk.injEq, and_true]
      exact Nat.mod_eq_of_lt (by omega)

/-- **Errors never read as data**: a written status is read back as an error with the same
code and message -/
theorem C13_error_roundtrip (st : Status) (hc : st.code < 2 ^ 31) (hm : st.message.length < 2 ^ 32) :
    decodeStreamMsg (encodeError st) = some (.error st) := by
  unfold decodeStreamMsg encodeError
  have hsl : (encodeStatus st).length < 2 ^ 64 := by
    have v (n : Nat) (h : n < 2 ^ 64) : (encodeVarint n).length ≤ 10 :=
      C13_encodeVarint_length 9 n (small_lt n h)
    unfold encodeStatus encodeVarintField encodeLenField
    have a1 := v (1 * 8) (by decide)
    have a2 := v st.code (by omega)
    have a3 := v (2 * 8 + 2) (by decide)
    have a4 := v st.message.length (by omega)
    have : (2:Nat) ^ 32 + 100 < 2 ^ 64 := by decide
    split <;> split <;> simp only [List.length_append, List.length_nil, List.append_nil, List.nil_append] <;> omega
  have hp := C13_parse_len_field 2 (encodeStatus st) [] (by decide) (by decide) hsl
  have hne : encodeLenField 2 (encodeStatus st) ≠ [] := by
    intro hc'; have := lenField_length_pos 2 (encodeStatus st); rw [hc'] at this; simp at this
  rw [parseFields_single _ _ _ (lenField_length_pos 2 _) hne hp]
  have := C13_status_roundtrip st hc (by omega)
  simp only [bodyOfFields, isKnown, List.filter_cons, beq_self_eq_true, Bool.or_true, ite_true,
    List.filter_nil]
  cases hpf : parseFields (encodeStatus st).length (encodeStatus st) with
  | none => rw [hpf] at this; simp at this
  | some sf => rw [hpf] at this; simp only [Option.map_some, Option.some.injEq] at this; simp [this]

/-! ### frames and sequences -/

theorem C13_readFrame_frame (p rest : Bytes) (h : p.length ≤ maxFrame) :
    readFrame (frame p ++ rest) = some (some p, rest) := by
  unfold readFrame frame
  have hlen : ¬ (toBE 4 p.length ++ p ++ rest).length < 4 := by simp
  rw [if_neg hlen]
  have htake : (toBE 4 p.length ++ p ++ rest).take 4 = toBE 4 p.length := by
    rw [List.append_assoc, List.take_append_of_le_length (by simp)]
    exact List.take_of_length_le (by simp)
  have hdrop : (toBE 4 p.length ++ p ++ rest).drop 4 = p ++ rest := by
    rw [List.append_assoc, List.drop_append_of_le_length (by simp)]
    simp
  have hmax : maxFrame < 256 ^ 4 := by decide
  simp only [htake, hdrop, fromBE_toBE_of_lt 4 p.length (by omega)]
  rw [if_neg (by omega), if_neg (by simp)]
  simp

/-- an oversize length prefix is rejected -/
theorem C13_oversize_rejected (l : Nat) (rest : Bytes) (h1 : maxFrame < l) (h2 : l < 256 ^ 4) :
    readFrame (toBE 4 l ++ rest) = some (none, rest) := by
  unfold readFrame
  have hlen : ¬ (toBE 4 l ++ rest).length < 4 := by simp
  rw [if_neg hlen]
  have htake : (toBE 4 l ++ rest).take 4 = toBE 4 l := by
    rw [List.take_append_of_le_length (by simp)]
    exact List.take_of_length_le (by simp)
  have hdrop : (toBE 4 l ++ rest).drop 4 = rest := by
    rw [List.drop_append_of_le_length (by simp)]; simp
  simp only [htake, hdrop, fromBE_toBE_of_lt 4 l h2]
  rw [if_pos h1]

/-- the empty envelope (neither data nor error) is rejected -/
theorem C13_empty_envelope_rejected : interpret [] = .noData := by decide

/-- writes whose envelope fits a frame -/
def C13_WriteOk : Write → Prop
  | .msg p => p.length < 2 ^ 64 ∧ (encodeData p).length ≤ maxFrame
  | .error st => st.code < 2 ^ 31 ∧ st.message.length < 2 ^ 32 ∧ (encodeError st).length ≤ maxFrame

theorem C13_interpret_write (w : Write) (h : C13_WriteOk w) :
    ∃ env, encodeWrite w = frame env ∧ env.length ≤ maxFrame ∧ interpret env = expected w := by
  cases w with
  | msg p =>
    refine ⟨encodeData p, rfl, h.2, ?_⟩
    simp [interpret, C13_data_roundtrip p h.1, expected]
  | error st =>
    refine ⟨encodeError st, rfl, h.2.2, ?_⟩
    simp [interpret, C13_error_roundtrip st h.1 h.2.1, expected]

theorem C13_readAll_step (fuel : Nat) (s : Bytes) (hne : s ≠ []) :
    readAll (fuel + 1) s = match readFrame s with
      | none => [.truncated]
      | some (none, _) => [.tooLarge]
      | some (some p, rest) => interpret p :: readAll fuel rest := by
  cases s with
  | nil => exact absurd rfl hne
  | cons x xs => rfl

theorem C13_envelope_overhead (num : Nat) (b : Bytes) (hn : num < 2 ^ 32) (hb : b.length < 2 ^ 64) :
    (encodeLenField num b).length ≤ b.length + 20 := by
  unfold encodeLenField
  have a1 := C13_encodeVarint_length 9 (num * 8 + 2) (small_lt _ (by omega))
  have a2 := C13_encodeVarint_length 9 b.length (small_lt _ hb)
  simp only [List.length_append]; omega

/-- **Order and content**: reading the concatenation of any sequence of writes — whatever the
chunking of the byte stream — yields exactly the written messages and errors, in order. -/
theorem C13_sequence_roundtrip (ws : List Write) (h : ∀ w ∈ ws, C13_WriteOk w) (fuel : Nat)
    (hf : ws.length ≤ fuel) :
    readAll fuel (ws.map encodeWrite).flatten = ws.map expected := by
  induction ws generalizing fuel with
  | nil => cases fuel <;> simp [readAll]
  | cons w ws ih =>
    cases fuel with
    | zero => simp at hf
    | succ fuel =>
      obtain ⟨env, he, hl, hi⟩ := C13_interpret_write w (h w (by simp))
      simp only [List.map_cons, List.flatten_cons, he]
      have hne : frame env ++ (ws.map encodeWrite).flatten ≠ [] := by
        unfold frame
        intro hc
        have := congrArg List.length hc
        simp at this
      rw [C13_readAll_step fuel _ hne, C13_readFrame_frame env _ hl]
      simp only [hi]
      rw [ih (fun w hw => h w (by simp [hw])) fuel (by simpa using hf)]

/-- every message of at most 8 MiB − 20 bytes fits (the envelope adds at most 20 bytes) -/
theorem C13_msg_ok (p : Bytes) (h : p.length + 20 ≤ maxFrame) : C13_WriteOk (.msg p) := by
  have hm : maxFrame < 2 ^ 64 := by decide
  refine ⟨by omega, ?_⟩
  have := C13_envelope_overhead 1 p (by decide) (by omega)
  unfold encodeData; omega

/-- non-vacuity: an empty message and a non-empty one, in that order -/
example : readAll 2 ([Write.msg [], .msg [1, 2, 3]].map encodeWrite).flatten
    = [.data [], .data [1, 2, 3]] := by
  apply C13_sequence_roundtrip _ _ 2 (by decide)
  intro w hw
  simp only [List.mem_cons, List.mem_nil_iff, or_false] at hw
  rcases hw with rfl | rfl <;> exact C13_msg_ok _ (by decide)

/-- **Several writers on one stream.**  The frame writer takes the stream's write lock for a whole
frame, so whatever order concurrent `WriteMsg` calls win that lock in, the bytes on the wire are
the frames of the written messages in *some* order (`ws'` a permutation of `ws`) — and the reader
then reads every written message exactly once, intact: its reads are the same permutation of what
was written.  Nothing is lost, doubled or mixed. -/
theorem C13_concurrent_writers (ws ws' : List Write) (hperm : ws'.Perm ws)
    (h : ∀ w ∈ ws, C13_WriteOk w) (fuel : Nat) (hf : ws.length ≤ fuel) :
    readAll fuel (ws'.map encodeWrite).flatten = ws'.map expected ∧
    (readAll fuel (ws'.map encodeWrite).flatten).Perm (ws.map expected) := by
  have h' : ∀ w ∈ ws', C13_WriteOk w := fun w hw => h w (hperm.subset hw)
  have hr := C13_sequence_roundtrip ws' h' fuel (by rw [hperm.length_eq]; exact hf)
  exact ⟨hr, by rw [hr]; exact hperm.map expected⟩

import MevCommit.Model.SendBid
import MevCommit.Props.C02
open MevCommit MevCommit.Signer MevCommit.SendBid

/-- **Soundness of every delivered commitment**: it verified, its reported provider address is
the recovered signer, and it embeds exactly the bid this call sent. -/
theorem C05_delivered_sound (H : Bytes → Bytes) (S : Scheme) (sent : Bid) (r : Reply) (d : Delivered)
    (h : outcome H S sent r = some d) :
    r = .commitment d.commitment ∧ verifyCommitment H S d.commitment = .ok d.providerAddress ∧
      d.commitment.bid = some sent := by
  cases r with
  | commitment c =>
    simp only [outcome] at h
    cases hv : verifyCommitment H S c with
    | ok addr =>
      rw [hv] at h
      by_cases hb : c.bid = some sent
      · simp only [hb, ite_true, Option.some.injEq] at h
        subst h
        exact ⟨rfl, hv, hb⟩
      · simp [hb] at h
    | err e => rw [hv] at h; cases h
    | panic p => rw [hv] at h; cases h
  | openFails => simp [outcome] at h
  | writeFails => simp [outcome] at h
  | readFails => simp [outcome] at h

/-- a verified commitment is signed by the key whose address is reported (characterisation of
C02 applied to the delivered value) -/
theorem C05_delivered_signed_by_reported_address (H : Bytes → Bytes) (S : Scheme) (sent : Bid) (r : Reply)
    (d : Delivered) (h : outcome H S sent r = some d) :
    ∃ dg sg pub, d.commitment.digest = some dg ∧ d.commitment.signature = some sg ∧
      getCommitHash H sent = .ok dg ∧ S.recover dg (normaliseV sg) = some pub ∧
      S.verifyLowS pub dg ((normaliseV sg).take 64) = true ∧ d.providerAddress = S.addrOf pub := by
  obtain ⟨_, hv, hb⟩ := C05_delivered_sound H S sent r d h
  rw [C02_verifyCommitment_ok_iff] at hv
  obtain ⟨dg, sg, b, _, hd, hs, hb', _, hh, _, pub, h1, h2, h3⟩ := hv
  rw [hb] at hb'; injection hb' with hb'; subst hb'
  exact ⟨dg, sg, pub, hd, hs, hh, h1, h2, h3⟩

/-- **At most one per provider, for every arrival order**: whatever order the goroutines reach
the channel in (any duplicate-free list of provider indices), the deliveries are exactly the
valid replies, one per provider, and nothing from providers that failed, stalled or answered
with anything else. -/
theorem C05_deliveries_any_order (H : Bytes → Bytes) (S : Scheme) (sent : Bid) (rs : List Reply)
    (order : List Nat) (hnd : order.Nodup) :
    (deliveredInOrder H S sent rs order).length ≤ order.length ∧
    ∀ d ∈ deliveredInOrder H S sent rs order, ∃ i ∈ order, ∃ r, rs[i]? = some r ∧ outcome H S sent r = some d := by
  unfold deliveredInOrder
  refine ⟨List.length_filterMap_le _ _, ?_⟩
  intro d hd
  simp only [List.mem_filterMap] at hd
  obtain ⟨i, hi, hb⟩ := hd
  cases hr : rs[i]? with
  | none => rw [hr] at hb; cases hb
  | some r => rw [hr] at hb; exact ⟨i, hi, r, hr, hb⟩

/-- the set of deliveries does not depend on the arrival order -/
theorem C05_order_independent (H : Bytes → Bytes) (S : Scheme) (sent : Bid) (rs : List Reply)
    (o1 o2 : List Nat) (hp : o1.Perm o2) :
    (deliveredInOrder H S sent rs o1).Perm (deliveredInOrder H S sent rs o2) := by
  unfold deliveredInOrder
  exact hp.filterMap _

/-- **Capacity argument**: the result channel is buffered for one value per provider and each
goroutine sends at most once, so no sender ever blocks and the closer runs once all returned. -/
theorem C05_no_sender_blocks (H : Bytes → Bytes) (S : Scheme) (sent : Bid) (rs : List Reply)
    (order : List Nat) (hnd : order.Nodup) (hr : ∀ i ∈ order, i < rs.length) :
    (deliveredInOrder H S sent rs order).length ≤ rs.length := by
  have h1 := (C05_deliveries_any_order H S sent rs order hnd).1
  have h2 : order.length ≤ rs.length := by
    have hsub : order ⊆ List.range rs.length := fun i hi => List.mem_range.mpr (hr i hi)
    have := List.Nodup.length_le_of_subset hnd hsub
    simpa using this
  omega

/-- **Offered to every provider connected at call time, identically**: the goroutines' targets are
exactly the providers the topology listed — each once, in that multiplicity — and every one of
them is handed the same signed bid. -/
theorem C05_offered_to_every_provider {P : Type} (providers : List P) (sent : Bid) :
    (fanOut providers sent).map (·.1) = providers ∧ ∀ x ∈ fanOut providers sent, x.2 = sent := by
  constructor
  · simp [fanOut, List.map_map, Function.comp_def]
  · intro x hx
    simp only [fanOut, List.mem_map] at hx
    obtain ⟨p, _, rfl⟩ := hx
    rfl

/-- **The result stream is complete when it ends**: once every per-provider goroutine has returned
(the arrival order is a permutation of all provider indices) the deliveries are, as a multiset,
exactly the valid replies of all providers — nothing is lost to the arrival order. -/
theorem C05_stream_complete (H : Bytes → Bytes) (S : Scheme) (sent : Bid) (rs : List Reply)
    (order : List Nat) (hp : order.Perm (List.range rs.length)) :
    (deliveredInOrder H S sent rs order).Perm (rs.filterMap (outcome H S sent)) := by
  refine (C05_order_independent H S sent rs order (List.range rs.length) hp).trans ?_
  have key : ∀ n, (List.range n).filterMap (fun i => (rs[i]?).bind (outcome H S sent)) =
      (rs.take n).filterMap (outcome H S sent) := by
    intro n
    induction n with
    | zero => simp
    | succ n ih =>
      rw [List.range_succ, List.filterMap_append, ih, List.take_add_one, List.filterMap_append]
      congr 1
      cases h : rs[n]? <;> simp [List.filterMap_cons, h]
  have : deliveredInOrder H S sent rs (List.range rs.length) = rs.filterMap (outcome H S sent) := by
    unfold deliveredInOrder
    rw [key rs.length, List.take_length]
  rw [this]

/-- a commitment for a *different valid* bid (its own or a replayed one) is not surfaced -/
theorem C05_other_bid_not_surfaced (H : Bytes → Bytes) (S : Scheme) (sent other : Bid) (c : Commitment)
    (hc : c.bid = some other) (hne : other ≠ sent) : outcome H S sent (.commitment c) = none := by
  simp only [outcome]
  cases verifyCommitment H S c with
  | ok addr =>
    have : ¬ c.bid = some sent := by rw [hc]; intro h; injection h with h; exact hne h
    simp [this]
  | err e => rfl
  | panic p => rfl

import MevCommit.Model.Blocklist
import MevCommit.Spec.C17
/-
C17 — property theorems: for every history of placements (permanent, timed, re-blocking),
time advances and queries, the block list answers exactly "some placement is still in force".
-/
open MevCommit MevCommit.Blocklist MevCommit.Spec.C17

/-- coupling between the stored map and the placement log -/
def C17_Inv (m : Map) (log : Log) (now : Nat) : Prop :=
  ∀ id, match m id with
    | none => ∀ p ∈ log, p.1 = id → p.2.2 ≠ 0 ∧ p.2.1 + p.2.2 < now
    | some e => (id, e.start, e.dur) ∈ log ∧
        (e.dur ≠ 0 → ∀ p ∈ log, p.1 = id → p.2.2 ≠ 0 ∧ p.2.1 + p.2.2 ≤ e.start + e.dur)

theorem C17_inv_init : C17_Inv init.m [] init.now := by
  intro id; simp [init]

theorem C17_expired_iff (e : Entry) (now : Nat) :
    expired e now = true ↔ e.dur ≠ 0 ∧ e.start + e.dur < now := by
  unfold expired Entry.end_
  by_cases h : e.dur = 0 <;> simp [h]

theorem C17_inForce_iff (log : Log) (id now : Nat) :
    inForce log id now = true ↔ ∃ p ∈ log, p.1 = id ∧ (p.2.2 = 0 ∨ now ≤ p.2.1 + p.2.2) := by
  simp [inForce, List.any_eq_true]

/-- **Answer = spec**: under the coupling, `isBlocked` answers exactly `inForce`. -/
theorem C17_isBlocked_eq (m : Map) (log : Log) (id now : Nat) (h : C17_Inv m log now) :
    (isBlocked m id now).2 = inForce log id now := by
  have hid := h id
  unfold isBlocked
  cases hm : m id with
  | none =>
    simp only [hm] at hid ⊢
    cases hf : inForce log id now with
    | false => rfl
    | true =>
      rw [C17_inForce_iff] at hf
      obtain ⟨p, hp, hpi, hlive⟩ := hf
      have := hid p hp hpi
      omega
  | some e =>
    simp only [hm] at hid ⊢
    obtain ⟨hmem, hmax⟩ := hid
    by_cases hx : expired e now = true
    · simp only [hx, ite_true]
      rw [C17_expired_iff] at hx
      cases hf : inForce log id now with
      | false => rfl
      | true =>
        rw [C17_inForce_iff] at hf
        obtain ⟨p, hp, hpi, hlive⟩ := hf
        have := hmax hx.1 p hp hpi
        omega
    · simp only [hx, Bool.false_eq_true, ite_false]
      symm
      rw [C17_inForce_iff]
      refine ⟨(id, e.start, e.dur), hmem, rfl, ?_⟩
      rw [C17_expired_iff] at hx
      by_cases hd : e.dur = 0
      · exact Or.inl hd
      · right; simp only; omega

/-- the coupling survives an `isBlocked` call (which may delete an expired entry) -/
theorem C17_inv_isBlocked (m : Map) (log : Log) (id now : Nat) (h : C17_Inv m log now) :
    C17_Inv (isBlocked m id now).1 log now := by
  unfold isBlocked
  cases hm : m id with
  | none => simpa [hm] using h
  | some e =>
    by_cases hx : expired e now = true
    · simp only [hx, ite_true]
      intro i
      by_cases hi : i = id
      · subst hi
        simp only [ite_true]
        have := h i
        simp only [hm] at this
        rw [C17_expired_iff] at hx
        intro p hp hpi
        have := this.2 hx.1 p hp hpi
        omega
      · simp only [hi, ite_false]; exact h i
    · simp only [hx, Bool.false_eq_true, ite_false]; exact h

/-- the coupling survives time passing -/
theorem C17_inv_advance (m : Map) (log : Log) (now dt : Nat) (h : C17_Inv m log now) :
    C17_Inv m log (now + dt) := by
  intro id
  have := h id
  cases hm : m id with
  | none =>
    simp only [hm] at this ⊢
    intro p hp hpi
    have := this p hp hpi
    omega
  | some e => simpa [hm] using this

/-- the coupling survives a placement (permanent, timed, or re-blocking) -/
theorem C17_inv_block (m : Map) (log : Log) (id dur now : Nat) (h : C17_Inv m log now) :
    C17_Inv (block m id dur now) ((id, now, dur) :: log) now := by
  intro i
  unfold block
  by_cases hi : i = id
  · subst hi
    rw [if_pos rfl]
    have hold := h i
    cases hm : m i with
    | none =>
      rw [hm] at hold
      show (i, now, dur) ∈ (i, now, dur) :: log ∧ _
      refine ⟨List.mem_cons_self, ?_⟩
      intro hd p hp hpi
      rcases List.mem_cons.mp hp with rfl | hp
      · exact ⟨hd, Nat.le_refl _⟩
      · have := hold p hp hpi
        exact ⟨this.1, by have h2 := this.2; show p.2.1 + p.2.2 ≤ now + dur; omega⟩
    | some o =>
      rw [hm] at hold
      obtain ⟨hmem, hmax⟩ := hold
      by_cases ho : o.dur = 0
      · have hmerge : merge (some o) ⟨now, dur⟩ = o := by simp [merge, ho]
        rw [hmerge]
        exact ⟨List.mem_cons_of_mem _ hmem, fun hc => absurd ho hc⟩
      · by_cases hn : dur = 0
        · have hmerge : merge (some o) ⟨now, dur⟩ = ⟨now, dur⟩ := by simp [merge, ho, hn]
          rw [hmerge]
          exact ⟨List.mem_cons_self, fun hc => absurd hn hc⟩
        · by_cases hlt : now + dur < o.start + o.dur
          · have hmerge : merge (some o) ⟨now, dur⟩ = o := by simp [merge, ho, hn, Entry.end_, hlt]
            rw [hmerge]
            refine ⟨List.mem_cons_of_mem _ hmem, ?_⟩
            intro _ p hp hpi
            rcases List.mem_cons.mp hp with rfl | hp
            · exact ⟨hn, by show now + dur ≤ o.start + o.dur; omega⟩
            · exact hmax ho p hp hpi
          · have hmerge : merge (some o) ⟨now, dur⟩ = ⟨now, dur⟩ := by simp [merge, ho, hn, Entry.end_, hlt]
            rw [hmerge]
            refine ⟨List.mem_cons_self, ?_⟩
            intro _ p hp hpi
            rcases List.mem_cons.mp hp with rfl | hp
            · exact ⟨hn, Nat.le_refl _⟩
            · have := hmax ho p hp hpi
              exact ⟨this.1, by have h2 := this.2; show p.2.1 + p.2.2 ≤ now + dur; omega⟩
  · rw [if_neg hi]
    have hold := h i
    cases hm : m i with
    | none =>
      rw [hm] at hold
      intro p hp hpi
      rcases List.mem_cons.mp hp with rfl | hp
      · exact absurd hpi.symm hi
      · exact hold p hp hpi
    | some e =>
      rw [hm] at hold
      refine ⟨List.mem_cons_of_mem _ hold.1, ?_⟩
      intro hd p hp hpi
      rcases List.mem_cons.mp hp with rfl | hp
      · exact absurd hpi.symm hi
      · exact hold.2 hd p hp hpi

theorem C17_listed_some (m : Map) (id now : Nat) (e : Entry) (hm : m id = some e) :
    listed m id now = true ↔ (e.dur = 0 ∨ now < e.start + e.dur) := by
  unfold listed
  rw [hm]
  by_cases hd : e.dur = 0
  · simp [hd]
  · simp only [hd, false_or, decide_false, Bool.false_or, Entry.end_]
    exact ⟨of_decide_eq_true, decide_eq_true⟩

/-- listed ids are blocked; ids blocked beyond this instant are listed -/
theorem C17_listing (m : Map) (log : Log) (id now : Nat) (h : C17_Inv m log now) :
    (listed m id now = true → inForce log id now = true) ∧
    (inForce log id (now + 1) = true → listed m id now = true) := by
  have hid := h id
  cases hm : m id with
  | none =>
    rw [hm] at hid
    refine ⟨by simp [listed, hm], ?_⟩
    intro hf
    rw [C17_inForce_iff] at hf
    obtain ⟨p, hp, hpi, hlive⟩ := hf
    have := hid p hp hpi
    omega
  | some e =>
    rw [hm] at hid
    obtain ⟨hmem, hmax⟩ := hid
    rw [C17_listed_some m id now e hm]
    constructor
    · intro hl
      rw [C17_inForce_iff]
      refine ⟨_, hmem, rfl, ?_⟩
      rcases hl with hl | hl
      · exact Or.inl hl
      · exact Or.inr (by show now ≤ e.start + e.dur; omega)
    · intro hf
      rw [C17_inForce_iff] at hf
      obtain ⟨p, hp, hpi, hlive⟩ := hf
      by_cases hd : e.dur = 0
      · exact Or.inl hd
      · right
        have := hmax hd p hp hpi
        omega

/-- one step of the model is accepted by the spec and preserves the coupling -/
theorem C17_step_ok (s : St) (t : S) (op : Op) (hn : s.now = t.now) (h : C17_Inv s.m t.log s.now) :
    (stepOk t op (step s op).2).1 = true ∧
    (step s op).1.now = (stepOk t op (step s op).2).2.now ∧
    C17_Inv (step s op).1.m (stepOk t op (step s op).2).2.log (step s op).1.now := by
  cases op with
  | block id dur =>
    simp only [step, stepOk, true_and]
    exact ⟨hn, by rw [← hn]; exact C17_inv_block _ _ _ _ _ h⟩
  | advance dt =>
    simp only [step, stepOk, true_and]
    exact ⟨by rw [hn], C17_inv_advance _ _ _ _ h⟩
  | query id =>
    simp only [step, stepOk]
    refine ⟨?_, hn, C17_inv_isBlocked _ _ _ _ h⟩
    rw [C17_isBlocked_eq _ _ _ _ h, hn]; simp
  | dial id =>
    simp only [step, stepOk]
    refine ⟨?_, hn, C17_inv_isBlocked _ _ _ _ h⟩
    rw [C17_isBlocked_eq _ _ _ _ h, hn]; simp
  | secured id =>
    simp only [step, stepOk]
    refine ⟨?_, hn, C17_inv_isBlocked _ _ _ _ h⟩
    rw [C17_isBlocked_eq _ _ _ _ h, hn]; simp
  | list ids =>
    simp only [step, stepOk]
    refine ⟨?_, hn, h⟩
    simp only [Bool.and_eq_true, List.all_eq_true, List.mem_filter, and_imp, Bool.or_eq_true,
      Bool.not_eq_true', List.contains_eq_mem, decide_eq_true_eq]
    constructor
    · intro i _ hl
      rw [← hn]; exact (C17_listing _ _ i _ h).1 hl
    · intro i hi
      cases hf : inForce t.log i (t.now + 1) with
      | false => exact Or.inl rfl
      | true =>
        right
        exact ⟨hi, (C17_listing _ _ i _ h).2 (by rw [hn]; exact hf)⟩

theorem C17_run_ok (ops : List Op) (s : St) (t : S) (hn : s.now = t.now) (h : C17_Inv s.m t.log s.now) :
    check t ops (run s ops) = true := by
  induction ops generalizing s t with
  | nil => simp [run, check]
  | cons op ops ih =>
    have := C17_step_ok s t op hn h
    simp only [run, check, this.1, Bool.true_and]
    exact ih _ _ this.2.1 this.2.2

/-- **Main theorem**: every history satisfies the property. -/
theorem C17_all_histories (ops : List Op) : ok ops (run init ops) = true :=
  C17_run_ok ops init S0 rfl C17_inv_init

/-- **Permanent blocks never lapse**: once a permanent block is in the log the peer is in force at
every later time, whatever is placed afterwards (the log only grows). -/
theorem C17_permanent_forever (log : Log) (id start now : Nat) (h : (id, start, 0) ∈ log) :
    inForce log id now = true := by
  rw [C17_inForce_iff]; exact ⟨_, h, rfl, Or.inl rfl⟩

/-- **Timed blocks hold their full term** -/
theorem C17_timed_full_term (log : Log) (id start dur now : Nat) (h : (id, start, dur) ∈ log)
    (hnow : now ≤ start + dur) : inForce log id now = true := by
  rw [C17_inForce_iff]; exact ⟨_, h, rfl, Or.inr hnow⟩

/-- **Never-blocked peers are unaffected** -/
theorem C17_never_blocked (log : Log) (id now : Nat) (h : ∀ p ∈ log, p.1 ≠ id) :
    inForce log id now = false := by
  cases hf : inForce log id now with
  | false => rfl
  | true =>
    rw [C17_inForce_iff] at hf
    obtain ⟨p, hp, hpi, _⟩ := hf
    exact absurd hpi (h p hp)

/-- **Failure classes**: signature and address failures are blocked forever (duration 0), stake
failures for 2 min (inbound) / 5 min (outbound) — regenerated from libp2p.go. -/
theorem C17_failure_classes :
    blockDuration true .signature = 0 ∧ blockDuration false .signature = 0 ∧
    blockDuration true .addressMismatch = 0 ∧ blockDuration false .addressMismatch = 0 ∧
    blockDuration true .insufficientStake = 120 * 1000000000 ∧
    blockDuration false .insufficientStake = 300 * 1000000000 := by decide

/-- non-vacuity, and the history on which plain overwriting fails: permanent, then timed, then
a query after the timed term -/
example : run init [.block 1 0, .block 1 20, .advance 40, .query 1, .dial 1, .block 2 50, .block 2 5,
    .advance 20, .secured 2, .advance 40, .query 2, .list [1, 2, 3]] =
    [.none, .none, .none, .blocked true, .allowed false, .none, .none, .none, .allowed false, .none,
     .blocked false, .listing [1]] := by decide

import MevCommit.Model.Preconf
import MevCommit.Model.ProviderNode
import MevCommit.Spec.C01
import MevCommit.Props.C02
import MevCommit.Props.C11
open MevCommit MevCommit.Preconf MevCommit.Spec.C01

theorem C01_deadline_constant : Extracted.handleBidDeadlineNs = 5 * 1000000000 := by decide

/-- phase A can only end with a status that an in-time accepted/rejected decision for this
digest put there -/
theorem C01_waitHandoff_accept (buf : Option Nat) (sched : List Event) :
    (∀ rest, waitHandoff buf sched = .inr (some statusAccepted, rest) →
        buf = some statusAccepted ∨ acceptedInTime sched = true) ∧
    (∀ rest, waitHandoff buf sched = .inr (none, rest) →
        buf = none ∧ (acceptedInTime rest = true → acceptedInTime sched = true)) := by
  induction sched generalizing buf with
  | nil => simp [waitHandoff]
  | cons ev rest ih =>
    cases ev with
    | handoff =>
      simp only [waitHandoff, Sum.inr.injEq, Prod.mk.injEq]
      constructor
      · rintro r ⟨h, _⟩; exact Or.inl h
      · rintro r ⟨h, hr⟩; subst hr; exact ⟨h, fun ha => by simpa [acceptedInTime] using ha⟩
    | deadline => simp [waitHandoff]
    | cancel => simp [waitHandoff]
    | decision mine st =>
      simp only [waitHandoff]
      by_cases hc : (mine && validStatus st && buf.isNone) = true
      · rw [if_pos hc]
        simp only [Bool.and_eq_true] at hc
        obtain ⟨⟨hm, hv⟩, hb⟩ := hc
        have hbn : buf = none := by cases buf <;> simp_all
        subst hbn
        have := ih (some st)
        constructor
        · intro r hr
          rcases this.1 r hr with h | h
          · right
            injection h with h; subst h
            simp [hm, acceptedInTime, statusAccepted]
          · right
            cases mine <;> simp_all [acceptedInTime]
            cases st with
            | zero => simp_all [acceptedInTime]
            | succ n => cases n <;> simp_all [acceptedInTime]
        · intro r hr
          have := (this.2 r hr).1
          cases this
      · rw [if_neg hc]
        have := ih buf
        constructor
        · intro r hr
          rcases this.1 r hr with h | h
          · exact Or.inl h
          · right
            cases mine
            · simpa [acceptedInTime] using h
            · cases st with
              | zero => simpa [acceptedInTime] using h
              | succ n => cases n <;> simp_all [acceptedInTime]
        · intro r hr
          have h2 := this.2 r hr
          refine ⟨h2.1, fun ha => ?_⟩
          have := h2.2 ha
          cases mine
          · simpa [acceptedInTime] using this
          · cases st with
            | zero => simpa [acceptedInTime] using this
            | succ n => cases n <;> simp_all [acceptedInTime]

theorem C01_waitStatus_accept (sched : List Event) (h : waitStatus sched = .status statusAccepted) :
    acceptedInTime sched = true := by
  induction sched with
  | nil => simp [waitStatus] at h
  | cons ev rest ih =>
    cases ev with
    | handoff => simp only [waitStatus] at h; simpa [acceptedInTime] using ih h
    | deadline => simp [waitStatus] at h
    | cancel => simp [waitStatus] at h
    | decision mine st =>
      simp only [waitStatus] at h
      by_cases hc : (mine && validStatus st) = true
      · rw [if_pos hc] at h
        injection h with h; subst h
        simp only [Bool.and_eq_true] at hc
        simp [hc.1, acceptedInTime, statusAccepted]
      · rw [if_neg hc] at h
        have := ih h
        cases mine
        · simpa [acceptedInTime] using this
        · cases st with
          | zero => simpa [acceptedInTime] using this
          | succ n => cases n <;> simp_all [acceptedInTime]

theorem C01_waitHandoff_inl (buf : Option Nat) (sched : List Event) (w : Waited)
    (h : waitHandoff buf sched = .inl w) : w = .ctxErr := by
  induction sched generalizing buf with
  | nil => simp [waitHandoff] at h; exact h.symm
  | cons ev rest ih =>
    cases ev with
    | handoff => simp [waitHandoff] at h
    | deadline => simp [waitHandoff] at h; exact h.symm
    | cancel => simp [waitHandoff] at h; exact h.symm
    | decision mine st =>
      simp only [waitHandoff] at h
      split at h
      · exact ih _ h
      · exact ih _ h

/-- the handler sees ACCEPTED only if the engine accepted this digest before the deadline -/
theorem C01_wait_accept (sched : List Event) (h : wait sched = .status statusAccepted) :
    acceptedInTime sched = true := by
  unfold wait at h
  cases hw : waitHandoff none sched with
  | inl w =>
    rw [hw] at h; simp only at h
    have := C01_waitHandoff_inl none sched w hw
    rw [this] at h; cases h
  | inr p =>
    obtain ⟨b, rest⟩ := p
    rw [hw] at h
    cases b with
    | some st =>
      simp only at h
      injection h with h; subst h
      rcases (C01_waitHandoff_accept none sched).1 rest hw with h' | h'
      · cases h'
      · exact h'
    | none =>
      simp only at h
      exact ((C01_waitHandoff_accept none sched).2 rest hw).2 (C01_waitStatus_accept rest h)

/-- **Main theorem**: for every environment and every schedule the handler's observation
satisfies the property. -/
theorem C01_handler_conforms (e : Env) : Spec.C01.ok e (handleBid e) = true := by
  unfold handleBid
  by_cases h1 : e.roleIsBidder <;> simp only [h1, Bool.not_true, Bool.not_false, Bool.false_eq_true, ite_false, ite_true]
  · by_cases h2 : e.readOk <;> simp only [h2, Bool.not_true, Bool.not_false, Bool.false_eq_true, ite_false, ite_true]
    · by_cases h3 : e.verifyOk <;> simp only [h3, Bool.not_true, Bool.not_false, Bool.false_eq_true, ite_false, ite_true]
      · by_cases h4 : e.allowanceOk <;> simp only [h4, Bool.not_true, Bool.not_false, Bool.false_eq_true, ite_false, ite_true]
        · by_cases h5 : e.formatOk <;> simp only [h5, Bool.not_true, Bool.not_false, Bool.false_eq_true, ite_false, ite_true]
          · cases hw : wait e.schedule with
            | ctxErr => simp [Spec.C01.ok, isPrefixOfFull]
            | status st =>
              simp only
              by_cases hr : st = statusRejected
              · simp [hr, Spec.C01.ok, isPrefixOfFull]
              · simp only [hr, ite_false]
                by_cases ha : st = statusAccepted
                · subst ha
                  have hacc := C01_wait_accept e.schedule hw
                  have hg : gatesOpen e = true := by simp [gatesOpen, h1, h2, h3, h4, h5, hacc]
                  simp only [ite_true]
                  by_cases hs : e.signOk <;> by_cases ht : e.storeOk <;> by_cases hwr : e.writeOk <;>
                    simp [hs, ht, hwr, Spec.C01.ok, isPrefixOfFull, hg]
                · simp [ha, Spec.C01.ok, isPrefixOfFull]
          · simp [Spec.C01.ok, isPrefixOfFull]
        · simp [Spec.C01.ok, isPrefixOfFull]
      · simp [Spec.C01.ok, isPrefixOfFull]
    · simp [Spec.C01.ok, isPrefixOfFull]
  · simp [Spec.C01.ok, isPrefixOfFull]

/-- **No effect without every gate**: any effect implies a bidder peer, a read, verified, funded,
well-formed bid and an in-time ACCEPTED decision for its digest. -/
theorem C01_effects_imply_gates (e : Env) (h : (handleBid e).effects ≠ []) :
    e.roleIsBidder = true ∧ e.readOk = true ∧ e.verifyOk = true ∧ e.allowanceOk = true ∧
    e.formatOk = true ∧ acceptedInTime e.schedule = true := by
  have := C01_handler_conforms e
  simp only [Spec.C01.ok, Bool.and_eq_true, Bool.or_eq_true, List.isEmpty_iff] at this
  have hg := this.1.1.1.2
  rcases hg with hg | hg
  · exact absurd hg h
  · simpa [gatesOpen, Bool.and_eq_true, and_assoc] using hg

/-- **Order**: effects are always a prefix of sign, store, write -/
theorem C01_effect_order (e : Env) : isPrefixOfFull (handleBid e).effects = true := by
  have := C01_handler_conforms e
  simp only [Spec.C01.ok, Bool.and_eq_true] at this
  exact this.1.1.1.1

/-- **C07 ordering**: a commitment is written only after a successful settlement submission;
if the submission fails the bidder receives an error and no commitment -/
theorem C07_store_before_write (e : Env) :
    ((Effect.write ∈ (handleBid e).effects) → e.storeOk = true ∧ (handleBid e).effects = [.sign, .store, .write]) ∧
    (e.storeOk = false → Effect.write ∉ (handleBid e).effects ∧ (handleBid e).result ≠ .ok) := by
  unfold handleBid
  by_cases h1 : e.roleIsBidder <;> by_cases h2 : e.readOk <;> by_cases h3 : e.verifyOk <;>
    by_cases h4 : e.allowanceOk <;> by_cases h5 : e.formatOk <;> simp [h1, h2, h3, h4, h5]
  have hne : statusAccepted ≠ statusRejected := by decide
  cases wait e.schedule with
  | ctxErr => simp
  | status st =>
    by_cases hr : st = statusRejected
    · subst hr; simp
    · by_cases ha : st = statusAccepted
      · subst ha
        by_cases hs : e.signOk <;> by_cases ht : e.storeOk <;> by_cases hw : e.writeOk <;> simp [hne, hs, ht, hw]
      · simp [hr, ha]

/-- non-vacuity: accept after a foreign decision and an out-of-range status → full effects;
accept after the deadline → nothing -/
example : handleBid ⟨true, true, true, true, true, [.handoff, .decision false 1, .decision true 0, .decision true 1],
    true, true, true⟩ = ⟨[.sign, .store, .write], .ok⟩ ∧
  handleBid ⟨true, true, true, true, true, [.handoff, .deadline, .decision true 1], true, true, true⟩ =
    ⟨[], .err "context"⟩ := by decide


/-! ### The gates, opened: what each of them means in the component models -/
section Composed
open MevCommit.ProviderNode

/-- **C01 at full strength**: if the provider path (handler composed with the models of
`VerifyBid`, the allowance check and the format rules) produces any effect — a commitment
signature, a settlement submission or a commitment message — then the sending peer proved the
bidder role, the bid was read, its digest is the digest of exactly its fields and its signature
is a 65-byte low-S signature over that digest recovering to some key, both registry reads were
obtained and decoded with allowance ≥ minimum, the bid satisfies the published format rules, and
the engine accepted this digest before the deadline.  For every hash function and signature
scheme. -/
theorem C01_composed (H : Bytes → Bytes) (S : Signer.Scheme) (a : Arrival)
    (h : (provider H S a).effects ≠ []) :
    a.role = 2 ∧ a.readOk = true ∧
    (∃ d s pub, a.bid.digest = some d ∧ a.bid.signature = some s ∧ Signer.getBidHash H a.bid = .ok d ∧
      s.length = 65 ∧ S.recover d (Signer.normaliseV s) = some pub ∧
      S.verifyLowS pub d ((Signer.normaliseV s).take 64) = true) ∧
    (∃ mn amt, Registry.read a.minAns = some mn ∧ Registry.read a.amtAns = some amt ∧ mn ≤ amt) ∧
    ProviderSvc.validFormat a.bid.txHash a.bid.amount a.bid.blockNumber a.bid.decayStart a.bid.decayEnd
      (a.bid.digest.getD []) = true ∧
    acceptedInTime a.schedule = true := by
  obtain ⟨h1, h2, h3, h4, h5, h6⟩ := C01_effects_imply_gates (envOf H S a) h
  refine ⟨?_, h2, ?_, ?_, h5, h6⟩
  · simpa [envOf] using h1
  · have hv : (Signer.verifyBid H S a.bid).isOk = true := h3
    cases hr : Signer.verifyBid H S a.bid with
    | ok addr =>
      obtain ⟨d, s, hd, hs, hh, hl, pub, hrec, hver, _⟩ := (C02_verifyBid_ok_iff H S a.bid addr).mp hr
      exact ⟨d, s, pub, hd, hs, hh, hl, hrec, hver⟩
    | err k => rw [hr] at hv; simp [Outcome.isOk] at hv
    | panic p => rw [hr] at hv; simp [Outcome.isOk] at hv
  · exact (C11_check_iff a.minAns a.amtAns).mp h4

/-- the converse for the handler's decision: a bidder's bid that was read, verifies, is funded
and well-formed, whose wait ends with the engine's ACCEPTED status, yields exactly sign, store,
write and success when the three outputs succeed -/
theorem C01_composed_accepts (H : Bytes → Bytes) (S : Signer.Scheme) (a : Arrival)
    (g1 : a.role = 2) (g2 : a.readOk = true) (g3 : (Signer.verifyBid H S a.bid).isOk = true)
    (g4 : (Registry.check a.minAns a.amtAns).answer = true)
    (g5 : ProviderSvc.validFormat a.bid.txHash a.bid.amount a.bid.blockNumber a.bid.decayStart a.bid.decayEnd
      (a.bid.digest.getD []) = true)
    (hwait : wait a.schedule = .status statusAccepted)
    (hs : a.signOk = true) (ht : a.storeOk = true) (hw : a.writeOk = true) :
    (provider H S a).effects = [.sign, .store, .write] ∧ (provider H S a).result = .ok := by
  simp [provider, handleBid, envOf, g1, g2, g3, g4, g5, hwait, hs, ht, hw, statusAccepted, statusRejected]

/-- **Every arrival of a session passes every gate itself.**  Whatever was handled before — an
honest bid whose digest and signature this one re-uses, a refused bid, the same bid once already —
the k-th arrival has a commitment effect only if the k-th arrival itself was sent by a proven
bidder, was read, verifies (its digest is the hash of *its own* fields and the signature recovers
over it), is funded, well-formed and accepted in time. -/
theorem C01_session (H : Bytes → Bytes) (S : Signer.Scheme) (pre post : List Arrival) (a : Arrival)
    (o : Obs) (ho : (providerSession H S (pre ++ a :: post))[pre.length]? = some o)
    (h : o.effects ≠ []) :
    a.role = 2 ∧ a.readOk = true ∧
    (∃ d s pub, a.bid.digest = some d ∧ a.bid.signature = some s ∧ Signer.getBidHash H a.bid = .ok d ∧
      s.length = 65 ∧ S.recover d (Signer.normaliseV s) = some pub ∧
      S.verifyLowS pub d ((Signer.normaliseV s).take 64) = true) ∧
    (∃ mn amt, Registry.read a.minAns = some mn ∧ Registry.read a.amtAns = some amt ∧ mn ≤ amt) ∧
    ProviderSvc.validFormat a.bid.txHash a.bid.amount a.bid.blockNumber a.bid.decayStart a.bid.decayEnd
      (a.bid.digest.getD []) = true ∧
    acceptedInTime a.schedule = true := by
  have : o = provider H S a := by
    simp [providerSession] at ho
    exact ho.symm
  subst this
  exact C01_composed H S a h

end Composed

import MevCommit.Model.Wiring
import MevCommit.Model.Registry
import MevCommit.Spec.C11
import MevCommit.Lemmas.BE
open MevCommit MevCommit.Registry

/-- **Fail closed**: yes ⇔ both reads decoded ∧ amount ≥ minimum -/
theorem C11_check_iff (minAns amtAns : CallAns) :
    (check minAns amtAns).answer = true ↔
      ∃ mn amt, read minAns = some mn ∧ read amtAns = some amt ∧ mn ≤ amt := by
  unfold check
  cases h1 : read minAns with
  | none => simp
  | some mn =>
    cases h2 : read amtAns with
    | none => simp
    | some amt => simp

theorem C11_any_failure_is_no (minAns amtAns : CallAns)
    (h : read minAns = none ∨ read amtAns = none) : (check minAns amtAns).answer = false := by
  cases hc : (check minAns amtAns).answer with
  | false => rfl
  | true =>
    rw [C11_check_iff] at hc
    obtain ⟨mn, amt, h1, h2, _⟩ := hc
    rcases h with h | h <;> simp_all

theorem C11_check_conforms (minAns amtAns : CallAns) :
    Spec.C11.checkOk minAns amtAns (check minAns amtAns).answer = true := by
  unfold Spec.C11.checkOk check
  cases h1 : read minAns <;> cases h2 : read amtAns <;> simp

/-- a 32-byte big-endian return word (followed by any whole number of further words) decodes
to its value: for all amounts below 2^256 the check compares the on-chain numbers themselves -/
theorem C11_word_roundtrip (n : Nat) (h : n < 2 ^ 256) (extra : Bytes) (he : extra.length % 32 = 0) :
    Registry.read (.bytes (toBE 32 n ++ extra)) = some n := by
  simp only [Registry.read, decodeWord]
  have hl : ¬ ((toBE 32 n ++ extra).length = 0 ∨ (toBE 32 n ++ extra).length % 32 ≠ 0) := by
    simp only [List.length_append, toBE_length]; omega
  rw [if_neg hl]
  have : (toBE 32 n ++ extra).take 32 = toBE 32 n := by
    rw [List.take_append_of_le_length (by simp)]
    exact List.take_of_length_le (by simp)
  rw [this, fromBE_toBE_of_lt 32 n (by rw [pow256_32]; exact h)]

theorem C11_check_values (mn amt : Nat) (h1 : mn < 2 ^ 256) (h2 : amt < 2 ^ 256) :
    (check (.bytes (toBE 32 mn)) (.bytes (toBE 32 amt))).answer = decide (mn ≤ amt) := by
  have a := C11_word_roundtrip mn h1 [] rfl
  have b := C11_word_roundtrip amt h2 [] rfl
  simp only [List.append_nil] at a b
  simp [check, a, b]

/-- a malformed return value (empty, or not a whole number of 32-byte words) counts as a failure -/
theorem C11_malformed_return_is_no (b : Bytes) (h : b.length = 0 ∨ b.length % 32 ≠ 0) (other : CallAns) :
    (check (.bytes b) other).answer = false ∧ (check other (.bytes b)).answer = false := by
  have : Registry.read (.bytes b) = none := by
    simp only [Registry.read, decodeWord]; rw [if_pos h]
  exact ⟨C11_any_failure_is_no _ _ (Or.inl this), C11_any_failure_is_no _ _ (Or.inr this)⟩

/-- **Staking reports the on-chain outcome** -/
theorem C11_register_ok_iff (e : StakeEnv) :
    (register e).ok = true ↔ e.sendOk = true ∧ e.receipt = .status 1 := by
  unfold register
  cases hs : e.sendOk with
  | false => simp
  | true =>
    cases hr : e.receipt with
    | waitErr => simp
    | status s => simp

theorem C11_register_conforms (e : StakeEnv) : Spec.C11.stakeOk e (register e) = true := by
  unfold Spec.C11.stakeOk register
  cases hs : e.sendOk with
  | false => simp
  | true =>
    cases hr : e.receipt with
    | waitErr => simp
    | status s => by_cases h1 : s = 1 <;> simp [h1]

theorem C11_request_exact (e : StakeEnv) :
    (register e).requests = [⟨true, e.amount, true⟩] := by
  unfold register
  cases e.sendOk <;> cases e.receipt <;> simp

example : (check (.bytes (toBE 32 5)) (.bytes (toBE 32 (2^256 - 1)))).answer = true := by
  rw [C11_check_values 5 (2^256-1) (by decide) (by omega)]; decide

/-! ### Whole-node wiring (pkg/node.NewNode), tied by the `nodewire` harness -/
section Wiring
open MevCommit.Wiring

/-- as NewNode wires the node, stake is read at the configured provider registry and allowance at
the configured bidder registry, and the stake / prepay operations pay those same contracts -/
theorem C11_wire_reads_and_ops_at_configured (wd : World) :
    (scenario nodeWire wd).stakeReadsAt = [Target.providerRegistry] ∧
    (∀ t ∈ (scenario nodeWire wd).allowReadsAt, t = Target.bidderRegistry) ∧
    nodeWire.stakeOp = Target.providerRegistry ∧ nodeWire.prepayOp = Target.bidderRegistry := by
  refine ⟨rfl, ?_, rfl, rfl⟩
  cases wd with
  | mk s a f e => cases s <;> cases a <;> cases f <;> cases e <;> decide

/-- fail closed at the level of the whole node: a node whose stake or allowance reads were wired
to any other contract never produces a commitment, whatever the chain holds -/
theorem C11_wire_miswired_reads_fail_closed (w : Wire) (wd : World)
    (h : w.handshakeStake ≠ Target.providerRegistry ∨ w.bidAllowance ≠ Target.bidderRegistry) :
    (scenario w wd).commitments = 0 ∧ (scenario w wd).commitTxsAt = [] := by
  rcases h with h | h <;> simp [scenario, stakeCheck, allowanceCheck, h]

/-- a bootnode built by NewNode admits a provider iff the configured provider registry confirms
its stake, and blocks it otherwise; under any other wiring of the handshake's registry nobody is
admitted -/
theorem C11_wire_bootnode (w : Wire) (staked : Bool) :
    ((bootScenario nodeWire staked).admitted = staked ∧ (bootScenario nodeWire staked).blocked = !staked ∧
      (bootScenario nodeWire staked).stakeReadsAt = [Target.providerRegistry]) ∧
    (w.handshakeStake ≠ Target.providerRegistry → (bootScenario w staked).admitted = false) := by
  refine ⟨⟨?_, ?_, rfl⟩, ?_⟩
  · cases staked <;> decide
  · cases staked <;> decide
  · intro h; simp [bootScenario, h]

/-- the stake / prepay operation of the node reports success only for a transaction that was mined
with a success status -/
theorem C11_wire_op_success_iff (f : TxFate) : opReportsSuccess f = true ↔ f = TxFate.minedOk := by
  cases f <;> simp [opReportsSuccess]

/-- non-vacuity: the four worlds under the real wiring -/
example : (scenario nodeWire { staked := true, allowed := true }).commitments = 1 ∧
    (scenario nodeWire { staked := true, allowed := false }).commitments = 0 ∧
    (scenario nodeWire { staked := false, allowed := true }).allowReadsAt = [] ∧
    (scenario nodeWire { staked := true, allowed := false }).allowReadsAt = [Target.bidderRegistry] := by
  decide

end Wiring

import MevCommit.Model.Usable
open MevCommit MevCommit.Usable

/-- invariant of the protocol with the waiting wrapper -/
def C20_Inv (s : St) : Prop :=
  (s.inflight = false → s.rPhase = .registered) ∧ s.stream ≠ .refused

theorem C20_inv_init : C20_Inv init := by simp [C20_Inv, init]

theorem C20_step_inv (s : St) (x : Step) (h : C20_Inv s) : C20_Inv (step true s x) := by
  obtain ⟨h1, h2⟩ := h
  cases x <;> simp only [step, C20_Inv]
  · split <;> exact ⟨h1, h2⟩
  · split <;> exact ⟨h1, h2⟩
  · split
    · exact ⟨h1, by simp⟩
    · exact ⟨h1, h2⟩
  · split
    · refine ⟨?_, h2⟩
      intro hi
      rename_i hc
      have := h1 hi
      simp [this] at hc
    · exact ⟨h1, h2⟩
  · split
    · exact ⟨fun _ => rfl, h2⟩
    · exact ⟨h1, h2⟩
  · split
    · rename_i hc
      refine ⟨fun _ => ?_, h2⟩
      simpa using hc
    · exact ⟨h1, h2⟩
  · split
    · split
      · exact ⟨h1, by simp⟩
      · split
        · exact ⟨h1, by simp⟩
        · rename_i hr hw
          -- not registered and not in flight contradicts the invariant
          exfalso
          simp only [Bool.true_and, Bool.not_eq_true] at hw
          have := h1 hw
          simp [this] at hr
    · exact ⟨h1, h2⟩
  · split
    · rename_i hc
      simp only [Bool.and_eq_true, Bool.not_eq_true', beq_iff_eq] at hc
      have := h1 hc.2
      simp [this]
    · exact ⟨h1, h2⟩

/-- **Usable as soon as connect succeeded**: under every interleaving of the two nodes' steps —
however late the responder verifies the final message and registers the peer — a stream the
initiator opens after its connect returned is never refused as coming from an unknown peer. -/
theorem C20_never_refused (xs : List Step) : (run true init xs).stream ≠ .refused := by
  have key : ∀ (xs : List Step) (s : St), C20_Inv s → C20_Inv (run true s xs) := by
    intro xs
    induction xs with
    | nil => intro s h; exact h
    | cons x xs ih => intro s h; exact ih _ (C20_step_inv s x h)
  exact (key xs init C20_inv_init).2

/-- and once the responder finished its side, a waiting stream is accepted with the registered identity -/
theorem C20_waiting_gets_accepted (s : St) (h : C20_Inv s) (hw : s.stream = .waiting) (hd : s.inflight = false) :
    (step true s .wrapperResume).stream = .accepted := by
  have := h.1 hd
  simp [step, hw, hd, this]

/-- the wrapper that does not wait (the pinned tree) violates the property: the 4-step schedule
"initiator writes, returns, opens a stream; responder's wrapper runs before its handshake
handler read the final message" -/
theorem C20_without_wait_refused :
    (run false init [.iWriteFinal, .iReturn, .iOpenStream, .wrapperLookup]).stream = .refused := by decide

/-- non-vacuity: the same schedule with the waiting wrapper, then the responder finishing -/
example : (run true init [.iWriteFinal, .iReturn, .iOpenStream, .wrapperLookup, .rReadVerify, .rRegister,
    .rDone, .wrapperResume]).stream = .accepted := by decide

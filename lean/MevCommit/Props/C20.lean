import MevCommit.Model.Usable
import MevCommit.Model.UsableN
open MevCommit MevCommit.Usable

/-- invariant of the protocol with the waiting wrapper -/
def C20_Inv (s : St) : Prop :=
  (s.inflight = false → s.rPhase = .registered) ∧ s.stream ≠ .refused

theorem C20_inv_init : C20_Inv init := by simp [C20_Inv, init]

theorem C20_step_inv (s : St) (x : Step) (h : C20_Inv s) : C20_Inv (step true s x) := by
  obtain ⟨h1, h2⟩ := h
  cases x <;> simp only [step, C20_Inv]
  · split <;> exact ⟨h1, h2⟩
  · split <;> exact ⟨h1, h2⟩
  · split
    · exact ⟨h1, by simp⟩
    · exact ⟨h1, h2⟩
  · split
    · refine ⟨?_, h2⟩
      intro hi
      rename_i hc
      have := h1 hi
      simp [this] at hc
    · exact ⟨h1, h2⟩
  · split
    · exact ⟨fun _ => rfl, h2⟩
    · exact ⟨h1, h2⟩
  · split
    · rename_i hc
      refine ⟨fun _ => ?_, h2⟩
      simpa using hc
    · exact ⟨h1, h2⟩
  · split
    · split
      · exact ⟨h1, by simp⟩
      · split
        · exact ⟨h1, by simp⟩
        · rename_i hr hw
          -- not registered and not in flight contradicts the invariant
          exfalso
          simp only [Bool.true_and, Bool.not_eq_true] at hw
          have := h1 hw
          simp [this] at hr
    · exact ⟨h1, h2⟩
  · split
    · rename_i hc
      simp only [Bool.and_eq_true, Bool.not_eq_true', beq_iff_eq] at hc
      have := h1 hc.2
      simp [this]
    · exact ⟨h1, h2⟩

/-- **Usable as soon as connect succeeded**: under every interleaving of the two nodes' steps —
however late the responder verifies the final message and registers the peer — a stream the
initiator opens after its connect returned is never refused as coming from an unknown peer. -/
theorem C20_never_refused (xs : List Step) : (run true init xs).stream ≠ .refused := by
  have key : ∀ (xs : List Step) (s : St), C20_Inv s → C20_Inv (run true s xs) := by
    intro xs
    induction xs with
    | nil => intro s h; exact h
    | cons x xs ih => intro s h; exact ih _ (C20_step_inv s x h)
  exact (key xs init C20_inv_init).2

/-- and once the responder finished its side, a waiting stream is accepted with the registered identity -/
theorem C20_waiting_gets_accepted (s : St) (h : C20_Inv s) (hw : s.stream = .waiting) (hd : s.inflight = false) :
    (step true s .wrapperResume).stream = .accepted := by
  have := h.1 hd
  simp [step, hw, hd, this]

/-- the wrapper that does not wait (the pinned tree) violates the property: the 4-step schedule
"initiator writes, returns, opens a stream; responder's wrapper runs before its handshake
handler read the final message" -/
theorem C20_without_wait_refused :
    (run false init [.iWriteFinal, .iReturn, .iOpenStream, .wrapperLookup]).stream = .refused := by decide

/-- non-vacuity: the same schedule with the waiting wrapper, then the responder finishing -/
example : (run true init [.iWriteFinal, .iReturn, .iOpenStream, .wrapperLookup, .rReadVerify, .rRegister,
    .rDone, .wrapperResume]).stream = .accepted := by decide

/-! ## The lock-level model (`Model/UsableN`): counted in-flight records, four wrapper steps -/

section LockLevel
open MevCommit.UsableN

@[simp] theorem C20N_addPeer_some (j i : Nat) : UsableN.addPeer (some j) i = some j := rfl

@[simp] theorem C20N_addPeer_ne_none (r : Option Nat) (i : Nat) : UsableN.addPeer r i ≠ none := by
  cases r <;> simp [UsableN.addPeer]

/-- invariant of the lock-level model: the stream the initiator opened after its Connect returned
is never refused, a waiter waits for the record that still counts the own handshake (or the peer is
registered already), and a second look-up only happens once the peer is registered -/
structure C20N_Inv (s : NSt) : Prop where
  a : s.finalWritten = true → s.own ≠ .notBegun
  b : s.iConnected = true → s.finalWritten = true
  c : s.stream ≠ .notOpened → s.iConnected = true
  d : (s.own = .registered ∨ s.own = .ended) → s.regId ≠ none
  e : s.stream = .recheck → s.regId ≠ none
  f : ∀ r, s.stream = .waiting r → s.regId ≠ none ∨ (ownInFlight s = true ∧ s.cur = r)
  g : s.stream ≠ .refused
  i : ∀ j, s.stream = .accepted j → s.regId = some j

theorem C20N_inv_init : C20N_Inv ninit := by
  constructor <;> simp [ninit]

theorem C20N_step_inv (s : NSt) (x : NStep) (h : C20N_Inv s) : C20N_Inv (nstep true s x) := by
  obtain ⟨a, b, c, d, e, f, g, i⟩ := h
  cases x <;> simp only [nstep]
  all_goals (try (split <;> first | exact ⟨a, b, c, d, e, f, g, i⟩ | skip))
  all_goals (try (split <;> first | exact ⟨a, b, c, d, e, f, g, i⟩ | skip))
  all_goals (try (constructor <;> simp_all [ownInFlight, count, closed, beginRec] <;> grind))
  all_goals (cases hown : s.own <;> constructor <;> simp_all [ownInFlight, count])

theorem C20N_run_inv (xs : List NStep) (s : NSt) (h : C20N_Inv s) : C20N_Inv (nrun true s xs) := by
  induction xs generalizing s with
  | nil => exact h
  | cons x xs ih => exact ih _ (C20N_step_inv s x h)

/-- **Usable as soon as connect succeeded, at the granularity of the locks**: for every
interleaving of the initiator's steps, the own handshake handler, *any number of other inbound
handshake handlers of the same remote peer beginning, registering and returning at arbitrary
moments*, and the wrapper's four separately locked steps, the stream is never refused. -/
theorem C20N_never_refused (xs : List NStep) : (nrun true ninit xs).stream ≠ .refused :=
  (C20N_run_inv xs ninit C20N_inv_init).g

theorem C20N_run_append (w : Bool) (s : NSt) (xs ys : List NStep) : nrun w s (xs ++ ys) = nrun w (nrun w s xs) ys := by
  induction xs generalizing s with
  | nil => rfl
  | cons x xs ih => exact ih _

/-- the wrapper without the record look-up (pinned tree) is refuted in this model too -/
theorem C20N_without_wait_refused :
    (nrun false ninit [.rBegin, .iWriteFinal, .iReturn, .iOpenStream, .w1, .w2, .w4]).stream = .refused := by decide

/-- once every handshake handler of the peer has returned, the wrapper — from whichever of its
steps it is at — ends by invoking the handler -/
theorem C20N_quiescent_accepts (s : NSt) (h : C20N_Inv s) (hq : count s = 0) (ho : s.stream ≠ .notOpened) :
    ∃ j, s.regId = some j ∧ (nrun true s [.w1, .w2, .w3, .w4]).stream = .accepted j := by
  obtain ⟨a, b, c, d, e, f, g, i⟩ := h
  have hreg : s.regId ≠ none := by
    cases hown : s.own <;> simp_all [ownInFlight, count]
  obtain ⟨j, hj⟩ := Option.ne_none_iff_exists'.mp hreg
  refine ⟨j, hj, ?_⟩
  cases hs : s.stream with
  | notOpened => exact absurd hs ho
  | pending => simp [nrun, nstep, hs, hj]
  | notFound => simp [nrun, nstep, hs, hj, hq]
  | waiting r => simp [nrun, nstep, hs, hj, hq, closed]
  | recheck => simp [nrun, nstep, hs, hj]
  | accepted k => have := i k hs; simp_all [nrun, nstep]
  | refused => exact absurd hs g

/-- the other handlers return one by one -/
theorem C20N_others_end (n : Nat) (s : NSt) (hn : s.others = n) :
    nrun true s (List.replicate n .oEnd) = { s with others := 0 } := by
  induction n generalizing s with
  | zero => cases s; simp_all [nrun]
  | succ n ih =>
    have : 0 < s.others := by omega
    simp only [List.replicate_succ, nrun, nstep, this, if_true]
    rw [ih _ (by simp; omega)]

/-- the own handler runs to its end once the final message is there -/
theorem C20N_own_ends (s : NSt) (h : C20N_Inv s) (hf : s.finalWritten = true) :
    (nrun true s [.rReadVerify, .rRegister, .rDone]).own = .ended := by
  have := h.a hf
  cases hown : s.own <;> simp_all [nrun, nstep]

theorem C20N_own_ends_frame (s : NSt) :
    (nrun true s [.rReadVerify, .rRegister, .rDone]).others = s.others ∧
    (nrun true s [.rReadVerify, .rRegister, .rDone]).stream = s.stream := by
  simp only [nrun, nstep]
  repeat' split
  all_goals simp

/-- the schedule "the responder finishes all its handshake handlers, then the wrapper runs on" -/
def completion (s : NSt) : List NStep :=
  [.rReadVerify, .rRegister, .rDone] ++ (List.replicate s.others .oEnd ++ [.w1, .w2, .w3, .w4])

/-- **no waiter is left behind**: from every state the invariant allows, the schedule in which the
responder's handlers return leads the opened stream to `accepted` — the wait of
`waitInboundHandshake` cannot deadlock, for any number of concurrent handlers -/
theorem C20N_always_completable (s : NSt) (h : C20N_Inv s) (ho : s.stream ≠ .notOpened) :
    (nrun true s (completion s)).stream.isAccepted = true := by
  have hf : s.finalWritten = true := h.b (h.c ho)
  have h1 := C20N_run_inv [.rReadVerify, .rRegister, .rDone] s h
  have hend := C20N_own_ends s h hf
  obtain ⟨hoth, hstr⟩ := C20N_own_ends_frame s
  unfold completion
  rw [C20N_run_append, C20N_run_append]
  generalize nrun true s [.rReadVerify, .rRegister, .rDone] = s1 at *
  have h2 := C20N_run_inv (List.replicate s.others .oEnd) s1 h1
  rw [C20N_others_end s.others s1 hoth] at h2 ⊢
  obtain ⟨j, _, hj⟩ := C20N_quiescent_accepts _ h2 (by simp [count, ownInFlight, hend]) (by simpa [hstr] using ho)
  simp [hj, WPhase.isAccepted]

/-- … in particular from every reachable state -/
theorem C20N_reachable_completable (xs : List NStep) (ho : (nrun true ninit xs).stream ≠ .notOpened) :
    (nrun true ninit (xs ++ completion (nrun true ninit xs))).stream.isAccepted = true := by
  rw [C20N_run_append]
  exact C20N_always_completable _ (C20N_run_inv xs ninit C20N_inv_init) ho

/-- non-vacuity: two further handlers of the same peer come and go around the waiter -/
example : (nrun true ninit [.oBegin, .rBegin, .oEnd, .iWriteFinal, .iReturn, .iOpenStream, .oBegin, .w1, .w2,
    .rReadVerify, .oEnd, .w3, .rRegister, .rDone, .w3, .w4]).stream = .accepted 0 := by decide

/-- **with the proven identity**: in every reachable state the identity the handler was invoked with
is the record the registry holds for the peer, i.e. the identity proven by the first handshake of
that peer that completed (`addPeer` keeps an existing record; nothing removes it while the
connection stays open) -/
theorem C20N_identity_is_registered (xs : List NStep) (j : Nat)
    (h : (nrun true ninit xs).stream = .accepted j) : (nrun true ninit xs).regId = some j :=
  (C20N_run_inv xs ninit C20N_inv_init).i j h

/-- the record of a registered peer is stable under every step: later handshakes of the same peer
(claiming whatever role) do not replace the identity handlers are given -/
theorem C20N_record_stable (w : Bool) (s : NSt) (x : NStep) (j : Nat) (h : s.regId = some j) :
    (nstep w s x).regId = some j := by
  cases x <;> simp only [nstep]
  all_goals (try (split <;> try split))
  all_goals (try (simp_all [beginRec] ; done))
  all_goals (simp only [beginRec]; split <;> simp_all)

/-- when only the own handshake ever registers, the identity handed over is the one it proved -/
theorem C20N_own_identity (xs : List NStep) (hx : ∀ i, NStep.oRegister i ∉ xs) (j : Nat)
    (h : (nrun true ninit xs).stream = .accepted j) : j = 0 := by
  have key : ∀ (xs : List NStep) (s : NSt), (∀ i, NStep.oRegister i ∉ xs) → (s.regId = none ∨ s.regId = some 0) →
      ((nrun true s xs).regId = none ∨ (nrun true s xs).regId = some 0) := by
    intro xs
    induction xs with
    | nil => intro s _ h; exact h
    | cons x xs ih =>
      intro s hx h
      apply ih
      · intro i hi; exact hx i (List.mem_cons_of_mem _ hi)
      · cases x with
        | oRegister i => exact absurd List.mem_cons_self (hx i)
        | rRegister =>
          simp only [nstep]; split
          · rcases h with h | h <;> simp [h, addPeer]
          · exact h
        | rBegin => simp only [nstep, beginRec]; repeat' split
                    all_goals exact h
        | oBegin => simp only [nstep, beginRec]; repeat' split
                    all_goals exact h
        | w1 => simp only [nstep]; repeat' split
                all_goals exact h
        | w2 => simp only [nstep]; repeat' split
                all_goals exact h
        | w3 => simp only [nstep]; repeat' split
                all_goals exact h
        | w4 => simp only [nstep]; repeat' split
                all_goals exact h
        | oEnd => simp only [nstep]; split <;> exact h
        | iWriteFinal => simp only [nstep]; split <;> exact h
        | iReturn => simp only [nstep]; split <;> exact h
        | iOpenStream => simp only [nstep]; split <;> exact h
        | rReadVerify => simp only [nstep]; split <;> exact h
        | rDone => simp only [nstep]; split <;> exact h
  have hr := C20N_identity_is_registered xs j h
  rcases key xs ninit hx (Or.inl rfl) with h0 | h0 <;> simp_all

/-- a plausible variant of the repair — the record is deleted and its channel closed by the *first*
handler that returns instead of the last (no counting); handlers still running carry on under a
fresh record -/
def nstepFirstCloses (s : NSt) (x : NStep) : NSt :=
  let s' := nstep true s x
  if count s' < count s then { s' with cur := s'.nextRec, nextRec := s'.nextRec + 1 } else s'

def nrunFirstCloses : NSt → List NStep → NSt
  | s, [] => s
  | s, x :: xs => nrunFirstCloses (nstepFirstCloses s x) xs

/-- **the count is necessary**: without it a second handler of the same peer that returns while
the own handshake is still being verified releases the waiter too early, and the stream opened
after a successful Connect is refused (kernel-evaluated 10-step schedule) -/
theorem C20N_count_is_necessary :
    (nrunFirstCloses ninit [.rBegin, .oBegin, .iWriteFinal, .iReturn, .iOpenStream, .w1, .w2, .oEnd, .w3, .w4]).stream
      = .refused := by decide

/-- … while the counted record of the code keeps the waiter on the very same schedule -/
example : (nrun true ninit [.rBegin, .oBegin, .iWriteFinal, .iReturn, .iOpenStream, .w1, .w2, .oEnd, .w3, .w4]).stream
    = .waiting 0 := by decide

end LockLevel

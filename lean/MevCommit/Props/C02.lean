import MevCommit.Model.Signer
import MevCommit.Lemmas.BE
import MevCommit.Spec.C02
/-
C02 — soundness and field binding of bid / commitment verification, for every hash function
`H` and every signature scheme `S` (the cryptographic primitives are parameters).
-/
open MevCommit MevCommit.Signer

/-! ### Acceptance characterisation -/

/-- `eipVerify` succeeds exactly when the presented digest is the recomputed one, the signature
has 65 bytes, recovery on the normalised signature yields a key, the low-S verification of
r‖s passes, and the reported address is that key's. -/
theorem C02_verifySig_ok_iff (S : Scheme) (h sig a : Bytes) :
    verifySig S h sig = .ok a ↔
      ∃ pub, S.recover h sig = some pub ∧ S.verifyLowS pub h (sig.take 64) = true ∧ a = S.addrOf pub := by
  unfold verifySig
  cases hr : S.recover h sig with
  | none => simp
  | some pub =>
    by_cases hv : S.verifyLowS pub h (sig.take 64) = true
    · simp only [hv, ite_true, Outcome.ok.injEq, Option.some.injEq]
      constructor
      · intro ha; exact ⟨pub, rfl, hv, ha.symm⟩
      · rintro ⟨pub', hp, _, ha⟩; subst hp; exact ha.symm
    · simp only [hv, Bool.false_eq_true, ite_false, Option.some.injEq]
      constructor
      · intro hc; cases hc
      · rintro ⟨pub', hp, hv', _⟩; subst hp; exact absurd hv' hv

theorem C02_eipVerify_ok_iff (S : Scheme) (h d s a : Bytes) :
    eipVerify S h d s = .ok a ↔
      h = d ∧ s.length = 65 ∧ ∃ pub, S.recover h (normaliseV s) = some pub ∧
        S.verifyLowS pub h ((normaliseV s).take 64) = true ∧ a = S.addrOf pub := by
  unfold eipVerify
  by_cases h1 : h = d
  · by_cases h2 : s.length = 65
    · rw [if_neg (by simpa using h1), if_neg (by simpa using h2), C02_verifySig_ok_iff]
      simp [h1, h2]
    · rw [if_neg (by simpa using h1), if_pos (by simpa using h2)]
      constructor
      · intro hc; cases hc
      · rintro ⟨_, hl, _⟩; exact absurd hl h2
  · rw [if_pos (by simpa using h1)]
    constructor
    · intro hc; cases hc
    · rintro ⟨hh, _⟩; exact absurd hh h1

theorem C02_verifyBid_ok_iff (H : Bytes → Bytes) (S : Scheme) (b : Bid) (a : Bytes) :
    verifyBid H S b = .ok a ↔
      ∃ d s, b.digest = some d ∧ b.signature = some s ∧ getBidHash H b = .ok d ∧ s.length = 65 ∧
        ∃ pub, S.recover d (normaliseV s) = some pub ∧
          S.verifyLowS pub d ((normaliseV s).take 64) = true ∧ a = S.addrOf pub := by
  unfold verifyBid
  cases hd : b.digest with
  | none => simp
  | some d =>
    cases hs : b.signature with
    | none => simp
    | some s =>
      simp only [Outcome.bind_eq_ok_iff, C02_eipVerify_ok_iff]
      constructor
      · rintro ⟨h, hh, rfl, hl, pub, h1, h2, h3⟩
        exact ⟨_, _, rfl, rfl, hh, hl, pub, h1, h2, h3⟩
      · rintro ⟨d', s', hd', hs', hh', hl, pub, h1, h2, h3⟩
        injection hd' with hd'; injection hs' with hs'
        subst hd' hs'
        exact ⟨_, hh', rfl, hl, pub, h1, h2, h3⟩

/-- a commitment verifies only if its embedded bid is present and verifies, and its own digest
is the commitment hash over the bid's fields, hex(bid digest) and hex(bid signature) -/
theorem C02_verifyCommitment_ok_iff (H : Bytes → Bytes) (S : Scheme) (c : Commitment) (a : Bytes) :
    verifyCommitment H S c = .ok a ↔
      ∃ d s b bidAddr, c.digest = some d ∧ c.signature = some s ∧ c.bid = some b ∧
        verifyBid H S b = .ok bidAddr ∧ getCommitHash H b = .ok d ∧ s.length = 65 ∧
        ∃ pub, S.recover d (normaliseV s) = some pub ∧
          S.verifyLowS pub d ((normaliseV s).take 64) = true ∧ a = S.addrOf pub := by
  unfold verifyCommitment
  cases hd : c.digest with
  | none => simp
  | some d =>
    cases hs : c.signature with
    | none => simp
    | some s =>
      cases hb : c.bid with
      | none => simp
      | some b =>
        simp only [Outcome.bind_eq_ok_iff, C02_eipVerify_ok_iff]
        constructor
        · rintro ⟨ba, hba, h, hh, rfl, hl, pub, h1, h2, h3⟩
          exact ⟨_, _, _, ba, rfl, rfl, rfl, hba, hh, hl, pub, h1, h2, h3⟩
        · rintro ⟨d', s', b', ba, hd', hs', hb', hba, hh', hl, pub, h1, h2, h3⟩
          injection hd' with hd'; injection hs' with hs'; injection hb' with hb'
          subst hd' hs' hb'
          exact ⟨ba, hba, _, hh', rfl, hl, pub, h1, h2, h3⟩

/-! ### No crash (also used by C06) -/

theorem C02_eipVerify_no_panic (S : Scheme) (h d s : Bytes) (p : String) :
    eipVerify S h d s ≠ .panic p := by
  unfold eipVerify verifySig
  split
  · simp
  · split
    · simp
    · split
      · simp
      · split <;> simp

theorem C02_getBidHash_no_panic (H : Bytes → Bytes) (b : Bid) (p : String) : getBidHash H b ≠ .panic p := by
  unfold getBidHash; split <;> simp

theorem C02_getCommitHash_no_panic (H : Bytes → Bytes) (b : Bid) (p : String) : getCommitHash H b ≠ .panic p := by
  unfold getCommitHash; split <;> simp

theorem C02_verifyBid_no_panic (H : Bytes → Bytes) (S : Scheme) (b : Bid) (p : String) :
    verifyBid H S b ≠ .panic p := by
  unfold verifyBid
  split
  · exact Outcome.bind_ne_panic _ _ (C02_getBidHash_no_panic H b) (fun _ => C02_eipVerify_no_panic _ _ _ _) p
  · simp

theorem C02_verifyCommitment_no_panic (H : Bytes → Bytes) (S : Scheme) (c : Commitment) (p : String) :
    verifyCommitment H S c ≠ .panic p := by
  unfold verifyCommitment
  split
  · split
    · simp
    · exact Outcome.bind_ne_panic _ _ (C02_verifyBid_no_panic H S _)
        (fun _ => Outcome.bind_ne_panic _ _ (C02_getCommitHash_no_panic H _)
          (fun _ => C02_eipVerify_no_panic _ _ _ _)) p
  · simp

/-! ### Field binding -/

/-- an explicit collision of the hash function -/
def C02_Collision (H : Bytes → Bytes) : Prop := ∃ x y, x ≠ y ∧ H x = H y

theorem C02_H_inj_or_collision (H : Bytes → Bytes) (x y : Bytes) (h : H x = H y) :
    x = y ∨ C02_Collision H := by
  by_cases hxy : x = y
  · exact Or.inl hxy
  · exact Or.inr ⟨x, y, hxy, h⟩

/-- two's-complement 256-bit encoding is injective on every window narrower than 2^256 -/
theorem C02_be32_inj (x y : Int) (hx : -(2:Int)^255 ≤ x ∧ x < 2^256) (hy : -(2:Int)^255 ≤ y ∧ y < 2^256)
    (hxy : (x < 0 → y < 2^255) ∧ (y < 0 → x < 2^255))
    (h : be32 x = be32 y) : x = y := by
  unfold be32 at h
  have hlt (z : Int) : u256 z < 256 ^ 32 := by
    unfold u256
    rw [pow256_32]
    have h1 : (0 : Int) ≤ z % 2 ^ 256 := Int.emod_nonneg _ (by decide)
    have h2 : z % 2 ^ 256 < 2 ^ 256 := Int.emod_lt_of_pos _ (by decide)
    have : ((z % 2 ^ 256).toNat : Int) < ((2 ^ 256 : Nat) : Int) := by
      rw [Int.toNat_of_nonneg h1]; simpa using h2
    exact_mod_cast this
  have hu := toBE_injective 32 _ _ (hlt x) (hlt y) h
  unfold u256 at hu
  have h1 : (0 : Int) ≤ x % 2 ^ 256 := Int.emod_nonneg _ (by decide)
  have h2 : (0 : Int) ≤ y % 2 ^ 256 := Int.emod_nonneg _ (by decide)
  have hm : x % 2 ^ 256 = y % 2 ^ 256 := by
    rw [← Int.toNat_of_nonneg h1, ← Int.toNat_of_nonneg h2, hu]
  omega

structure C02_Fields where
  txHash : Bytes
  amount : Int
  blockNumber : Int
  decayStart : Int
  decayEnd : Int
  deriving DecidableEq

/-- the signed content of a bid: the tx-hash bytes, the *value* of the amount text, and the
three int64 members -/
def C02_fieldsOf (b : Bid) : Option C02_Fields :=
  (parseAmount b.amount).map (fun amt => ⟨b.txHash, amt, b.blockNumber, b.decayStart, b.decayEnd⟩)

def C02_int64 (x : Int) : Prop := -(2:Int)^63 ≤ x ∧ x < 2^63
def C02_int64Bid (b : Bid) : Prop := C02_int64 b.blockNumber ∧ C02_int64 b.decayStart ∧ C02_int64 b.decayEnd

private theorem be32_length (x : Int) : (be32 x).length = 32 := by simp [be32]

private theorem int64_window (x : Int) (h : C02_int64 x) : -(2:Int)^255 ≤ x ∧ x < 2^256 ∧ x < 2^255 := by
  unfold C02_int64 at h; omega

private theorem be32_inj_int64 (x y : Int) (hx : C02_int64 x) (hy : C02_int64 y) (h : be32 x = be32 y) : x = y := by
  have a := int64_window x hx
  have b := int64_window y hy
  exact C02_be32_inj x y ⟨a.1, a.2.1⟩ ⟨b.1, b.2.1⟩ ⟨fun _ => b.2.2, fun _ => a.2.2⟩ h

private theorem parseAmount_range (a : Bytes) (v : Int) (h : parseAmount a = some v) : 0 ≤ v ∧ v < 2 ^ 256 := by
  unfold parseAmount at h
  split at h
  · split at h
    · injection h with h; subst h; assumption
    · cases h
  · cases h

/-- **Binding of bids.**  If two bids (with int64 members, as the Go type guarantees) hash to the
same digest, then their signed contents are equal — same tx-hash bytes, same amount value, same
block number and decay timestamps — or an explicit collision of `H` is exhibited. -/
theorem C02_bid_binding (H : Bytes → Bytes) (hH : ∀ x, (H x).length = 32) (b1 b2 : Bid) (d : Bytes)
    (h1 : getBidHash H b1 = .ok d) (h2 : getBidHash H b2 = .ok d)
    (r1 : C02_int64Bid b1) (r2 : C02_int64Bid b2) :
    (C02_fieldsOf b1 = C02_fieldsOf b2 ∧ C02_fieldsOf b1 ≠ none) ∨ C02_Collision H := by
  unfold getBidHash at h1 h2
  cases ha1 : parseAmount b1.amount with
  | none => simp [ha1] at h1
  | some a1 =>
    cases ha2 : parseAmount b2.amount with
    | none => simp [ha2] at h2
    | some a2 =>
      simp only [ha1, ha2, Outcome.ok.injEq] at h1 h2
      have hd := h1.trans h2.symm
      rcases C02_H_inj_or_collision H _ _ hd with he | hc
      · have he := List.append_cancel_left he
        have he := List.append_cancel_left he
        rcases C02_H_inj_or_collision H _ _ he with hdata | hc
        · unfold bidStructData at hdata
          -- peel the six 32-byte pieces
          simp only [List.append_assoc] at hdata
          have e0 := List.append_cancel_left hdata
          obtain ⟨etx, e1⟩ := List.append_inj e0 (by rw [hH, hH])
          obtain ⟨eamt, e2⟩ := List.append_inj e1 (by rw [be32_length, be32_length])
          obtain ⟨eblk, e3⟩ := List.append_inj e2 (by rw [be32_length, be32_length])
          obtain ⟨est, een⟩ := List.append_inj e3 (by rw [be32_length, be32_length])
          rcases C02_H_inj_or_collision H _ _ etx with htx | hc
          · left
            have p1 := parseAmount_range _ _ ha1
            have p2 := parseAmount_range _ _ ha2
            have eamt' : a1 = a2 := C02_be32_inj a1 a2 ⟨by omega, p1.2⟩ ⟨by omega, p2.2⟩
              ⟨fun h => by omega, fun h => by omega⟩ eamt
            have eblk' := be32_inj_int64 _ _ r1.1 r2.1 eblk
            have est' := be32_inj_int64 _ _ r1.2.1 r2.2.1 est
            have een' := be32_inj_int64 _ _ r1.2.2 r2.2.2 een
            simp [C02_fieldsOf, ha1, ha2, htx, eamt', eblk', est', een']
          · exact Or.inr hc
        · exact Or.inr hc
      · exact Or.inr hc

/-- lowercase hex is injective -/
theorem C02_hexEncode_inj (a b : Bytes) (h : hexEncode a = hexEncode b) : a = b := by
  induction a generalizing b with
  | nil =>
    cases b with
    | nil => rfl
    | cons y ys => simp [hexEncode] at h
  | cons x xs ih =>
    cases b with
    | nil => simp [hexEncode] at h
    | cons y ys =>
      simp only [hexEncode, List.flatMap_cons, List.cons_append, List.nil_append, List.cons.injEq] at h
      obtain ⟨h1, h2, h3⟩ := h
      have hx : x = y := by
        have hd' : ∀ n m : Fin 16, hexDigit n.val = hexDigit m.val → n = m := by decide
        have hd : ∀ n m : Nat, n < 16 → m < 16 → hexDigit n = hexDigit m → n = m := by
          intro n m hn hm hh
          have := hd' ⟨n, hn⟩ ⟨m, hm⟩ hh
          exact Fin.mk.inj_iff.mp this
        have a1 := hd _ _ (Nat.div_lt_of_lt_mul (by have := x.toNat_lt; omega))
          (Nat.div_lt_of_lt_mul (by have := y.toNat_lt; omega)) h1
        have a2 := hd _ _ (Nat.mod_lt _ (by decide)) (Nat.mod_lt _ (by decide)) h2
        have : x.toNat = y.toNat := by omega
        exact UInt8.toNat_inj.mp this
      subst hx
      rw [ih ys h3]

/-- **Binding of commitments**: equal commitment digests ⇒ equal bid fields *and* equal bid
digest and bid signature bytes (or a collision of `H`). -/
theorem C02_commitment_binding (H : Bytes → Bytes) (hH : ∀ x, (H x).length = 32) (b1 b2 : Bid) (d : Bytes)
    (h1 : getCommitHash H b1 = .ok d) (h2 : getCommitHash H b2 = .ok d)
    (r1 : C02_int64Bid b1) (r2 : C02_int64Bid b2) :
    (C02_fieldsOf b1 = C02_fieldsOf b2 ∧ b1.digest.getD [] = b2.digest.getD [] ∧
      b1.signature.getD [] = b2.signature.getD []) ∨ C02_Collision H := by
  unfold getCommitHash at h1 h2
  cases ha1 : parseAmount b1.amount with
  | none => simp [ha1] at h1
  | some a1 =>
    cases ha2 : parseAmount b2.amount with
    | none => simp [ha2] at h2
    | some a2 =>
      simp only [ha1, ha2, Outcome.ok.injEq] at h1 h2
      have hd := h1.trans h2.symm
      rcases C02_H_inj_or_collision H _ _ hd with he | hc
      · have he := List.append_cancel_left he
        have he := List.append_cancel_left he
        rcases C02_H_inj_or_collision H _ _ he with hdata | hc
        · unfold commitStructData at hdata
          simp only [List.append_assoc] at hdata
          have e0 := List.append_cancel_left hdata
          obtain ⟨etx, e1⟩ := List.append_inj e0 (by rw [hH, hH])
          obtain ⟨eamt, e2⟩ := List.append_inj e1 (by rw [be32_length, be32_length])
          obtain ⟨eblk, e3⟩ := List.append_inj e2 (by rw [be32_length, be32_length])
          obtain ⟨est, e4⟩ := List.append_inj e3 (by rw [be32_length, be32_length])
          obtain ⟨een, e5⟩ := List.append_inj e4 (by rw [be32_length, be32_length])
          obtain ⟨edg, esg⟩ := List.append_inj e5 (by rw [hH, hH])
          rcases C02_H_inj_or_collision H _ _ etx with htx | hc
          · rcases C02_H_inj_or_collision H _ _ edg with hdg | hc
            · rcases C02_H_inj_or_collision H _ _ esg with hsg | hc
              · left
                have p1 := parseAmount_range _ _ ha1
                have p2 := parseAmount_range _ _ ha2
                have eamt' : a1 = a2 := C02_be32_inj a1 a2 ⟨by omega, p1.2⟩ ⟨by omega, p2.2⟩
                  ⟨fun h => by omega, fun h => by omega⟩ eamt
                have eblk' := be32_inj_int64 _ _ r1.1 r2.1 eblk
                have est' := be32_inj_int64 _ _ r1.2.1 r2.2.1 est
                have een' := be32_inj_int64 _ _ r1.2.2 r2.2.2 een
                refine ⟨?_, C02_hexEncode_inj _ _ hdg, C02_hexEncode_inj _ _ hsg⟩
                simp [C02_fieldsOf, ha1, ha2, htx, eamt', eblk', est', een']
              · exact Or.inr hc
            · exact Or.inr hc
          · exact Or.inr hc
        · exact Or.inr hc
      · exact Or.inr hc

/-- the range guard of `parseAmount` is needed: without it `5` and `2^256 + 5` would be encoded
into the same word (this was accepted by the pinned tree; see DESIGN.md, D10) -/
theorem C02_amount_alias_witness : be32 5 = be32 (2 ^ 256 + 5) ∧ be32 5 = be32 (-(2 ^ 256 - 5)) := by
  constructor <;> (unfold be32 u256; congr 1)

/-! ### Signature malleation -/

/-- order of the secp256k1 group and its half -/
def C02_secpN : Nat := 0xFFFFFFFFFFFFFFFFFFFFFFFFFFFFFFFEBAAEDCE6AF48A03BBFD25E8CD0364141
def C02_halfN : Nat := C02_secpN / 2

/-- if s is a canonical (low) non-zero scalar then n − s is high: the malleated twin (r, n−s)
of an accepted signature fails the low-S verification -/
theorem C02_malleated_s_is_high (s : Nat) (h0 : 0 < s) (hs : s ≤ C02_halfN) :
    C02_halfN < C02_secpN - s := by
  unfold C02_halfN C02_secpN at *
  omega

theorem C02_malleation_rejected (S : Scheme) (h d r : Bytes) (s : Nat) (v : UInt8) (pub' : Bytes)
    (lowS : ∀ pub hh rs, S.verifyLowS pub hh rs = true → fromBE (rs.drop 32) ≤ C02_halfN)
    (hr : r.length = 32) (h0 : 0 < s) (hs : s ≤ C02_halfN)
    (hv : ¬ (27 ≤ v.toNat ∧ v.toNat ≤ 28))
    (hrec : S.recover h (r ++ toBE 32 (C02_secpN - s) ++ [v]) = some pub') (a : Bytes) :
    eipVerify S h d (r ++ toBE 32 (C02_secpN - s) ++ [v]) ≠ .ok a := by
  intro hok
  rw [C02_eipVerify_ok_iff] at hok
  obtain ⟨_, _, pub, h1, h2, _⟩ := hok
  have hn : normaliseV (r ++ toBE 32 (C02_secpN - s) ++ [v]) = r ++ toBE 32 (C02_secpN - s) ++ [v] := by
    simp [normaliseV, hv]
  rw [hn] at h2
  have htake : (r ++ toBE 32 (C02_secpN - s) ++ [v]).take 64 = r ++ toBE 32 (C02_secpN - s) := by
    rw [List.take_append_of_le_length (by simp [hr])]
    exact List.take_of_length_le (by simp [hr])
  rw [htake] at h2
  have := lowS _ _ _ h2
  have hdrop : (r ++ toBE 32 (C02_secpN - s)).drop 32 = toBE 32 (C02_secpN - s) := by
    rw [List.drop_append_of_le_length (by simp [hr])]
    simp [hr]
  rw [hdrop, fromBE_toBE_of_lt] at this
  · have := C02_malleated_s_is_high s h0 hs; omega
  · rw [pow256_32]; unfold C02_secpN; omega

/-! ### Completeness: what the node signs, it accepts, with its own address -/

/-- contract of the key signer with respect to the verification primitives -/
structure C02_SignerLaws (S : Scheme) (pubKey : Bytes) : Prop where
  form : ∀ h sig, S.sign h = some sig → ∃ rs v, sig = rs ++ [v] ∧ rs.length = 64 ∧ (v = 0 ∨ v = 1)
  recovers : ∀ h sig, S.sign h = some sig → S.recover h sig = some pubKey
  lowS : ∀ h sig, S.sign h = some sig → S.verifyLowS pubKey h (sig.take 64) = true

theorem C02_normalise_emit (rs : Bytes) (v : UInt8) (hv : v = 0 ∨ v = 1) :
    normaliseV (emitV (rs ++ [v])) = rs ++ [v] := by
  rcases hv with rfl | rfl <;> simp [emitV, normaliseV]

theorem C02_signWith_ok (S : Scheme) (pubKey : Bytes) (L : C02_SignerLaws S pubKey) (h sig' : Bytes)
    (hs : signWith S h = .ok sig') :
    sig'.length = 65 ∧ S.recover h (normaliseV sig') = some pubKey ∧
      S.verifyLowS pubKey h ((normaliseV sig').take 64) = true := by
  unfold signWith at hs
  cases hsig : S.sign h with
  | none => rw [hsig] at hs; cases hs
  | some sig =>
    rw [hsig] at hs
    injection hs with hs; subst hs
    obtain ⟨rs, v, rfl, hl, hv⟩ := L.form _ _ hsig
    rw [C02_normalise_emit rs v hv]
    refine ⟨?_, L.recovers _ _ hsig, L.lowS _ _ hsig⟩
    rcases hv with rfl | rfl <;> simp [emitV, hl]

theorem C02_own_bid_verifies (H : Bytes → Bytes) (S : Scheme) (pubKey : Bytes) (L : C02_SignerLaws S pubKey)
    (tx amt : Bytes) (blk st en : Int) (b : Bid)
    (h : constructSignedBid H S tx amt blk st en = .ok b) :
    verifyBid H S b = .ok (S.addrOf pubKey) := by
  unfold constructSignedBid at h
  split at h
  · cases h
  · simp only [Outcome.bind_eq_ok_iff] at h
    obtain ⟨hash, hhash, sig, hsig, hb⟩ := h
    injection hb with hb; subst hb
    obtain ⟨hl, hr, hv⟩ := C02_signWith_ok S pubKey L _ _ hsig
    rw [C02_verifyBid_ok_iff]
    refine ⟨hash, sig, rfl, rfl, ?_, hl, pubKey, hr, hv, rfl⟩
    -- the hash does not depend on digest / signature
    simpa [getBidHash, bidStructData] using hhash

theorem C02_own_commitment_verifies (H : Bytes → Bytes) (S : Scheme) (pubKey : Bytes) (L : C02_SignerLaws S pubKey)
    (b : Bid) (c : Commitment) (h : constructCommitment H S b = .ok c) :
    verifyCommitment H S c = .ok (S.addrOf pubKey) := by
  unfold constructCommitment at h
  simp only [Outcome.bind_eq_ok_iff] at h
  obtain ⟨ba, hba, hash, hhash, sig, hsig, hc⟩ := h
  injection hc with hc; subst hc
  obtain ⟨hl, hr, hv⟩ := C02_signWith_ok S pubKey L _ _ hsig
  rw [C02_verifyCommitment_ok_iff]
  exact ⟨hash, sig, b, ba, rfl, rfl, rfl, hba, hhash, hl, pubKey, hr, hv, rfl⟩

/-! ### The executable spec used to judge the implementation is the proved characterisation -/

theorem C02_spec_bidAccept_iff (H : Bytes → Bytes) (S : Scheme) (b : Bid) (a : Bytes) :
    Spec.C02.bidAccept H S b a = true ↔ verifyBid H S b = .ok a := by
  rw [C02_verifyBid_ok_iff]
  unfold Spec.C02.bidAccept Spec.C02.sigAccept
  cases hd : b.digest with
  | none => simp
  | some d =>
    cases hs : b.signature with
    | none => simp
    | some s =>
      cases hr : S.recover d (normaliseV s) with
      | none => simp [hr]
      | some pub =>
        simp only [hr, Bool.and_eq_true, beq_iff_eq, Option.some.injEq, exists_and_left, exists_eq_left']

import MevCommit.Model.Nonce
import MevCommit.Spec.C08
/-
C08 — property theorems.  Model `Nonce.step/run`, spec `Spec.C08.check`.
All statements quantify over arbitrary operation lists (any interleaving of sends — each an
atomic step because `Send` holds the mutex —, monitor updates and restarts; any fault
placement; any pending answers, lagging or not).
-/
open MevCommit MevCommit.Nonce

theorem C08_window_constant : Extracted.maxSentTxs = 1024 := by decide

/-- the counter after `getNonce` is the maximum of counter and answer -/
theorem C08_getNonce_max (n p : Nat) : getNonce n p = max n p := by
  unfold getNonce
  by_cases h0 : n = 0
  · subst h0; simp
  · simp only [h0, ite_false]
    by_cases h : n < p
    · simp [h, Nat.max_eq_right (Nat.le_of_lt h)]
    · simp [h, Nat.max_eq_left (Nat.le_of_not_lt h)]

/-- coupling between allocator state and the spec's bookkeeping -/
def C08_Inv (s : St) (t : Spec.C08.S) : Prop :=
  s.nonce = max (Spec.C08.base t) t.maxPend ∧ s.confirmed ≤ t.highest

theorem C08_inv_init : C08_Inv init Spec.C08.S0 := by
  simp [C08_Inv, init, Spec.C08.S0, Spec.C08.base]

/-- one step: the emitted event is accepted by the spec and the coupling is preserved -/
theorem C08_step_ok (s : St) (t : Spec.C08.S) (op : Op) (h : C08_Inv s t) :
    (Spec.C08.stepOk t (step s op).2).1 = true ∧
    C08_Inv (step s op).1 (Spec.C08.stepOk t (step s op).2).2 := by
  obtain ⟨hn, hc⟩ := h
  cases op with
  | monitor c =>
    simp only [step, Spec.C08.stepOk, C08_Inv, Spec.C08.base, true_and]
    exact ⟨hn, Nat.le_max_right _ _⟩
  | restart =>
    simp only [step, Spec.C08.stepOk, C08_Inv, Spec.C08.base, init, true_and]
    exact ⟨by simp, Nat.zero_le _⟩
  | cancel =>
    simp only [step, Spec.C08.stepOk, C08_Inv, true_and]
    exact ⟨hn, hc⟩
  | monitorFailed =>
    simp only [step, Spec.C08.stepOk, C08_Inv, true_and]
    exact ⟨hn, hc⟩
  | send r =>
    cases hp : r.pending with
    | none =>
      simp only [step, hp, Spec.C08.stepOk, C08_Inv, true_and]
      exact ⟨hn, hc⟩
    | some p =>
      simp only [step, hp]
      have hg : getNonce s.nonce p = max (Spec.C08.base t) (max t.maxPend p) := by
        rw [C08_getNonce_max, hn, Nat.max_assoc]
      generalize getNonce s.nonce p = n at hg ⊢
      by_cases ha : allow { s with nonce := n } n = true
      · by_cases hf : r.fault = .none
        · -- success
          simp only [ha, hf, Bool.not_true, Bool.false_eq_true, ite_false, ne_eq, not_true_eq_false,
            Spec.C08.stepOk, C08_Inv]
          simp only [allow, decide_eq_true_eq, C08_window_constant] at ha
          have hb : Spec.C08.base { t with last := some n, maxPend := 0 } = n + 1 := rfl
          refine ⟨?_, ?_, hc⟩
          · simp only [Bool.and_eq_true, decide_eq_true_eq]
            refine ⟨⟨⟨?_, ?_⟩, ?_⟩, ?_⟩ <;> omega
          · rw [hb]; simp
        · simp only [ha, hf, Bool.not_true, Bool.false_eq_true, ite_false, ne_eq, not_false_eq_true,
            ite_true, Spec.C08.stepOk, C08_Inv, true_and]
          exact ⟨hg, hc⟩
      · simp only [Bool.not_eq_true] at ha
        simp only [ha, Bool.not_false, ite_true, Spec.C08.stepOk, C08_Inv, true_and]
        exact ⟨hg, hc⟩

theorem C08_run_ok (ops : List Op) (s : St) (t : Spec.C08.S) (h : C08_Inv s t) :
    Spec.C08.check t (run s ops) = true := by
  induction ops generalizing s t with
  | nil => simp [run, Spec.C08.check]
  | cons op ops ih =>
    have := C08_step_ok s t op h
    simp only [run, Spec.C08.check, this.1, Bool.true_and]
    exact ih _ _ this.2

/-- **Main theorem.**  Every history of a freshly started client satisfies the property. -/
theorem C08_all_histories (ops : List Op) : Spec.C08.ok (run init ops) = true :=
  C08_run_ok ops init Spec.C08.S0 C08_inv_init

/-! Consequences of the spec, stated directly on event lists (so that they also apply to any
implementation trace the spec accepts). -/

theorem C08_check_sent (t : Spec.C08.S) (n p : Nat) (es : List Ev) :
    Spec.C08.check t (.sent n p :: es) = true ↔
      (Spec.C08.base t ≤ n ∧ p ≤ n ∧ (n ≤ Spec.C08.base t ∨ n ≤ t.maxPend ∨ n ≤ p) ∧ n ≤ t.highest + 1024) ∧
      Spec.C08.check ⟨some n, 0, t.highest⟩ es = true := by
  simp [Spec.C08.check, Spec.C08.stepOk, and_assoc]

theorem C08_check_failed (t : Spec.C08.S) (q : Option Nat) (es : List Ev) :
    Spec.C08.check t (.failed q :: es) = true ↔
      Spec.C08.check ⟨t.last, (match q with | some x => max t.maxPend x | none => t.maxPend), t.highest⟩ es = true := by
  cases q <;> simp [Spec.C08.check, Spec.C08.stepOk]

theorem C08_base_some (n m h : Nat) : Spec.C08.base ⟨some n, m, h⟩ = n + 1 := rfl

/-- successful nonces of one lifetime, in order -/
def C08_lifetimeNonces : List Ev → List Nat
  | [] => []
  | .sent n _ :: es => n :: C08_lifetimeNonces es
  | .restarted :: _ => []
  | _ :: es => C08_lifetimeNonces es

private theorem lower_bound (t : Spec.C08.S) (es : List Ev) (h : Spec.C08.check t es = true) :
    ∀ n ∈ C08_lifetimeNonces es, Spec.C08.base t ≤ n := by
  induction es generalizing t with
  | nil => simp [C08_lifetimeNonces]
  | cons e es ih =>
    simp only [Spec.C08.check, Bool.and_eq_true] at h
    obtain ⟨h1, h2⟩ := h
    cases e with
    | sent n p =>
      simp only [C08_lifetimeNonces, List.mem_cons]
      simp only [Spec.C08.stepOk, Bool.and_eq_true, decide_eq_true_eq] at h1
      intro m hm
      rcases hm with rfl | hm
      · omega
      · have := ih _ h2 m hm
        simp only [Spec.C08.stepOk, Spec.C08.base] at this
        omega
    | failed p =>
      cases p <;> simp only [C08_lifetimeNonces] <;> intro m hm <;>
        simpa [Spec.C08.stepOk, Spec.C08.base] using ih _ h2 m hm
    | mon c =>
      simp only [C08_lifetimeNonces]; intro m hm
      simpa [Spec.C08.stepOk, Spec.C08.base] using ih _ h2 m hm
    | cancelled =>
      simp only [C08_lifetimeNonces]; intro m hm
      simpa [Spec.C08.stepOk, Spec.C08.base] using ih _ h2 m hm
    | monFailed =>
      simp only [C08_lifetimeNonces]; intro m hm
      simpa [Spec.C08.stepOk, Spec.C08.base] using ih _ h2 m hm
    | restarted => simp [C08_lifetimeNonces]

/-- **No reuse**: within a lifetime the successfully submitted nonces are strictly increasing. -/
theorem C08_strictly_increasing (t : Spec.C08.S) (es : List Ev) (h : Spec.C08.check t es = true) :
    (C08_lifetimeNonces es).Pairwise (· < ·) := by
  induction es generalizing t with
  | nil => simp [C08_lifetimeNonces]
  | cons e es ih =>
    simp only [Spec.C08.check, Bool.and_eq_true] at h
    obtain ⟨h1, h2⟩ := h
    cases e with
    | sent n p =>
      simp only [C08_lifetimeNonces, List.pairwise_cons]
      refine ⟨?_, ih _ h2⟩
      intro m hm
      have := lower_bound _ es h2 m hm
      simp only [Spec.C08.stepOk, Spec.C08.base] at this
      omega
    | failed p => cases p <;> simpa [C08_lifetimeNonces] using ih _ h2
    | mon c => simpa [C08_lifetimeNonces] using ih _ h2
    | cancelled => simpa [C08_lifetimeNonces] using ih _ h2
    | monFailed => simpa [C08_lifetimeNonces] using ih _ h2
    | restarted => simp [C08_lifetimeNonces]

/-- **Window**: every accepted submission is within 1024 of the highest confirmed nonce reported
so far, and at least its own pending answer. -/
theorem C08_window_and_pending (t : Spec.C08.S) (n p : Nat) (es : List Ev)
    (h : Spec.C08.check t (.sent n p :: es) = true) : p ≤ n ∧ n ≤ t.highest + 1024 := by
  rw [C08_check_sent] at h
  omega

/-- **No skip**: two consecutive successes with nothing between and no outside transaction
reported (answer ≤ previous+1) use consecutive nonces. -/
theorem C08_consecutive (t : Spec.C08.S) (n p n' p' : Nat) (es : List Ev)
    (h : Spec.C08.check t (.sent n p :: .sent n' p' :: es) = true) (hp : p' ≤ n + 1) : n' = n + 1 := by
  rw [C08_check_sent, C08_check_sent, C08_base_some] at h
  simp only at h
  omega

/-- **A failed request consumes no nonce**: success, then a failure whose answer reported no
outside transaction, then success ⇒ still the consecutive nonce. -/
theorem C08_failure_consumes_nothing (t : Spec.C08.S) (n p n' p' : Nat) (q : Option Nat) (es : List Ev)
    (h : Spec.C08.check t (.sent n p :: .failed q :: .sent n' p' :: es) = true)
    (hq : ∀ x, q = some x → x ≤ n + 1) (hp : p' ≤ n + 1) : n' = n + 1 := by
  rw [C08_check_sent, C08_check_failed, C08_check_sent, C08_base_some] at h
  cases q with
  | none => simp only at h; omega
  | some x => have := hq x rfl; simp only at h; omega

/-- **Cancellation does not disturb the allocator**: the state after a cancellation is the state
before it, so every later submission gets the nonce it would have got anyway — in particular the
send after a send-and-cancel still uses the consecutive nonce. -/
theorem C08_cancel_is_invisible (s : St) (ops : List Op) :
    (step s .cancel).1 = s ∧ run s (.cancel :: ops) = .cancelled :: run s ops := by
  exact ⟨rfl, rfl⟩

/-- **A monitor round that learns nothing changes nothing**: when the confirmed-nonce query of a
round fails — whatever the node's pending-nonce query would have answered — the allocator and the
window are as before; in particular a request that was outside the window stays outside it. -/
theorem C08_failed_monitor_round_is_invisible (s : St) (ops : List Op) (r : SendReq) :
    (step s .monitorFailed).1 = s ∧ run s (.monitorFailed :: ops) = .monFailed :: run s ops ∧
    (step (step s .monitorFailed).1 (.send r)) = step s (.send r) := by
  exact ⟨rfl, rfl, rfl⟩

/-- **Across a restart** the client persists nothing; strict monotonicity then needs the chain
node's first answer to exceed what it already accepted from this account.  Under that
hypothesis the first submission after the restart exceeds every earlier one. -/
theorem C08_after_restart (s : St) (r : SendReq) (p prevMax : Nat)
    (hp : r.pending = some p) (hfresh : prevMax < p) (n q : Nat)
    (h : (step (step s .restart).1 (.send r)).2 = .sent n q) : prevMax < n := by
  simp only [step, hp, init] at h
  by_cases ha : allow { nonce := getNonce 0 p, confirmed := 0 } (getNonce 0 p) = true
  · by_cases hf : r.fault = .none
    · simp [ha, hf] at h
      have := C08_getNonce_max 0 p
      omega
    · simp [ha, hf] at h
  · simp [ha] at h

/-- the hypothesis is necessary: a lagging first answer after a restart re-uses a nonce -/
theorem C08_restart_needs_fresh_answer :
    run init [.send ⟨some 5, .none⟩, .restart, .send ⟨some 5, .none⟩] =
      [.sent 5 5, .restarted, .sent 5 5] := by decide

/-- non-vacuity: a concrete history with a lagging answer, a failure and a monitor update -/
example : run init [.send ⟨some 0, .none⟩, .send ⟨some 0, .none⟩, .send ⟨some 1, .submit⟩,
    .monitor 2, .send ⟨some 7, .none⟩, .send ⟨none, .none⟩, .send ⟨some 3, .none⟩] =
    [.sent 0 0, .sent 1 0, .failed (some 1), .mon 2, .sent 7 7, .failed none, .sent 8 3] := by decide

import MevCommit.Model.Preconf
import MevCommit.Model.Signer
import MevCommit.Model.Registry
import MevCommit.Model.ProviderSvc
/-
C01 — the provider's bid path with every gate evaluated by the model of the component that
implements it: `VerifyBid` (Model/Signer, C02), `CheckBidderAllowance` (Model/Registry, C11,
asked about the address recovered from the bid's signature), the published format rules
(Model/ProviderSvc, C12/C19), then the handler of Model/Preconf.  This is the function the
correspondence driver runs (Driver/C01 builds the `Arrival` from the harness's case).
-/
namespace MevCommit.ProviderNode
open MevCommit MevCommit.Preconf

structure Arrival where
  role : Int                      -- p2p.PeerType proven by the sending peer's handshake (2 = bidder)
  readOk : Bool
  bid : Signer.Bid
  minAns : Registry.CallAns       -- registry read: minimum allowance
  amtAns : Registry.CallAns       -- registry read: allowance of the bid's signer
  schedule : List Event
  signOk : Bool
  storeOk : Bool
  writeOk : Bool

def envOf (H : Bytes → Bytes) (S : Signer.Scheme) (a : Arrival) : Env :=
  { roleIsBidder := a.role == 2,
    readOk := a.readOk,
    verifyOk := (Signer.verifyBid H S a.bid).isOk,
    allowanceOk := (Registry.check a.minAns a.amtAns).answer,
    formatOk := ProviderSvc.validFormat a.bid.txHash a.bid.amount a.bid.blockNumber a.bid.decayStart a.bid.decayEnd
      (a.bid.digest.getD []),
    schedule := a.schedule, signOk := a.signOk, storeOk := a.storeOk, writeOk := a.writeOk }

def provider (H : Bytes → Bytes) (S : Signer.Scheme) (a : Arrival) : Obs := handleBid (envOf H S a)

/-- the node's long-lived components handling one arrival after another: every arrival is judged
on its own contents (nothing is remembered about the bids, digests or signatures seen before) -/
def providerSession (H : Bytes → Bytes) (S : Signer.Scheme) (as : List Arrival) : List Obs :=
  as.map (provider H S)

end MevCommit.ProviderNode

import MevCommit.Basic
/-
C18 — model of the node-identity pipeline:
  util.PadKeyTo32Bytes            (pkg/util/util.go:11-18)         left-pad big.Int.Bytes() to 32
  libp2p secp256k1 peer identity  (identity multihash of the protobuf-wrapped 33-byte key)
  GetEthAddressFromPeerID         (pkg/p2p/libp2p/address.go:11-37) extract, decompress, keccak
The elliptic-curve maps (scalar → point, compress, decompress) and the hash are parameters.
-/
namespace MevCommit.Identity

/-- `PadKeyTo32Bytes` -/
def pad32 (d : Nat) : Bytes :=
  let kb := natBytes d
  if kb.length < 32 then List.replicate (32 - kb.length) 0 ++ kb else kb

/-- protobuf `PublicKey{Type: Secp256k1 (2), Data: pk}` : 08 02 12 <len> pk -/
def keyProto (pk : Bytes) : Bytes := [0x08, 0x02, 0x12, UInt8.ofNat pk.length] ++ pk

/-- peer id = identity multihash (code 0x00, length) of the key protobuf (≤ 42 bytes) -/
def peerId (pk : Bytes) : Bytes := [0x00, UInt8.ofNat (keyProto pk).length] ++ keyProto pk

/-- `peer.ID.ExtractPublicKey` + `Raw()` for a secp256k1 identity id -/
def extractKey (id : Bytes) : Option Bytes :=
  match id with
  | 0x00 :: l :: 0x08 :: 0x02 :: 0x12 :: n :: rest =>
    if l.toNat = rest.length + 4 ∧ n.toNat = rest.length ∧ rest.length = 33 then some rest else none
  | _ => none

structure Curve where
  pubOf : Nat → Bytes                 -- scalar → uncompressed point (65 bytes, 0x04‖X‖Y)
  compress : Bytes → Bytes            -- 65 → 33
  decompress : Bytes → Option Bytes   -- 33 → 65 (`crypto.DecompressPubkey`)

/-- Ethereum address of an uncompressed key: last 20 bytes of H(X‖Y) -/
def addrOfPub (H : Bytes → Bytes) (pub : Bytes) : Bytes := (H (pub.drop 1)).drop 12

/-- `GetEthAddressFromPeerID` -/
def ethAddrFromPeerId (H : Bytes → Bytes) (C : Curve) (id : Bytes) : Option Bytes :=
  match extractKey id with
  | none => none
  | some pk =>
    match C.decompress pk with
    | none => none
    | some pub => some (addrOfPub H pub)

/-- the identity the node derives at start-up from its key `d`: libp2p unmarshals the padded
    32 bytes as the scalar, derives the public key and the identity id -/
def nodePeerId (C : Curve) (d : Nat) : Bytes := peerId (C.compress (C.pubOf (fromBE (pad32 d))))

end MevCommit.Identity

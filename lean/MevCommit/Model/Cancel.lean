import MevCommit.Basic
import MevCommit.Extracted
/-
C10 — model of `EvmClient.CancelTx` (pkg/evmclient/evmclient.go:320-384) over naturals
(`big.Int`), with the chain node and the key signer as an explicit environment.

  txn, isPending, err := TransactionByHash(h)   err → error;  !isPending → NotFound error
  gasFeeCap := txn.GasPrice(); gasTipCap, err := SuggestGasTipCap()        err → error
  if gasFeeCap <= txn.GasFeeCap() { gasFeeCap = txn.GasFeeCap() }
  if gasTipCap <= txn.GasTipCap() { gasTipCap = txn.GasTipCap() }
  gasTipCap = gasTipCap*110/100 ; gasFeeCap += gasTipCap
  tx := DynamicFeeTx{Nonce: txn.Nonce(), ChainID, To: owner, Value: 0, Gas: 21000, caps, Data: {}}
  SignTx err → error ; SendTransaction err → error
The literals 110, 100, 0, 21000 come from `Extracted` (regenerated from the source).
-/
namespace MevCommit.Cancel

/-- what the accessors of the looked-up transaction report -/
structure TxCaps where
  nonce : Nat
  gasPrice : Nat   -- tx.GasPrice(): the fee cap for a dynamic-fee tx, the price for a legacy tx
  feeCap : Nat     -- tx.GasFeeCap()
  tip : Nat        -- tx.GasTipCap()
  deriving Repr, DecidableEq

inductive Lookup where
  | error               -- TransactionByHash failed (any error except the typed not-found)
  | notFound            -- ethereum.NotFound
  | mined (t : TxCaps)  -- found, isPending = false
  | pending (t : TxCaps)
  deriving Repr, DecidableEq

structure Env where
  lookup : Lookup
  suggestTip : Option Nat    -- none: SuggestGasTipCap failed
  signOk : Bool
  sendOk : Bool
  chainId : Nat
  deriving Repr

structure Replacement where
  nonce : Nat
  chainId : Nat
  toSelf : Bool
  value : Nat
  dataLen : Nat
  gas : Nat
  tip : Nat
  feeCap : Nat
  deriving Repr, DecidableEq

structure Obs where
  ok : Bool                         -- CancelTx returned a nil error
  submitted : List Replacement      -- transactions handed to SendTransaction
  deriving Repr, DecidableEq

def bumpedTip (t : TxCaps) (sugg : Nat) : Nat :=
  (if sugg ≤ t.tip then t.tip else sugg) * Extracted.cancelBumpNum / Extracted.cancelBumpDen

def replacement (e : Env) (t : TxCaps) (sugg : Nat) : Replacement :=
  let feeCap0 := if t.gasPrice ≤ t.feeCap then t.feeCap else t.gasPrice
  let tip := bumpedTip t sugg
  { nonce := t.nonce, chainId := e.chainId, toSelf := true, value := Extracted.cancelValue,
    dataLen := 0, gas := Extracted.cancelGas, tip := tip, feeCap := feeCap0 + tip }

def cancelTx (e : Env) : Obs :=
  match e.lookup with
  | .error => ⟨false, []⟩
  | .notFound => ⟨false, []⟩
  | .mined _ => ⟨false, []⟩
  | .pending t =>
    match e.suggestTip with
    | none => ⟨false, []⟩
    | some sugg =>
      if !e.signOk then ⟨false, []⟩
      else ⟨e.sendOk, [replacement e t sugg]⟩

end MevCommit.Cancel

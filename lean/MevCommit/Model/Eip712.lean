import MevCommit.Basic
/-
C03 — a generic EIP-712 encoder (typed structured data hashing), written from the standard and
independent of the hand-rolled concatenation in `Model/Signer`: `encodeType`, `hashStruct`
for members of type `string` and `uintN`, the domain separator and the 0x19 0x01 envelope.
-/
namespace MevCommit.Eip712

inductive Ty where
  | string
  | uint (bits : Nat)
  deriving Repr, DecidableEq

structure Member where
  name : Bytes
  ty : Ty
  deriving Repr, DecidableEq

structure Schema where
  name : Bytes
  members : List Member
  deriving Repr, DecidableEq

inductive Val where
  | str (s : Bytes)
  | num (n : Nat)
  deriving Repr, DecidableEq

def tyName : Ty → Bytes
  | .string => [115, 116, 114, 105, 110, 103]                  -- "string"
  | .uint bits => [117, 105, 110, 116] ++ showDec bits         -- "uint" ++ bits

def memberText (m : Member) : Bytes := tyName m.ty ++ (32 :: m.name)   -- "type name"

def joinComma : List Bytes → Bytes
  | [] => []
  | [x] => x
  | x :: xs => x ++ (44 :: joinComma xs)

/-- `encodeType`: Name(type1 name1,type2 name2,…) -/
def encodeType (s : Schema) : Bytes :=
  s.name ++ (40 :: (joinComma (s.members.map memberText) ++ [41]))

/-- `encodeData`: dynamic `string` → hash of its bytes; `uintN` → 32-byte big-endian word -/
def encodeVal (H : Bytes → Bytes) : Val → Bytes
  | .str s => H s
  | .num n => toBE 32 n

def hashStruct (H : Bytes → Bytes) (s : Schema) (vals : List Val) : Bytes :=
  H (H (encodeType s) ++ (vals.map (encodeVal H)).flatten)

/-- EIP712Domain(string name,string version) -/
def domainSchema : Schema :=
  ⟨[69, 73, 80, 55, 49, 50, 68, 111, 109, 97, 105, 110],
   [⟨[110, 97, 109, 101], .string⟩, ⟨[118, 101, 114, 115, 105, 111, 110], .string⟩]⟩

def digest (H : Bytes → Bytes) (domName domVersion : Bytes) (s : Schema) (vals : List Val) : Bytes :=
  H ([0x19, 0x01] ++ (hashStruct H domainSchema [.str domName, .str domVersion] ++ hashStruct H s vals))

end MevCommit.Eip712

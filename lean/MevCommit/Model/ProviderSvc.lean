import MevCommit.Basic
import MevCommit.Model.BidderApi
/-
C12 — model of the provider RPC service's bid table (pkg/rpc/provider/service.go:66-167).

  ProcessBid(bid):   validate (protovalidate rules)                       invalid → error
                     lock; bidsInProcess[digest] = callback; unlock       (overwrites an equal digest)
                     select { ctx.Done → lock; delete(digest); unlock; error
                            | receiver <- bid → return the bid's channel }
  SendProcessedBids: for each decision: validate (status ∈ {1,2})         invalid → stream ends
                     lock; cb, ok = bidsInProcess[digest]; delete; unlock
                     ok → cb(status)  = buffered send (cap 1) + close of that bid's channel
Atomic steps: the critical sections and the channel hand-off.  Bid ids are allocated by a
counter, so they are unique by construction; `digestOf` remembers each bid's digest.
-/
namespace MevCommit.ProviderSvc

structure St where
  pending : Nat → Option Nat        -- digest → bid id whose callback is registered
  digestOf : Nat → Option Nat       -- bid id → digest (ghost)
  delivered : List (Nat × Nat)      -- (bid id, status) in delivery order
  engineSaw : List Nat              -- bid ids handed to the engine
  streamEnds : Nat                  -- times the decision stream ended with an error
  nextId : Nat

def init : St := ⟨fun _ => none, fun _ => none, [], [], 0, 0⟩

def upd {α} (f : Nat → Option α) (k : Nat) (v : Option α) : Nat → Option α :=
  fun i => if i = k then v else f i

inductive Op where
  | submit (digest : Nat) (valid : Bool)   -- ProcessBid up to and including registration
  | handoff (id : Nat)                     -- the engine took the bid from the receiver channel
  | abandon (id : Nat)                     -- ctx.Done branch: delete by digest, return error
  | decision (digest status : Nat)
  deriving Repr, DecidableEq

inductive Out where
  | rejected                  -- validation error, nothing registered
  | registered (id : Nat)
  | ok
  | delivered (id : Nat)      -- decision reached a pending bid
  | ignored                   -- decision for an unknown / answered / abandoned digest
  | streamEnded               -- out-of-range status
  deriving Repr, DecidableEq

def validStatus (s : Nat) : Bool := s == 1 || s == 2

def step (s : St) : Op → St × Out
  | .submit d valid =>
    if !valid then (s, .rejected)
    else
      let id := s.nextId
      ({ s with pending := upd s.pending d (some id), digestOf := upd s.digestOf id (some d),
                nextId := id + 1 }, .registered id)
  | .handoff id => ({ s with engineSaw := s.engineSaw ++ [id] }, .ok)
  | .abandon id =>
    match s.digestOf id with
    | none => (s, .ok)
    | some d => ({ s with pending := upd s.pending d none }, .ok)
  | .decision d st =>
    if !validStatus st then ({ s with streamEnds := s.streamEnds + 1 }, .streamEnded)
    else match s.pending d with
      | none => (s, .ignored)
      | some id => ({ s with pending := upd s.pending d none, delivered := s.delivered ++ [(id, st)] }, .delivered id)

def run : St → List Op → List Out
  | _, [] => []
  | s, op :: ops => (step s op).2 :: run (step s op).1 ops

def final : St → List Op → St
  | s, [] => s
  | s, op :: ops => final (step s op).1 ops

/-- the published format rules applied to the bid before it is queued for the engine
    (rpc/providerapi/v1/providerapi.proto), on the message ProcessBid builds:
    TxHashes = split(txHash, ","), digest 1..64 bytes -/
def validFormat (txHash amount : Bytes) (blockNumber decayStart decayEnd : Int) (digest : Bytes) : Bool :=
  let hs := Semver.splitOn 44 txHash
  hs.all BidderApi.validHash && !hs.isEmpty && BidderApi.validAmount amount &&
  decide (0 < blockNumber) && decide (1 ≤ digest.length ∧ digest.length ≤ 64) &&
  decide (0 < decayStart) && decide (0 < decayEnd)

end MevCommit.ProviderSvc

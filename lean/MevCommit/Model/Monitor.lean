import MevCommit.Basic
import MevCommit.Extracted
/-
C09 — model of the receipt monitor (pkg/evmclient/txmonitor.go) and of the client's pending
list (pkg/evmclient/evmclient.go:224-253, waitForTxn).

Waiters are registered per (nonce, hash) under the monitor's mutex (`watchTx`); `check` takes a
snapshot of the rows below the confirmed nonce, asks the chain node for their receipts in
batches, and for every answered element calls `notify` (under the mutex: send the result to every
waiter of the row, close their channels, delete the row).  The client's own waiter (`waitForTxn`)
deletes the entry of a mined transaction and flags the entry of a replaced one (`cancelled`);
`WaitForReceipt` answers a flagged entry at once and rejects a hash without entry.  "No receipt" for a row below the
confirmed nonce means the transaction was replaced: `cancelled`.  Shutdown cancels the base
context; the watch loop's deferred drain (under the mutex) sends `closed` to every remaining
waiter, closes the channels and empties the table; `watchTx` refuses new waiters once shutdown
began.  Atomic steps = the critical sections.  Waiter ids come from a counter (unique).
A send on a channel that was already closed is a crash: `crashed`.
-/
namespace MevCommit.Monitor

inductive ChainAns where
  | receipt (status : Nat)   -- the chain has a receipt for this hash
  | notFound                 -- no receipt (sentinel error of the mocks, or JSON null over a real transport)
  | otherErr                 -- any other per-element error
  | empty                    -- element left without result
  deriving Repr, DecidableEq

inductive Outcome where
  | receipt (hash status : Nat)
  | cancelled
  | closed
  deriving Repr, DecidableEq

structure WInfo where
  nonce : Nat
  hash : Nat
  internal : Bool     -- the client's own waiter (waitForTxn), which maintains the pending list
  deriving Repr, DecidableEq

structure St where
  rows : Nat → Nat → List Nat          -- nonce → hash → waiter ids
  info : Nat → Option WInfo
  delivered : List (Nat × Outcome)     -- (waiter, outcome) in delivery order
  cancelProof : List (Nat × Nat)       -- ghost: (waiter, confirmed nonce the cancelling snapshot used)
  shutdown : Bool
  drained : Bool
  crashed : Bool
  pending : List (Nat × Nat)           -- client's sentTxs: (hash, nonce)
  submitted : List (Nat × Nat)         -- ghost: everything the client ever sent
  keys : List (Nat × Nat)              -- every (nonce, hash) that ever had a row (to enumerate the table)
  nextId : Nat
  cancelledSeen : List Nat             -- hashes whose sentTxs entry carries the `cancelled` flag (kept, not pending)

def init : St :=
  ⟨fun _ _ => [], fun _ => none, [], [], false, false, false, [], [], [], 0, []⟩

inductive Op where
  | send (nonce hash : Nat)                  -- client submitted a tx: pending entry + internal waiter
  | watch (nonce hash : Nat)                 -- WaitForReceipt registers an external waiter
  | reply (c nonce hash : Nat) (a : ChainAns) -- one batch element answered, snapshot taken at confirmed nonce c
  | beginShutdown
  | drain
  | observe (w : Nat)                        -- waitForTxn goroutine consumes its waiter's outcome
  | abandon (w : Nat)                        -- a WaitForReceipt caller's context ended: it stops reading its channel
  deriving Repr, DecidableEq

inductive Out where
  | none
  | waiter (id : Nat)
  | refused                                  -- watch after shutdown began: "monitor closed"
  | lateCancelled                            -- WaitForReceipt on an entry already flagged cancelled: answered at once
  | unknownTx                                -- WaitForReceipt on a hash the client no longer tracks: "tx not found"
  deriving Repr, DecidableEq

def deliveredIds (s : St) : List Nat := s.delivered.map (·.1)

def setRow (rows : Nat → Nat → List Nat) (n h : Nat) (v : List Nat) : Nat → Nat → List Nat :=
  fun n' h' => if n' = n ∧ h' = h then v else rows n' h'

/-- register a waiter -/
def addWaiter (s : St) (n h : Nat) (internal : Bool) : St × Out :=
  if s.shutdown then (s, .refused)
  else
    let id := s.nextId
    ({ s with rows := setRow s.rows n h (s.rows n h ++ [id]),
              info := fun i => if i = id then some ⟨n, h, internal⟩ else s.info i,
              keys := if s.keys.contains (n, h) then s.keys else (n, h) :: s.keys,
              nextId := id + 1 }, .waiter id)

/-- `notify`: one result to every waiter of the row, close, delete the row -/
def notify (s : St) (n h : Nat) (o : Outcome) (c : Nat) : St :=
  let ws := s.rows n h
  { s with rows := setRow s.rows n h [],
           delivered := s.delivered ++ ws.map (fun w => (w, o)),
           cancelProof := if o = .cancelled then s.cancelProof ++ ws.map (fun w => (w, c)) else s.cancelProof,
           crashed := s.crashed || ws.any (fun w => (deliveredIds s).contains w) }

def step (s : St) : Op → St × Out
  | .send n h =>
    -- `c.sentTxs[hash] = txnDetails{nonce, created}`: a fresh entry, flag clear
    let s1 := { s with pending := (h, n) :: s.pending, submitted := (h, n) :: s.submitted,
                       cancelledSeen := s.cancelledSeen.filter (fun x => x ≠ h) }
    addWaiter s1 n h true
  | .watch n h =>
    -- WaitForReceipt: look the hash up in sentTxs first, then register with the monitor
    if s.cancelledSeen.contains h then (s, .lateCancelled)
    else if !(s.pending.any (fun p => p.1 = h)) then (s, .unknownTx)
    else addWaiter s n h false
  | .reply c n h a =>
    if ¬ (n < c) then (s, .none)             -- only rows below the snapshot's confirmed nonce are queried
    else match a with
      | .receipt st => (notify s n h (.receipt h st) c, .none)
      | .notFound => (notify s n h .cancelled c, .none)
      | .otherErr => (s, .none)
      | .empty => (s, .none)
  | .beginShutdown => ({ s with shutdown := true }, .none)
  | .drain =>
    if !s.shutdown then (s, .none)
    else
      -- the deferred drain walks the table: closed to every waiter, close the channel; then empties it
      let s' := s.keys.foldl (fun st k => notify st k.1 k.2 .closed 0) s
      ({ s' with rows := fun _ _ => [], drained := true }, .none)
  | .abandon _ => (s, .none)                  -- the channel stays in its row; delivery to it must not block anybody
  | .observe w =>
    match s.info w, s.delivered.find? (fun d => d.1 = w) with
    | some i, some (_, o) =>
      -- mined: the entry is deleted; replaced: the entry is flagged and leaves the pending view
      if i.internal ∧ o ≠ .closed then
        ({ s with pending := s.pending.filter (fun p => p.1 ≠ i.hash),
                  cancelledSeen := if o = .cancelled then i.hash :: s.cancelledSeen else s.cancelledSeen }, .none)
      else (s, .none)
    | _, _ => (s, .none)

def run : St → List Op → List Out
  | _, [] => []
  | s, op :: ops => (step s op).2 :: run (step s op).1 ops

def final : St → List Op → St
  | s, [] => s
  | s, op :: ops => final (step s op).1 ops

/-- `check`'s loop: `for start := 0; start < len; start += batchSize { end := min(start+batchSize, len);
one batch call for txHashes[start:end]; for i := range batch { tHash := txHashes[start+i] ... } }`.
The list returned is the sequence of hashes the results are attributed to, in processing order.
`fuel` bounds the number of batches. -/
def checkOrder (bs : Nat) (l : List α) (start fuel : Nat) : List α :=
  match fuel with
  | 0 => []
  | fuel + 1 =>
    if start < l.length then
      let e := min (start + bs) l.length
      (List.range (e - start)).filterMap (fun i => l[start + i]?) ++ checkOrder bs l e fuel
    else []


end MevCommit.Monitor

import MevCommit.Basic
/-
C20, second model — the bookkeeping of `beginInboundHandshake` / `waitInboundHandshake` and the
stream wrapper at the granularity of the *locks* of pkg/p2p/libp2p/libp2p.go:

  * `hsInFlight[peer]` is one record `{count, done}` per remote peer, created by the first
    handshake handler that begins while none is running, counted up by every further handler,
    counted down by every handler that returns; the record is deleted and its `done` channel
    closed when the count reaches zero (all under `hsMu`);
  * the wrapper does `getPeer` (registry mutex) — not found → looks the record up (`hsMu`),
    none → `getPeer` again; a record → waits for *that record's* `done`, then `getPeer` again.
    These are four separate atomic steps (`w1 … w4`); anything may happen between them.

Beside the handshake whose Connect the initiator saw succeed (`own`), any number of *other*
inbound handshake handlers for the same remote peer begin, (possibly) register and end at
arbitrary moments (`oBegin`, `oRegister`, `oEnd`): a peer that dials twice, a second connection.
Records are numbered: `cur` is the current record while `count > 0`; every other number below
`nextRec` names a record whose `done` is closed.

The registry's record of the peer carries the identity proven by the handshake that registered it
first (`regId`, `addPeer` keeps an existing record); the handler is invoked with that record.

`wait = false` is the wrapper of the pinned tree (no look-up of the record: straight to the
second `getPeer`).
-/
namespace MevCommit.UsableN

inductive HPhase where
  | notBegun      -- handleConnectReq of the own handshake not yet running
  | begun         -- running (counted), final message not yet read / verified
  | verified      -- final message verified, peer not yet registered
  | registered    -- addPeer done, handler not yet returned (still counted)
  | ended         -- handler returned (counted down)
  deriving Repr, DecidableEq

inductive WPhase where
  | notOpened
  | pending                 -- stream arrived, wrapper not yet run
  | notFound                -- first getPeer said no
  | waiting (r : Nat)       -- waits for record r's done channel
  | recheck                 -- about to do the second getPeer
  | accepted (ident : Nat)  -- handler invoked with this identity (number of the handshake that proved it)
  | refused
  deriving Repr, DecidableEq

def WPhase.isAccepted : WPhase → Bool
  | .accepted _ => true
  | _ => false

structure NSt where
  finalWritten : Bool
  iConnected : Bool
  own : HPhase
  others : Nat          -- other handshake handlers of the same peer currently running
  cur : Nat             -- number of the current record (meaningful while count > 0)
  nextRec : Nat
  regId : Option Nat    -- the peer's record in the registry: the identity proven by handshake number i
                        -- (0 = the own handshake, i > 0 = another handler's); `addPeer` keeps the first
  stream : WPhase
  deriving Repr, DecidableEq

def ninit : NSt := ⟨false, false, .notBegun, 0, 0, 0, none, .notOpened⟩

/-- `addPeer`: an existing record of the peer is kept ("peer already exists") -/
def addPeer (r : Option Nat) (i : Nat) : Option Nat :=
  match r with
  | some j => some j
  | none => some i

def ownInFlight (s : NSt) : Bool :=
  s.own == .begun || s.own == .verified || s.own == .registered

def count (s : NSt) : Nat := s.others + (if ownInFlight s then 1 else 0)

/-- record `r`'s done channel is closed -/
def closed (s : NSt) (r : Nat) : Bool := !(0 < count s && s.cur == r)

inductive NStep where
  | rBegin | oBegin | oRegister (i : Nat) | oEnd
  | iWriteFinal | iReturn | iOpenStream
  | rReadVerify | rRegister | rDone
  | w1 | w2 | w3 | w4
  deriving Repr, DecidableEq

/-- a handler begins: a fresh record when none is current -/
def beginRec (s : NSt) : NSt :=
  if count s = 0 then { s with cur := s.nextRec, nextRec := s.nextRec + 1 } else s

/-- one atomic step; a step whose guard is false leaves the state unchanged -/
def nstep (wait : Bool) (s : NSt) : NStep → NSt
  | .rBegin => if s.own == .notBegun then { (beginRec s) with own := .begun } else s
  | .oBegin => { (beginRec s) with others := s.others + 1 }
  | .oRegister i => if 0 < s.others then { s with regId := addPeer s.regId (i + 1) } else s
  | .oEnd => if 0 < s.others then { s with others := s.others - 1 } else s
  -- the initiator writes its final message only after it has read the responder's answer,
  -- which the responder's handler wrote: the handler has begun
  | .iWriteFinal => if s.own != .notBegun && !s.finalWritten then { s with finalWritten := true } else s
  | .iReturn => if s.finalWritten then { s with iConnected := true } else s
  | .iOpenStream => if s.iConnected && s.stream == .notOpened then { s with stream := .pending } else s
  | .rReadVerify => if s.finalWritten && s.own == .begun then { s with own := .verified } else s
  | .rRegister => if s.own == .verified then { s with own := .registered, regId := addPeer s.regId 0 } else s
  | .rDone => if s.own == .registered then { s with own := .ended } else s
  | .w1 =>
    if s.stream == .pending then
      match s.regId with
      | some i => { s with stream := .accepted i }
      | none => { s with stream := .notFound }
    else s
  | .w2 =>
    if s.stream == .notFound then
      if wait && 0 < count s then { s with stream := .waiting s.cur } else { s with stream := .recheck }
    else s
  | .w3 =>
    match s.stream with
    | .waiting r => if closed s r then { s with stream := .recheck } else s
    | _ => s
  | .w4 =>
    if s.stream == .recheck then
      match s.regId with
      | some i => { s with stream := .accepted i }
      | none => { s with stream := .refused }
    else s

def nrun (wait : Bool) : NSt → List NStep → NSt
  | s, [] => s
  | s, x :: xs => nrun wait (nstep wait s x) xs

end MevCommit.UsableN

import MevCommit.Basic
/-
C09 — the monitor's watch loop (pkg/evmclient/txmonitor.go, `watchLoop`), one iteration per wake-up:

  select { baseCtx.Done → return | newTxAdded → newTx = true | ticker }
  currentBlock, err := BlockNumber()          err → log, continue          (nothing learnt)
  currentBlock ≤ lastBlock ∧ ¬newTx          → continue
  lastNonce, err := NonceAt(currentBlock)     err → log, continue          (nothing learnt)
  lastConfirmedNonce = lastNonce
  select { blockUpdate <- (lastNonce, currentBlock) | default }           (dropped if the checker is busy)
  lastBlock = currentBlock

The loop ends only through its base context (shutdown).  The chain node's answers and whether the
checker is idle at the moment of the hand-off are inputs.
-/
namespace MevCommit.WatchLoop

inductive Wake where
  | shutdown | newTx | tick
  deriving Repr, DecidableEq

inductive Ans where
  | err | ok (n : Nat)
  deriving Repr, DecidableEq

structure St where
  alive : Bool
  lastBlock : Nat
  lastConfirmed : Nat
  deriving Repr, DecidableEq

def init : St := ⟨true, 0, 0⟩

inductive Out where
  | stopped                       -- the loop returned (waiters are drained)
  | nothing
  | dropped (nonce block : Nat)   -- a check was due but the checker was busy
  | check (nonce block : Nat)     -- handed to the checker
  deriving Repr, DecidableEq

def step (s : St) (w : Wake) (block nonce : Ans) (checkerIdle : Bool) : St × Out :=
  if !s.alive then (s, .stopped) else
  match w with
  | .shutdown => ({ s with alive := false }, .stopped)
  | _ =>
    match block with
    | .err => (s, .nothing)
    | .ok b =>
      if b ≤ s.lastBlock && w != .newTx then (s, .nothing) else
      match nonce with
      | .err => (s, .nothing)
      | .ok k =>
        ({ s with lastBlock := b, lastConfirmed := k }, if checkerIdle then .check k b else .dropped k b)

structure Ev where
  w : Wake
  block : Ans
  nonce : Ans
  idle : Bool
  deriving Repr, DecidableEq

def run : St → List Ev → St
  | s, [] => s
  | s, e :: es => run (step s e.w e.block e.nonce e.idle).1 es

end MevCommit.WatchLoop

import MevCommit.Basic
import MevCommit.Model.Semver
/-
C19 — model of the bidder RPC `Service.SendBid` (pkg/rpc/bidder/service.go:49-105) with the
protovalidate/CEL rules of rpc/bidderapi/v1/bidderapi.proto as Lean predicates:

  tx_hashes:  this.all(r, r.matches('^[a-fA-F0-9]{64}$')) && size(this) > 0
  amount:     this.matches('^[0-9]+$') && uint(this) > 0        (uint() of a value ≥ 2^64 is a
                                                                 runtime error → rejected)
  block_number, decay_start_timestamp, decay_end_timestamp:  uint(this) > 0
                                                                (uint() of a negative int64 is a
                                                                 runtime error → rejected)
A rejected request returns InvalidArgument before the sender is called.  An accepted one calls
the sender with strings.Join(hashes, ","), the amount text and the three numbers, then renders
every commitment received from the sender.
-/
namespace MevCommit.BidderApi

def isHexChar (c : UInt8) : Bool :=
  (48 ≤ c.toNat && c.toNat ≤ 57) || (97 ≤ c.toNat && c.toNat ≤ 102) || (65 ≤ c.toNat && c.toNat ≤ 70)

def validHash (h : Bytes) : Bool := h.length == 64 && h.all isHexChar

def validAmount (a : Bytes) : Bool :=
  match parseDec a with
  | some v => decide (0 < v) && decide (v < 2 ^ 64)
  | none => false

def validPos (x : Int) : Bool := decide (0 < x)

structure Req where
  txHashes : List Bytes
  amount : Bytes
  blockNumber : Int
  decayStart : Int
  decayEnd : Int
  deriving Repr, DecidableEq

def accept (r : Req) : Bool :=
  (r.txHashes.all validHash && !r.txHashes.isEmpty) && validAmount r.amount &&
  validPos r.blockNumber && validPos r.decayStart && validPos r.decayEnd

/-- `strings.Join(xs, ",")` -/
def joinComma : List Bytes → Bytes
  | [] => []
  | [x] => x
  | x :: y :: rest => x ++ (44 :: joinComma (y :: rest))

structure Forwarded where
  txHash : Bytes
  amount : Bytes
  blockNumber : Int
  decayStart : Int
  decayEnd : Int
  deriving Repr, DecidableEq

/-- what the sender is called with; `none` = rejected before anything is signed or sent -/
def forwarded (r : Req) : Option Forwarded :=
  if accept r then some ⟨joinComma r.txHashes, r.amount, r.blockNumber, r.decayStart, r.decayEnd⟩ else none

/-- a commitment as received from the network -/
structure RecvCommitment where
  txHash : Bytes
  amount : Bytes
  blockNumber : Int
  decayStart : Int
  decayEnd : Int
  bidDigest : Bytes
  bidSignature : Bytes
  digest : Bytes
  signature : Bytes
  providerAddress : Bytes
  deriving Repr, DecidableEq

/-- the message streamed to the client -/
structure Rendered where
  txHashes : List Bytes
  amount : Bytes
  blockNumber : Int
  decayStart : Int
  decayEnd : Int
  bidDigestHex : Bytes
  bidSignatureHex : Bytes
  digestHex : Bytes
  signatureHex : Bytes
  providerAddressHex : Bytes
  deriving Repr, DecidableEq

def render (c : RecvCommitment) : Rendered :=
  ⟨Semver.splitOn 44 c.txHash, c.amount, c.blockNumber, c.decayStart, c.decayEnd,
   hexEncode c.bidDigest, hexEncode c.bidSignature, hexEncode c.digest, hexEncode c.signature,
   hexEncode c.providerAddress⟩

/-- what the network layer does with a bid handed to it: it refuses it (no provider connected,
the key store cannot sign: `sender.SendBid` returns an error) or returns these commitments -/
inductive Net where
  | fails
  | commits (cs : List RecvCommitment)
  deriving Repr, DecidableEq

inductive Status where
  | ok | invalid | internal
  deriving Repr, DecidableEq

structure Out where
  status : Status
  forwarded : List Forwarded
  streamed : List Rendered
  deriving Repr, DecidableEq

/-- one call of the handler -/
def handle1 (r : Req) (n : Net) : Out :=
  match forwarded r with
  | none => ⟨.invalid, [], []⟩
  | some f =>
    match n with
    | .fails => ⟨.internal, [f], []⟩
    | .commits cs => ⟨.ok, [f], cs.map render⟩

/-- the one long-lived service of a node answering a sequence of calls: it keeps nothing from one
call to the next -/
def session (xs : List (Req × Net)) : List Out := xs.map (fun x => handle1 x.1 x.2)

end MevCommit.BidderApi

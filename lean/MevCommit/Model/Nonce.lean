import MevCommit.Basic
import MevCommit.Extracted
/-
C08 — model of the nonce allocator: `EvmClient.Send` / `getNonce` (pkg/evmclient/evmclient.go:155-222)
and the window check `txmonitor.allowNonce` (txmonitor.go:283-285).

`Send` holds `c.mtx` for its whole body, so one send is one atomic step; the monitor's
`lastConfirmedNonce` is an atomic word written by the watch loop (`monitor c` step) and read
once per send.  The chain node is the environment: each send carries the pending-nonce answer
(or a failure) and the first call that fails, if any.  A restart creates a fresh client
(counter 0, confirmed 0): the client persists nothing.
-/
namespace MevCommit.Nonce

structure St where
  nonce : Nat       -- c.nonce
  confirmed : Nat   -- monitor.lastConfirmedNonce
  deriving Repr, DecidableEq

def init : St := ⟨0, 0⟩

/-- first call that fails after the nonce was computed -/
inductive Fault where
  | none | estimate | tip | price | sign | submit
  deriving Repr, DecidableEq

structure SendReq where
  pending : Option Nat   -- PendingNonceAt answer; none = the call failed
  fault : Fault
  deriving Repr, DecidableEq

inductive Op where
  | send (r : SendReq)
  | monitor (c : Nat)    -- watch loop stored a confirmed nonce
  | restart
  | cancel               -- CancelTx of an earlier transaction: a replacement reusing that nonce is submitted
  | monitorFailed        -- a watch-loop round whose confirmed-nonce query failed: nothing is stored
  deriving Repr, DecidableEq

/-- observable events (what reaches the chain node and what the caller is told) -/
inductive Ev where
  | sent (nonce pending : Nat)        -- SendTransaction accepted a tx with this nonce
  | failed (pending : Option Nat)     -- the request returned an error
  | mon (c : Nat)
  | restarted
  | cancelled
  | monFailed
  deriving Repr, DecidableEq

/-- `getNonce` after the pending answer `p` arrived, as a function of the counter -/
def getNonce (n p : Nat) : Nat :=
  let n1 := if n = 0 then p else n
  if n1 < p then p else n1

def allow (s : St) (n : Nat) : Bool := n ≤ s.confirmed + Extracted.maxSentTxs

def step (s : St) : Op → St × Ev
  | .send r =>
    match r.pending with
    | none => (s, .failed none)
    | some p =>
      let n := getNonce s.nonce p
      let s' := { s with nonce := n }          -- getNonce stores the counter
      if !allow s' n then (s', .failed (some p))
      else if r.fault ≠ .none then (s', .failed (some p))
      else ({ s' with nonce := n + 1 }, .sent n p)
  | .monitor c => ({ s with confirmed := c }, .mon c)
  | .restart => (init, .restarted)
  | .cancel => (s, .cancelled)      -- CancelTx touches neither the counter nor the monitor's word
  | .monitorFailed => (s, .monFailed)   -- `continue` before lastConfirmedNonce.Store

def run : St → List Op → List Ev
  | _, [] => []
  | s, op :: ops => (step s op).2 :: run (step s op).1 ops

end MevCommit.Nonce

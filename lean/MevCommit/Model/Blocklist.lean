import MevCommit.Basic
import MevCommit.Extracted
/-
C17 — model of the block list (pkg/p2p/libp2p/blocklister.go) and of the two gater hooks that
consult it (conngater.go: InterceptPeerDial, InterceptSecured).

  blockPeer(id, dur):  keep the stronger of the existing and the new block
                       (permanent beats timed; of two timed blocks the one ending later)
  isBlocked(id):       no entry → false;  dur ≠ 0 ∧ now > start+dur → delete, false;  else true
  BlockedPeers():      entries with dur = 0 ∨ now < start+dur
Time is a natural number supplied by the environment; every operation is one atomic step
(each runs under `blockMu`).
-/
namespace MevCommit.Blocklist

structure Entry where
  start : Nat
  dur : Nat     -- 0 = forever
  deriving Repr, DecidableEq

abbrev Map := Nat → Option Entry

def Entry.end_ (e : Entry) : Nat := e.start + e.dur

/-- `blockPeer` keeps the stronger block -/
def merge (old : Option Entry) (new : Entry) : Entry :=
  match old with
  | none => new
  | some o =>
    if o.dur = 0 then o
    else if new.dur = 0 then new
    else if new.end_ < o.end_ then o else new

def block (m : Map) (id dur now : Nat) : Map :=
  fun i => if i = id then some (merge (m id) ⟨now, dur⟩) else m i

def expired (e : Entry) (now : Nat) : Bool := e.dur ≠ 0 && decide (e.end_ < now)

def isBlocked (m : Map) (id now : Nat) : Map × Bool :=
  match m id with
  | none => (m, false)
  | some e => if expired e now then (fun i => if i = id then none else m i, false) else (m, true)

def listed (m : Map) (id now : Nat) : Bool :=
  match m id with
  | none => false
  | some e => e.dur = 0 || decide (now < e.end_)

inductive Op where
  | block (id dur : Nat)
  | advance (dt : Nat)
  | query (id : Nat)      -- isBlocked
  | dial (id : Nat)       -- gater.InterceptPeerDial
  | secured (id : Nat)    -- gater.InterceptSecured
  | list (ids : List Nat) -- BlockedPeers(), restricted to the ids the harness knows
  deriving Repr

inductive Ans where
  | none
  | blocked (b : Bool)    -- isBlocked answer
  | allowed (b : Bool)    -- gater answer
  | listing (ids : List Nat)
  deriving Repr, DecidableEq

structure St where
  m : Map
  now : Nat

def init : St := ⟨fun _ => none, 0⟩

def step (s : St) : Op → St × Ans
  | .block id dur => ({ s with m := block s.m id dur s.now }, .none)
  | .advance dt => ({ s with now := s.now + dt }, .none)
  | .query id => let r := isBlocked s.m id s.now; ({ s with m := r.1 }, .blocked r.2)
  | .dial id => let r := isBlocked s.m id s.now; ({ s with m := r.1 }, .allowed (!r.2))
  | .secured id => let r := isBlocked s.m id s.now; ({ s with m := r.1 }, .allowed (!r.2))
  | .list ids => (s, .listing (ids.filter (fun i => listed s.m i s.now)))

def run : St → List Op → List Ans
  | _, [] => []
  | s, op :: ops => (step s op).2 :: run (step s op).1 ops

/-- error class → block duration, as `handleConnectReq` (inbound) and `Connect` (outbound) map them -/
inductive FailClass where
  | signature | addressMismatch | insufficientStake
  deriving Repr, DecidableEq

def blockDuration (inbound : Bool) : FailClass → Nat
  | .signature => if inbound then Extracted.blockInSignatureVerificationFailed else Extracted.blockOutSignatureVerificationFailed
  | .addressMismatch => if inbound then Extracted.blockInObservedAddressMismatch else Extracted.blockOutObservedAddressMismatch
  | .insufficientStake => if inbound then Extracted.blockInInsufficientStake else Extracted.blockOutInsufficientStake

end MevCommit.Blocklist

import MevCommit.Model.Signer
/-
C05 — model of the bidder's `Preconfirmation.SendBid` (pkg/preconfirmation/preconfirmation.go:83-176).
One goroutine per provider connected at call time: open stream, write the signed bid, read one
reply, close, VerifyPreConfirmation, require the embedded bid to be the bid this call sent,
set ProviderAddress to the recovered signer, deliver on a channel buffered for n results.
A closer goroutine closes the channel after all of them returned.  The order in which the
per-provider goroutines reach the channel is arbitrary (a permutation parameter).
-/
namespace MevCommit.SendBid
open MevCommit.Signer

/-- what one provider's side of the exchange does -/
inductive Reply where
  | openFails                 -- NewStream error
  | writeFails                -- WriteMsg error (stream reset)
  | readFails                 -- error frame, garbage, reset, or silence until the deadline
  | commitment (c : Commitment)
  deriving Repr, DecidableEq

structure Delivered where
  commitment : Commitment
  providerAddress : Bytes
  deriving Repr, DecidableEq

/-- outcome of one provider's goroutine, given the bid this call sent -/
def outcome (H : Bytes → Bytes) (S : Scheme) (sent : Bid) : Reply → Option Delivered
  | .commitment c =>
    match verifyCommitment H S c with
    | .ok addr => if c.bid = some sent then some ⟨c, addr⟩ else none
    | _ => none
  | _ => none

/-- was the bid written to this provider's stream? -/
def offered : Reply → Bool
  | .openFails => false
  | _ => true

/-- deliveries in the order the goroutines reach the channel (`order` lists provider indices) -/
def deliveredInOrder (H : Bytes → Bytes) (S : Scheme) (sent : Bid) (rs : List Reply) (order : List Nat) : List Delivered :=
  order.filterMap (fun i => (rs[i]?).bind (outcome H S sent))

/-- the fan-out: one goroutine per provider connected when the call was made, each handed *its*
provider and the one signed bid of this call (`go func(provider p2p.Peer){…}(providers[idx])`) -/
def fanOut {P : Type} (providers : List P) (sent : Bid) : List (P × Bid) :=
  providers.map (fun p => (p, sent))

end MevCommit.SendBid

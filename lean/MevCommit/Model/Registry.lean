import MevCommit.Basic
/-
C11 — model of the two registry wrappers (pkg/contracts/provider_registry/registry.go and
pkg/contracts/bidder_registry/bidder_registry.go; same code up to names).

  check(addr):  min   ← call(minStake)            error / undecodable → false
                stake ← call(checkStake, addr)     error / undecodable → false
                return stake ≥ min
  unpack of one uint256 output (go-ethereum abi): empty data or a length that is not a
  multiple of 32 → error, otherwise the big-endian value of the first 32 bytes.
  register(amount): hash ← Send{To: registry, CallData: selector, Value: amount}   error → error
                    receipt ← WaitForReceipt(hash)                               error → error
                    receipt.Status ≠ 1 → error ;  else nil
-/
namespace MevCommit.Registry

inductive CallAns where
  | err
  | bytes (b : Bytes)
  deriving Repr, DecidableEq

def decodeWord (b : Bytes) : Option Nat :=
  if b.length = 0 ∨ b.length % 32 ≠ 0 then none else some (fromBE (b.take 32))

def read : CallAns → Option Nat
  | .err => none
  | .bytes b => decodeWord b

structure CheckObs where
  answer : Bool
  calls : Nat        -- number of contract reads performed
  deriving Repr, DecidableEq

/-- minimum first, then the account's amount -/
def check (minAns amtAns : CallAns) : CheckObs :=
  match read minAns with
  | none => ⟨false, 1⟩
  | some mn =>
    match read amtAns with
    | none => ⟨false, 2⟩
    | some amt => ⟨decide (mn ≤ amt), 2⟩

inductive Receipt where
  | waitErr               -- WaitForReceipt failed (cancelled, monitor closed, context, unknown tx)
  | status (s : Nat)      -- mined with this status (1 = success)
  deriving Repr, DecidableEq

structure StakeEnv where
  amount : Nat
  sendOk : Bool
  receipt : Receipt
  deriving Repr

structure Request where
  toRegistry : Bool     -- destination is the configured registry address
  value : Nat
  dataIsSelector : Bool -- calldata is exactly the 4-byte selector of the stake/prepay method
  deriving Repr, DecidableEq

structure StakeObs where
  ok : Bool
  requests : List Request   -- what was handed to the evm client's Send
  waited : Bool
  deriving Repr, DecidableEq

def register (e : StakeEnv) : StakeObs :=
  let req : Request := ⟨true, e.amount, true⟩
  if !e.sendOk then ⟨false, [req], false⟩
  else match e.receipt with
    | .waitErr => ⟨false, [req], true⟩
    | .status s => ⟨decide (s = 1), [req], true⟩

end MevCommit.Registry

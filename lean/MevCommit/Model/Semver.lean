import MevCommit.Basic
/-
C16 — model of `matchProtocolIDWithSemver` (pkg/p2p/libp2p/libp2p.go:262-290).

  parts := strings.Split(incoming, "/"); len(parts) != 3  → (false, error)
  parts[1] != name                                        → (false, nil)
  semver.NewVersion(handlerVersion) fails                 → (false, error)
  semver.NewVersion(parts[2]) fails                       → (false, error)
  otherwise  handler.Major == incoming.Major && handler.Minor >= incoming.Minor

`semver.NewVersion` is lenient (accepts "v2", "2", "2.0", pre-release tags …).  The property
excludes those spellings, so the model decides strict `MAJOR.MINOR.PATCH` decimal triples
(each component a run of ASCII digits with value < 2^64, as `strconv.ParseUint(·,10,64)`)
and answers `outside` for every other version text that still reaches the parser; for those
the correspondence check only compares "did not panic".
-/
namespace MevCommit.Semver

/-- `strings.Split(s, sep)` for a one-byte separator -/
def splitOn (sep : UInt8) : Bytes → List Bytes
  | [] => [[]]
  | c :: rest =>
    if c = sep then [] :: splitOn sep rest
    else match splitOn sep rest with
      | [] => [[c]]            -- unreachable: splitOn never returns []
      | p :: ps => (c :: p) :: ps

structure Version where
  major : Nat
  minor : Nat
  patch : Nat
  deriving Repr, DecidableEq

def parseComponent (bs : Bytes) : Option Nat :=
  match parseDec bs with
  | some n => if n < 2^64 then some n else none
  | none => none

/-- strict MAJOR.MINOR.PATCH -/
def parseStrict (bs : Bytes) : Option Version :=
  match splitOn 46 bs with   -- '.'
  | [a, b, c] =>
    match parseComponent a, parseComponent b, parseComponent c with
    | some x, some y, some z => some ⟨x, y, z⟩
    | _, _, _ => none
  | _ => none

inductive Decision where
  | noMatchErr      -- wrong number of path segments: (false, error)
  | noMatch         -- different protocol name: (false, nil)
  | decided (b : Bool)   -- both versions strict: the semver rule
  | outside         -- a version text outside the strict form reached the library
  deriving Repr, DecidableEq

def matchProto (incoming name version : Bytes) : Decision :=
  match splitOn 47 incoming with   -- '/'
  | [_, pname, pver] =>
    if pname ≠ name then .noMatch
    else match parseStrict version, parseStrict pver with
      | some sv, some pv => .decided (sv.major == pv.major && pv.minor ≤ sv.minor)
      | _, _ => .outside
  | _ => .noMatchErr

/-- the identifier the node itself uses for a protocol: "/name/version" -/
def protoId (name version : Bytes) : Bytes := 47 :: (name ++ (47 :: version))

def showVersion (v : Version) : Bytes :=
  showDec v.major ++ (46 :: (showDec v.minor ++ (46 :: showDec v.patch)))

/-- a stream descriptor as handed to `AddStreamHandlers`: (protocol name, version string) -/
abbrev Desc := Bytes × Bytes

/-- the libp2p multistream muxer keeps one handler per key; `AddStreamHandlers` registers a
descriptor under its *name* (`SetStreamHandlerMatch(protocol.ID(ss.Name), …)`): a later
registration under the same name replaces the earlier one -/
def muxInsert (m : List Desc) (d : Desc) : List Desc := m.filter (fun x => x.1 != d.1) ++ [d]

def registerAll (ds : List Desc) : List Desc := ds.foldl muxInsert []

/-- which registered descriptors an incoming identifier is routed to: the match function of a
descriptor looks at the identifier and at its own descriptor only — not at earlier identifiers -/
def routedTo (m : List Desc) (incoming : Bytes) : List Desc :=
  m.filter (fun d => match matchProto incoming d.1 d.2 with | .decided true => true | _ => false)

end MevCommit.Semver

import MevCommit.Basic
import MevCommit.Extracted
/-
C04 — model of the admission handshake
  internal/handshake/handshake.go   verifyReq, verifyResp, Handle (responder), Handshake (initiator)
  pkg/signer/signer.go              Verify
  pkg/p2p/libp2p/libp2p.go          handleConnectReq / Connect (register + notify only on success,
                                    block on the three failure classes)
The remote side is an arbitrary list of frames.  Cryptography, the peer-id → address map and
the provider registry are the environment.
-/
namespace MevCommit.Handshake

structure Req where
  role : Bytes
  token : Bytes
  sig : Bytes
  deriving Repr, DecidableEq

structure Resp where
  observed : Bytes
  role : Bytes
  deriving Repr, DecidableEq

/-- one frame as the local side experiences reading it -/
inductive Frame where
  | req (r : Req)
  | resp (r : Resp)
  | bad          -- read error: EOF, reset, error frame, undecodable (any ReadMsg error)
  deriving Repr, DecidableEq

/-- `signer.Verify(sig, msg)`: recovery failure → none; else (low-S verification, address) -/
structure Env where
  verify : Bytes → Bytes → Option (Bool × Bytes)   -- sig, message ↦ (verified, address)
  addrOfPeer : Option Bytes        -- GetEthAddressFromPeerID of the authenticated peer id
  registered : Bytes → Bool        -- CheckProviderRegistered
  ownAddr : Bytes
  ownRole : Bytes
  writeOk : Nat → Bool             -- the n-th local write succeeds

inductive Refusal where
  | signature | addressMismatch | insufficientStake | other
  deriving Repr, DecidableEq

inductive Role where
  | bootnode | provider | bidder | unknown
  deriving Repr, DecidableEq

/-- `p2p.FromString` -/
def roleOf (s : Bytes) : Role :=
  if s = Extracted.roleBootnode then .bootnode
  else if s = Extracted.roleProvider then .provider
  else if s = Extracted.roleBidder then .bidder
  else .unknown

inductive Outcome where
  | admitted (addr : Bytes) (role : Role)
  | refused (why : Refusal)
  deriving Repr, DecidableEq

structure Obs where
  outcome : Outcome
  lookups : Nat                 -- registry lookups performed
  written : List Frame          -- frames the local side wrote, in order
  deriving Repr, DecidableEq

/-- `verifyReq`: address or refusal, and whether the registry was consulted -/
def verifyReq (e : Env) (r : Req) : (Bytes ⊕ Refusal) × Nat :=
  match e.verify r.sig (r.role ++ r.token) with
  | none => (.inr .signature, 0)
  | some (false, _) => (.inr .signature, 0)
  | some (true, addr) =>
    match e.addrOfPeer with
    | none => (.inr .other, 0)
    | some obs =>
      if obs ≠ addr then (.inr .addressMismatch, 0)
      else if r.role = Extracted.roleProvider then
        if e.registered addr then (.inl addr, 1) else (.inr .insufficientStake, 1)
      else (.inl addr, 0)

def verifyResp (e : Env) (r : Resp) : Bool := r.observed = e.ownAddr ∧ r.role = e.ownRole

def ownReq (e : Env) (ownToken ownSig : Bytes) : Req := ⟨e.ownRole, ownToken, ownSig⟩

/-- responder: `Handle` -/
def handle (e : Env) (ownToken ownSig : Bytes) (remote : List Frame) : Obs :=
  match remote with
  | .req r :: rest =>
    match verifyReq e r with
    | (.inr why, n) => ⟨.refused why, n, []⟩
    | (.inl addr, n) =>
      let w1 := Frame.resp ⟨addr, r.role⟩
      if !e.writeOk 0 then ⟨.refused .other, n, [w1]⟩
      else
        let w2 := Frame.req (ownReq e ownToken ownSig)
        if !e.writeOk 1 then ⟨.refused .other, n, [w1, w2]⟩
        else match rest with
          | .resp ack :: _ =>
            if verifyResp e ack then ⟨.admitted addr (roleOf r.role), n, [w1, w2]⟩
            else ⟨.refused .other, n, [w1, w2]⟩
          | _ => ⟨.refused .other, n, [w1, w2]⟩
  | _ => ⟨.refused .other, 0, []⟩

/-- initiator: `Handshake` -/
def handshake (e : Env) (ownToken ownSig : Bytes) (remote : List Frame) : Obs :=
  let w1 := Frame.req (ownReq e ownToken ownSig)
  if !e.writeOk 0 then ⟨.refused .other, 0, [w1]⟩
  else match remote with
    | .resp r :: rest =>
      if !verifyResp e r then ⟨.refused .other, 0, [w1]⟩
      else match rest with
        | .req ack :: _ =>
          match verifyReq e ack with
          | (.inr why, n) => ⟨.refused why, n, [w1]⟩
          | (.inl addr, n) =>
            let w2 := Frame.resp ⟨addr, ack.role⟩
            if !e.writeOk 1 then ⟨.refused .other, n, [w1, w2]⟩
            else ⟨.admitted addr (roleOf ack.role), n, [w1, w2]⟩
        | _ => ⟨.refused .other, 0, [w1]⟩
    | _ => ⟨.refused .other, 0, [w1]⟩

/-- caller level: what `handleConnectReq` / `Connect` do with the handshake's result -/
structure CallerObs where
  registered : Option (Bytes × Role)   -- addPeer called with this peer
  notified : Bool                      -- Notifier.Connected (inbound only)
  blocked : Option Nat                 -- block placed, with duration (0 = forever)
  deriving Repr, DecidableEq

def blockFor (inbound : Bool) : Refusal → Option Nat
  | .signature => some (if inbound then Extracted.blockInSignatureVerificationFailed else Extracted.blockOutSignatureVerificationFailed)
  | .addressMismatch => some (if inbound then Extracted.blockInObservedAddressMismatch else Extracted.blockOutObservedAddressMismatch)
  | .insufficientStake => some (if inbound then Extracted.blockInInsufficientStake else Extracted.blockOutInsufficientStake)
  | .other => none

def caller (inbound : Bool) (alreadyKnown : Bool) : Outcome → CallerObs
  | .admitted a r => ⟨some (a, r), inbound && !alreadyKnown, none⟩
  | .refused why => ⟨none, false, blockFor inbound why⟩

end MevCommit.Handshake

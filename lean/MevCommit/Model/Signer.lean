import MevCommit.Basic
import MevCommit.Extracted
/-
C02 / C03 / C06 — model of pkg/signer/preconfsigner/signer.go over an abstract hash function
`H` (Keccak-256 in the implementation) and an abstract secp256k1 scheme.

Go partiality is explicit: `Outcome.panic` marks the places where the Go code indexes or
dereferences without a guard.  In the pinned tree these were `sig[64]` in eipVerify (short
signature) and `c.Bid.Digest` in VerifyPreConfirmation (absent embedded bid); both are guarded
after the `fix:` commits, and the model follows the repaired code.
-/
namespace MevCommit.Signer

/-- abstract secp256k1 primitives, with go-ethereum's calling conventions -/
structure Scheme where
  /-- `crypto.SigToPub(hash, sig)`: none for a wrong length, recovery id ≥ 4 or no point -/
  recover : Bytes → Bytes → Option Bytes
  /-- `crypto.VerifySignature(pub, hash, rs)` (64-byte r‖s, rejects high-S) -/
  verifyLowS : Bytes → Bytes → Bytes → Bool
  /-- `crypto.PubkeyToAddress` -/
  addrOf : Bytes → Bytes
  /-- key signer: `SignHash(hash)` with the node's key: 65 bytes r‖s‖v, v ∈ {0,1}; none = error -/
  sign : Bytes → Option Bytes

structure Bid where
  txHash : Bytes
  amount : Bytes          -- decimal text
  blockNumber : Int       -- int64
  decayStart : Int        -- int64
  decayEnd : Int          -- int64
  digest : Option Bytes   -- nil vs present
  signature : Option Bytes
  deriving Repr, DecidableEq

structure Commitment where
  bid : Option Bid        -- embedded message may be absent
  digest : Option Bytes
  signature : Option Bytes
  deriving Repr, DecidableEq

def domainSeparator (H : Bytes → Bytes) (domType name version : Bytes) : Bytes :=
  H (H domType ++ H name ++ H version)

/-- amounts the hash functions accept: `big.Int.SetString(·,10)` succeeded and the value fits
    the 256-bit word it is encoded into -/
def parseAmount (a : Bytes) : Option Int :=
  match parseBigInt a with
  | some v => if 0 ≤ v ∧ v < 2^256 then some v else none
  | none => none

def bidStructData (H : Bytes → Bytes) (b : Bid) (amt : Int) : Bytes :=
  H Extracted.bidTypeString ++ H b.txHash ++ be32 amt ++ be32 b.blockNumber ++
    be32 b.decayStart ++ be32 b.decayEnd

/-- `GetBidHash` -/
def getBidHash (H : Bytes → Bytes) (b : Bid) : Outcome Bytes :=
  match parseAmount b.amount with
  | none => .err "invalid bid amount"
  | some amt =>
    .ok (H (Extracted.bidPrefix ++
      (domainSeparator H Extracted.bidDomainType Extracted.bidDomainName Extracted.bidDomainVersion ++
       H (bidStructData H b amt))))

def commitStructData (H : Bytes → Bytes) (b : Bid) (amt : Int) : Bytes :=
  H Extracted.commitTypeString ++ H b.txHash ++ be32 amt ++ be32 b.blockNumber ++
    be32 b.decayStart ++ be32 b.decayEnd ++
    H (hexEncode (b.digest.getD [])) ++ H (hexEncode (b.signature.getD []))

/-- `GetPreConfirmationHash` (the embedded bid is present when this is called) -/
def getCommitHash (H : Bytes → Bytes) (b : Bid) : Outcome Bytes :=
  match parseAmount b.amount with
  | none => .err "invalid bid amount"
  | some amt =>
    .ok (H (Extracted.commitPrefix ++
      (domainSeparator H Extracted.commitDomainType Extracted.commitDomainName Extracted.commitDomainVersion ++
       H (commitStructData H b amt))))

/-- 27/28 → 0/1 on the recovery byte of a 65-byte signature -/
def normaliseV (sig : Bytes) : Bytes :=
  match sig.getLast? with
  | some v => if 27 ≤ v.toNat ∧ v.toNat ≤ 28 then sig.dropLast ++ [v - 27] else sig
  | none => sig

/-- recovery + low-S verification on the normalised signature -/
def verifySig (S : Scheme) (payloadHash sig : Bytes) : Outcome Bytes :=
  match S.recover payloadHash sig with
  | none => .err "recover failed"
  | some pub =>
    if S.verifyLowS pub payloadHash (sig.take 64) then .ok (S.addrOf pub)
    else .err "invalid signature"

/-- `eipVerify` -/
def eipVerify (S : Scheme) (payloadHash expected signature : Bytes) : Outcome Bytes :=
  if payloadHash ≠ expected then .err "invalid hash"
  else if signature.length ≠ 65 then .err "invalid signature"
  else verifySig S payloadHash (normaliseV signature)

/-- `VerifyBid` -/
def verifyBid (H : Bytes → Bytes) (S : Scheme) (b : Bid) : Outcome Bytes :=
  match b.digest, b.signature with
  | some d, some s => (getBidHash H b).bind (fun h => eipVerify S h d s)
  | _, _ => .err "missing hash or signature"

/-- `VerifyPreConfirmation` -/
def verifyCommitment (H : Bytes → Bytes) (S : Scheme) (c : Commitment) : Outcome Bytes :=
  match c.digest, c.signature with
  | some d, some s =>
    match c.bid with
    | none => .err "missing hash or signature"
    | some b =>
      (verifyBid H S b).bind (fun _ => (getCommitHash H b).bind (fun h => eipVerify S h d s))
  | _, _ => .err "missing hash or signature"

/-- V 0/1 → 27/28 on the signature the key signer returned -/
def emitV (sig : Bytes) : Bytes :=
  match sig.getLast? with
  | some v => if v = 0 ∨ v = 1 then sig.dropLast ++ [v + 27] else sig
  | none => sig

def signWith (S : Scheme) (h : Bytes) : Outcome Bytes :=
  match S.sign h with
  | none => .err "sign failed"
  | some sig => .ok (emitV sig)

/-- `ConstructSignedBid` -/
def constructSignedBid (H : Bytes → Bytes) (S : Scheme) (txHash amount : Bytes)
    (blockNumber decayStart decayEnd : Int) : Outcome Bid :=
  if txHash = [] ∨ amount = [] ∨ blockNumber = 0 then .err "missing required fields"
  else
    let b : Bid := ⟨txHash, amount, blockNumber, decayStart, decayEnd, none, none⟩
    (getBidHash H b).bind (fun h => (signWith S h).bind (fun sig =>
      .ok { b with digest := some h, signature := some sig }))

/-- `ConstructPreConfirmation` -/
def constructCommitment (H : Bytes → Bytes) (S : Scheme) (b : Bid) : Outcome Commitment :=
  (verifyBid H S b).bind (fun _ => (getCommitHash H b).bind (fun h => (signWith S h).bind (fun sig =>
    .ok ⟨some b, some h, some sig⟩)))

end MevCommit.Signer

import MevCommit.Basic
/-
C07 — model of the ABI packing of
  storeCommitment(uint64 bid, uint64 blockNumber, string txnHash, uint64 decayStartTimeStamp,
                  uint64 decayEndTimeStamp, bytes bidSignature, bytes commitmentSignature)
(pkg/contracts/preconf/preconf.go:59-96, go-ethereum accounts/abi): 4-byte selector, seven head
words (static values and byte offsets of the dynamic ones), then for each dynamic argument a
length word and the data right-padded to a multiple of 32 bytes — and of its decoder.
-/
namespace MevCommit.Abi

structure Args where
  bid : Nat
  blockNumber : Nat
  txnHash : Bytes
  decayStart : Nat
  decayEnd : Nat
  bidSignature : Bytes
  commitmentSignature : Bytes
  deriving Repr, DecidableEq

def word (n : Nat) : Bytes := toBE 32 n

def padLen (n : Nat) : Nat := (32 - n % 32) % 32

/-- length word ++ data ++ zero padding -/
def dyn (b : Bytes) : Bytes := word b.length ++ b ++ List.replicate (padLen b.length) 0

def dynSize (b : Bytes) : Nat := 32 + b.length + padLen b.length

def headSize : Nat := 7 * 32

def encodeArgs (a : Args) : Bytes :=
  let o1 := headSize
  let o2 := o1 + dynSize a.txnHash
  let o3 := o2 + dynSize a.bidSignature
  word a.bid ++ word a.blockNumber ++ word o1 ++ word a.decayStart ++ word a.decayEnd ++ word o2 ++ word o3 ++
  dyn a.txnHash ++ dyn a.bidSignature ++ dyn a.commitmentSignature

def encodeCall (selector : Bytes) (a : Args) : Bytes := selector ++ encodeArgs a

/-- the `i`-th 32-byte word of a buffer, as a number -/
def wordAt (buf : Bytes) (i : Nat) : Nat := fromBE ((buf.drop (32 * i)).take 32)

/-- dynamic value at byte offset `off`: length word, then that many bytes -/
def dynAt (buf : Bytes) (off : Nat) : Option Bytes :=
  if buf.length < off + 32 then none
  else
    let len := fromBE ((buf.drop off).take 32)
    if buf.length < off + 32 + len then none
    else some ((buf.drop (off + 32)).take len)

def decodeArgs (buf : Bytes) : Option Args :=
  if buf.length < headSize then none
  else
    match dynAt buf (wordAt buf 2), dynAt buf (wordAt buf 5), dynAt buf (wordAt buf 6) with
    | some tx, some bs, some cs =>
      some ⟨wordAt buf 0, wordAt buf 1, tx, wordAt buf 3, wordAt buf 4, bs, cs⟩
    | _, _, _ => none

def decodeCall (data : Bytes) : Option (Bytes × Args) :=
  if data.length < 4 then none
  else (decodeArgs (data.drop 4)).map (fun a => (data.take 4, a))

/-- `uint64(x.Int64())` for a non-negative big.Int: the low 64 bits -/
def low64 (x : Int) : Nat := (x % (2 ^ 64 : Int)).toNat

/-- arguments `handleBid` / `StoreCommitment` build from the commitment they return -/
def argsOfCommitment (amount : Int) (blockNumber decayStart decayEnd : Int) (txHash bidSig commitSig : Bytes) : Args :=
  ⟨low64 amount, low64 blockNumber, txHash, low64 decayStart, low64 decayEnd, bidSig, commitSig⟩

end MevCommit.Abi

import MevCommit.Basic
/-
Wiring of the whole node (pkg/node/node.go, NewNode): which configured contract address each
consumer is constructed with, and what then happens end to end on a chain node whose contracts
understand only their own calls.

  bidderRegistry   := bidder_registrycontract.New(HexToAddress(opts.BidderRegistryContract), …)
  providerRegistry := provider_registrycontract.New(HexToAddress(opts.ProviderRegistryContract), …)
  libp2p.New(Options{Register: providerRegistry})                      -- handshake stake check
  providerapi.NewService(…, providerRegistry, …)                       -- stake operation (provider node)
  preconfcontract.New(HexToAddress(opts.PreconfContract), …)           -- commitment store (provider node)
  preconfirmation.New(…, bidderRegistry, bidProcessor, commitmentDA)   -- allowance check on a bid
  bidderapi.NewService(…, bidderRegistry, …)                           -- prepay operation (bidder node)

`Wire` names, for each consumer, the configured contract it ends up with; `nodeWire` is what
NewNode does.  The scenario function is parametric in the wire, so that the theorems say what any
other wiring would do on the same chain (a registry answers only its own reads; a read sent
anywhere else reverts, and the checks fail closed — C11).
-/
namespace MevCommit.Wiring

inductive Target where
  | preconf | providerRegistry | bidderRegistry
  deriving Repr, DecidableEq

structure Wire where
  handshakeStake : Target   -- where a node reads a remote provider's stake during the handshake
  bidAllowance   : Target   -- where the provider node reads the bidder's allowance on a bid
  commitStore    : Target   -- where the provider node sends storeCommitment
  stakeOp        : Target   -- where RegisterStake sends its value
  prepayOp       : Target   -- where PrepayAllowance sends its value
  deriving Repr, DecidableEq

def nodeWire : Wire := ⟨.providerRegistry, .bidderRegistry, .preconf, .providerRegistry, .bidderRegistry⟩

/-- what the chain says about the two parties at the *configured* registries -/
structure World where
  staked  : Bool
  allowed : Bool
  wellFormed : Bool := true      -- the request handed to the bidder node's API satisfies the format rules
  engineAccepts : Bool := true   -- the provider's decision engine accepts what it is shown
  deriving Repr, DecidableEq

/-- a stake read answered only by the provider registry (elsewhere: revert → fail closed) -/
def stakeCheck (w : Wire) (wd : World) : Bool := w.handshakeStake = .providerRegistry && wd.staked
def allowanceCheck (w : Wire) (wd : World) : Bool := w.bidAllowance = .bidderRegistry && wd.allowed

structure Outcome where
  stakeReadsAt  : List Target       -- distinct targets of stake reads (handshake)
  allowReadsAt  : List Target       -- distinct targets of allowance reads (bid)
  commitTxsAt   : List Target       -- targets of commitment transactions
  commitments   : Nat               -- commitments streamed back to the bidder
  engineSaw     : Nat               -- bids handed to the provider's decision engine
  deriving Repr, DecidableEq

/-- the provider node dials the bidder node; the bidder's client sends one well-formed bid; the
provider's engine accepts everything it is shown -/
def scenario (w : Wire) (wd : World) : Outcome :=
  let admitted := stakeCheck w wd                 -- the bidder node admits the provider
  let sent := admitted && wd.wellFormed           -- the bidder node's API forwards the bid to it
  let funded := sent && allowanceCheck w wd       -- the provider node hands the bid to its engine
  let committed := funded && wd.engineAccepts
  { stakeReadsAt := [w.handshakeStake],
    allowReadsAt := if sent then [w.bidAllowance] else [],
    commitTxsAt := if committed then [w.commitStore] else [],
    commitments := if committed then 1 else 0,
    engineSaw := if funded then 1 else 0 }

/-- a provider dials a bootnode built by NewNode: the bootnode's handshake uses the same
`handshakeStake` wiring as every other role — it admits the provider iff the configured provider
registry confirms its stake, and blocks it otherwise -/
structure BootOutcome where
  stakeReadsAt : List Target
  admitted : Bool
  blocked : Bool
  deriving Repr, DecidableEq

def bootScenario (w : Wire) (staked : Bool) : BootOutcome :=
  let ok := w.handshakeStake = .providerRegistry && staked
  { stakeReadsAt := [w.handshakeStake], admitted := ok, blocked := !ok }

/-- what became of a stake / prepay transaction -/
inductive TxFate where
  | minedOk | reverted | rejected
  deriving Repr, DecidableEq

/-- the stake / prepay operation reports success only for a transaction mined successfully -/
def opReportsSuccess : TxFate → Bool
  | .minedOk => true
  | _ => false

/-- a transaction reaches the chain unless the node rejected it -/
def opTxSeen : TxFate → Bool
  | .rejected => false
  | _ => true

end MevCommit.Wiring

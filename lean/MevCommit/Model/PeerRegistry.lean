import MevCommit.Basic
/-
C14 — model of the peer registry (pkg/p2p/libp2p/peers.go) and of the stream-handler wrapper's
use of it (pkg/p2p/libp2p/libp2p.go:305-318).  Every registry method runs under one mutex, so
each is one atomic step; opening a stream is *two* steps (`getPeer`, then `addStream`), as in
the code.  Maps are finite functions.  `panicked` marks the unguarded `overlays[peerID]`
dereference in `Disconnected`.
-/
namespace MevCommit.PeerRegistry

structure Peer where
  addr : Nat
  role : Int
  deriving Repr, DecidableEq

structure St where
  overlays : Nat → Option Peer          -- peer id → peer
  underlays : Nat → Option Nat          -- address → peer id
  conns : Nat → Option (List Nat)       -- peer id → tracked connections
  streams : Nat → Option (List Nat)     -- peer id → streams with a recorded cancel function
  cancelled : List Nat                  -- streams whose handler context was cancelled (log)
  notified : List Peer                  -- disconnect notifications (log)
  panicked : Bool

def init : St := ⟨fun _ => none, fun _ => none, fun _ => none, fun _ => none, [], [], false⟩

def upd {α} (f : Nat → Option α) (k : Nat) (v : Option α) : Nat → Option α :=
  fun i => if i = k then v else f i

def insertC (l : List Nat) (c : Nat) : List Nat := if l.contains c then l else c :: l

inductive Op where
  | addPeer (c pid : Nat) (peer : Peer)
  | disconnected (c pid : Nat)
  | lookup (pid : Nat)           -- getPeer / isConnected
  | lookupAddr (a : Nat)         -- getPeerID
  | addStream (pid s : Nat)
  | removeStream (pid s : Nat)
  deriving Repr, DecidableEq

inductive Out where
  | none
  | exists_ (b : Bool)
  | peer (p : Option Peer)
  | pid (p : Option Nat)
  deriving Repr, DecidableEq

def step (s : St) : Op → St × Out
  | .addPeer c pid peer =>
    let cs := insertC ((s.conns pid).getD []) c
    let s1 := { s with conns := upd s.conns pid (some cs) }
    match s.underlays peer.addr with
    | some _ => (s1, .exists_ true)
    | none =>
      ({ s1 with overlays := upd s.overlays pid (some peer),
                 underlays := upd s.underlays peer.addr (some pid),
                 streams := upd s.streams pid (some []) }, .exists_ false)
  | .disconnected c pid =>
    match s.conns pid with
    | none => (s, .none)
    | some cs =>
      let cs' := cs.filter (· ≠ c)
      if cs' ≠ [] then ({ s with conns := upd s.conns pid (some cs') }, .none)
      else
        match s.overlays pid with
        | none => ({ s with panicked := true }, .none)     -- nil dereference of peerInfo
        | some info =>
          ({ s with conns := upd s.conns pid none,
                    overlays := upd s.overlays pid none,
                    underlays := upd s.underlays info.addr none,
                    cancelled := s.cancelled ++ (s.streams pid).getD [],
                    streams := upd s.streams pid none,
                    notified := s.notified ++ [info] }, .none)
  | .lookup pid => (s, .peer (s.overlays pid))
  | .lookupAddr a => (s, .pid (s.underlays a))
  | .addStream pid st =>
    match s.streams pid with
    | none => (s, .none)
    | some l => ({ s with streams := upd s.streams pid (some (insertC l st)) }, .none)
  | .removeStream pid st =>
    match s.streams pid with
    | none => (s, .none)
    | some l =>
      if l.contains st then
        ({ s with streams := upd s.streams pid (some (l.filter (· ≠ st))), cancelled := s.cancelled ++ [st] }, .none)
      else (s, .none)

def run : St → List Op → List Out
  | _, [] => []
  | s, op :: ops => (step s op).2 :: run (step s op).1 ops

def final : St → List Op → St
  | s, [] => s
  | s, op :: ops => final (step s op).1 ops

end MevCommit.PeerRegistry

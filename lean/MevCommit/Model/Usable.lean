import MevCommit.Basic
/-
C20 — the two-party admission protocol at the granularity that matters for "a peer is usable as
soon as Connect returned":

  initiator:  … write final message → Connect returns (peer registered locally) → may open streams
  responder:  handleConnectReq: [in-flight marker set] … read + verify final message → addPeer →
              return [marker cleared]
  responder's stream wrapper: getPeer(remote); found → run the handler with the registered peer;
              not found → if an inbound handshake of that peer is in flight, wait for it to finish
              and look again (`waitForHandshake`), else reset the stream ("unknown peer").

`waitForHandshake = false` is the behaviour of the pinned tree (always reset when not found).
All interleavings of the two nodes' steps are considered (asynchronous, reliable channel).
-/
namespace MevCommit.Usable

inductive RPhase where
  | awaiting      -- handleConnectReq running, final message not yet read/verified
  | verified      -- final message verified, peer not yet registered
  | registered    -- addPeer done
  deriving Repr, DecidableEq

inductive SPhase where
  | notOpened
  | pending       -- stream arrived at the responder, wrapper not yet run
  | waiting       -- wrapper waits for the in-flight handshake
  | accepted      -- handler invoked with the initiator's registered identity
  | refused       -- reset as "unknown peer"
  deriving Repr, DecidableEq

structure St where
  finalWritten : Bool
  iConnected : Bool
  rPhase : RPhase
  inflight : Bool
  stream : SPhase
  deriving Repr, DecidableEq

def init : St := ⟨false, false, .awaiting, true, .notOpened⟩

inductive Step where
  | iWriteFinal | iReturn | iOpenStream
  | rReadVerify | rRegister | rDone
  | wrapperLookup | wrapperResume
  deriving Repr, DecidableEq

/-- one step; a step whose guard is false leaves the state unchanged -/
def step (wait : Bool) (s : St) : Step → St
  | .iWriteFinal => if !s.finalWritten then { s with finalWritten := true } else s
  | .iReturn => if s.finalWritten then { s with iConnected := true } else s
  | .iOpenStream => if s.iConnected && s.stream == .notOpened then { s with stream := .pending } else s
  | .rReadVerify => if s.finalWritten && s.rPhase == .awaiting then { s with rPhase := .verified } else s
  | .rRegister => if s.rPhase == .verified then { s with rPhase := .registered } else s
  | .rDone => if s.rPhase == .registered then { s with inflight := false } else s
  | .wrapperLookup =>
    if s.stream == .pending then
      if s.rPhase == .registered then { s with stream := .accepted }
      else if wait && s.inflight then { s with stream := .waiting }
      else { s with stream := .refused }
    else s
  | .wrapperResume =>
    if s.stream == .waiting && !s.inflight then
      if s.rPhase == .registered then { s with stream := .accepted } else { s with stream := .refused }
    else s

def run (wait : Bool) : St → List Step → St
  | s, [] => s
  | s, x :: xs => run wait (step wait s x) xs

end MevCommit.Usable

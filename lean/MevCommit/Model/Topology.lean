import MevCommit.Basic
/-
C15 — model of the topology view (pkg/topology/topology.go) and of the gossip handler
(pkg/discovery/discovery.go:67-146).

Two address-keyed maps (providers, bidders).  `Connected p`: add, then (announcer set) send the
newcomer the records of the other known providers whose address-book lookup succeeded (only if
there is at least one), and, iff the newcomer is a provider whose own lookup succeeds, send its
record to every known bidder.  `Disconnected p`: delete from the map of p's role.
Gossip: every listed entry whose address is not in the view is passed to Connect; whatever
peers Connect returns (address and role proven by the handshake) are added.
Roles: 0 bootnode, 1 provider, 2 bidder, anything else unknown.  Addresses are naturals.
-/
namespace MevCommit.Topology

structure Peer where
  addr : Nat
  role : Int
  deriving Repr, DecidableEq

def roleProvider : Int := 1
def roleBidder : Int := 2

structure View where
  providers : List Peer     -- at most one entry per address
  bidders : List Peer
  deriving Repr, DecidableEq

def View.empty : View := ⟨[], []⟩

def insert (l : List Peer) (p : Peer) : List Peer := p :: l.filter (fun q => q.addr ≠ p.addr)
def erase (l : List Peer) (a : Nat) : List Peer := l.filter (fun q => q.addr ≠ a)

def add (v : View) (p : Peer) : View :=
  if p.role = roleProvider then { v with providers := insert v.providers p }
  else if p.role = roleBidder then { v with bidders := insert v.bidders p }
  else v

def remove (v : View) (p : Peer) : View :=
  if p.role = roleProvider then { v with providers := erase v.providers p.addr }
  else if p.role = roleBidder then { v with bidders := erase v.bidders p.addr }
  else v

def isConnected (v : View) (a : Nat) : Bool :=
  v.providers.any (fun q => q.addr = a) || v.bidders.any (fun q => q.addr = a)

/-- one BroadcastPeers call: recipient and the addresses whose records are sent -/
structure Broadcast where
  to : Peer
  records : List Nat
  deriving Repr, DecidableEq

/-- announcements triggered by `Connected p`; `lookupOk a` = address-book lookup succeeds -/
def announce (v : View) (p : Peer) (lookupOk : Nat → Bool) : List Broadcast :=
  let others := (v.providers.filter (fun q => q.addr ≠ p.addr ∧ lookupOk q.addr)).map (·.addr)
  let first := if others.isEmpty then [] else [⟨p, others⟩]
  let second := if p.role = roleProvider ∧ lookupOk p.addr then v.bidders.map (fun b => ⟨b, [p.addr]⟩) else []
  first ++ second

/-- a gossip entry: claimed address, and what Connect on its underlay answers -/
structure Entry where
  claimed : Nat
  connect : Option Peer     -- none = dial/handshake failed; some = the peer the handshake proved
  deriving Repr, DecidableEq

inductive Ev where
  | connected (p : Peer) (lookupFail : List Nat)   -- addresses whose lookup fails during this event
  | addPeers (ps : List Peer)
  | disconnected (p : Peer)
  | gossip (es : List Entry)
  deriving Repr, DecidableEq

structure Out where
  broadcasts : List Broadcast
  dialled : List Nat          -- claimed addresses passed to Connect
  deriving Repr, DecidableEq

def step (v : View) : Ev → View × Out
  | .connected p fails =>
    let v' := add v p
    (v', ⟨announce v' p (fun a => !fails.contains a), []⟩)
  | .addPeers ps => (ps.foldl add v, ⟨[], []⟩)
  | .disconnected p => (remove v p, ⟨[], []⟩)
  | .gossip es =>
    -- all entries are checked against the view before any dial completes
    let todo := es.filter (fun e => !isConnected v e.claimed)
    ((todo.filterMap (·.connect)).foldl add v, ⟨[], todo.map (·.claimed)⟩)

def run : View → List Ev → List (View × Out)
  | _, [] => []
  | v, e :: es => (step v e) :: run (step v e).1 es

end MevCommit.Topology

import MevCommit.Basic
import MevCommit.Extracted
/-
C01 / C07 — model of the provider's bid handler `Preconfirmation.handleBid`
(pkg/preconfirmation/preconfirmation.go:182-252) composed with `Service.ProcessBid`
(pkg/rpc/provider/service.go:66-109).

Gates, in order: peer role = bidder → ReadMsg → VerifyBid → CheckBidderAllowance →
ProcessBid (format rules; registration; hand-off to the engine) → wait for the engine's status
under a deadline → on ACCEPTED only: ConstructPreConfirmation (verifies again, hashes, signs),
StoreCommitment, WriteMsg.
Everything the handler talks to is the environment: the outcomes of the individual gates and
a *schedule* of events that happen while the bid waits (engine receives it, engine decisions
for any digest with any status value, the deadline, cancellation).
-/
namespace MevCommit.Preconf

inductive Event where
  | handoff                           -- the engine took the bid from the service
  | decision (thisDigest : Bool) (status : Nat)  -- a decision naming this bid's digest or another one
  | deadline                          -- the 5 s context expires
  | cancel                            -- the caller's context is cancelled
  deriving Repr, DecidableEq

structure Env where
  roleIsBidder : Bool
  readOk : Bool
  verifyOk : Bool           -- VerifyBid succeeds (digest, signature; C02)
  allowanceOk : Bool        -- CheckBidderAllowance (C11)
  formatOk : Bool           -- protovalidate rules on the bid (C12/C19)
  schedule : List Event
  signOk : Bool             -- key signer produces the commitment signature
  storeOk : Bool            -- settlement submission accepted
  writeOk : Bool
  deriving Repr

inductive Effect where
  | sign      -- commitment signature produced with the provider key
  | store     -- settlement transaction submitted
  | write     -- commitment message written to the bidder's stream
  deriving Repr, DecidableEq

inductive Result where
  | ok                    -- nil error after a written commitment
  | nothing               -- nil error without a commitment (status neither accepted nor rejected)
  | err (kind : String)
  deriving Repr, DecidableEq

structure Obs where
  effects : List Effect
  result : Result
  deriving Repr, DecidableEq

def statusAccepted : Nat := 1
def statusRejected : Nat := 2
def validStatus (s : Nat) : Bool := s == 1 || s == 2

/-- what the wait for the engine yields: a status the handler receives, or a context error -/
inductive Waited where
  | status (s : Nat)
  | ctxErr
  deriving Repr, DecidableEq

/-- phase A: registered, parked on the hand-off.  A valid decision naming this digest removes the
    entry and leaves its status in the bid's buffered channel. -/
def waitHandoff (buffered : Option Nat) : List Event → Waited ⊕ (Option Nat × List Event)
  | [] => .inl .ctxErr                                  -- silence: the deadline fires eventually
  | .handoff :: rest => .inr (buffered, rest)
  | .deadline :: _ => .inl .ctxErr
  | .cancel :: _ => .inl .ctxErr
  | .decision mine st :: rest =>
    if mine && validStatus st && buffered.isNone then waitHandoff (some st) rest
    else waitHandoff buffered rest                     -- other digest / invalid status / already answered

/-- phase B: handed off; `select { ctx.Done | status }` -/
def waitStatus : List Event → Waited
  | [] => .ctxErr
  | .handoff :: rest => waitStatus rest
  | .deadline :: _ => .ctxErr
  | .cancel :: _ => .ctxErr
  | .decision mine st :: rest => if mine && validStatus st then .status st else waitStatus rest

def wait (sched : List Event) : Waited :=
  match waitHandoff none sched with
  | .inl w => w
  | .inr (some st, _) => .status st
  | .inr (none, rest) => waitStatus rest

def handleBid (e : Env) : Obs :=
  if !e.roleIsBidder then ⟨[], .err "invalid bidder type"⟩
  else if !e.readOk then ⟨[], .err "read"⟩
  else if !e.verifyOk then ⟨[], .err "InvalidArgument"⟩
  else if !e.allowanceOk then ⟨[], .err "FailedPrecondition"⟩
  else if !e.formatOk then ⟨[], .err "validation"⟩
  else match wait e.schedule with
    | .ctxErr => ⟨[], .err "context"⟩
    | .status st =>
      if st = statusRejected then ⟨[], .err "Internal"⟩
      else if st = statusAccepted then
        if !e.signOk then ⟨[], .err "Internal"⟩
        else if !e.storeOk then ⟨[.sign, .store], .err "Internal"⟩
        else if !e.writeOk then ⟨[.sign, .store, .write], .err "write"⟩
        else ⟨[.sign, .store, .write], .ok⟩
      else ⟨[], .nothing⟩

end MevCommit.Preconf

import MevCommit.Basic
/-
C06 — the partial operations (index, slice, dereference) that peer-controlled data can reach,
each modelled with Go's panicking semantics and the guard the code puts in front of it.

  signer.Verify (pkg/signer/signer.go):       pub, err := SigToPub(hash, sig); err → return
                                              VerifySignature(pub, hash, sig[:len(sig)-1])     -- slice
  GetEthAddressFromPeerID (address.go):       key, err := DecompressPubkey(raw); err → return
                                              FromECDSAPub(key)[1:]                           -- slice
  eipVerify / VerifyPreConfirmation:          sig[64], c.Bid.Digest                           -- Model/Signer (C02)
  peerRegistry.Disconnected:                  overlays[peerID].EthAddress                     -- Model/PeerRegistry (C14)
  discovery.handlePeersList:                  common.BytesToAddress(b)  (total: crops / left-pads to 20 bytes)
-/
namespace MevCommit.Hostile

/-- Go slice expression `b[:n]` : panics when n is negative or exceeds the length -/
def sliceTo (b : Bytes) (n : Int) : Outcome Bytes :=
  if n < 0 ∨ (b.length : Int) < n then .panic "slice bounds out of range" else .ok (b.take n.toNat)

/-- Go slice expression `b[n:]` -/
def sliceFrom (b : Bytes) (n : Nat) : Outcome Bytes :=
  if b.length < n then .panic "slice bounds out of range" else .ok (b.drop n)

/-- `signer.Verify`: `recover` is go-ethereum's SigToPub, which rejects every signature whose
    length is not 65 (contract `recoverLen`) -/
def signerVerify (recover : Bytes → Bytes → Option Bytes) (verify : Bytes → Bytes → Bytes → Bool)
    (hash sig : Bytes) : Outcome (Bool × Bytes) :=
  match recover hash sig with
  | none => .err "recover failed"
  | some pub =>
    (sliceTo sig ((sig.length : Int) - 1)).bind (fun rs => .ok (verify pub hash rs, pub))

/-- `GetEthAddressFromPeerID` after extraction: decompress, then drop the 0x04 prefix -/
def addrFromCompressed (decompress : Bytes → Option Bytes) (H : Bytes → Bytes) (raw : Bytes) : Outcome Bytes :=
  match decompress raw with
  | none => .err "invalid public key"
  | some pub => (sliceFrom pub 1).bind (fun xy => .ok ((H xy).drop 12))

/-- `common.BytesToAddress`: keep the last 20 bytes, left-pad with zeros -/
def bytesToAddress (b : Bytes) : Bytes :=
  let c := if 20 < b.length then b.drop (b.length - 20) else b
  List.replicate (20 - c.length) 0 ++ c

end MevCommit.Hostile

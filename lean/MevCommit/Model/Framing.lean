import MevCommit.Basic
/-
C13 — model of the stream framing (pkg/p2p/libp2p/stream.go:41-186):

  wire     = msgio frames: 4-byte big-endian length ++ payload; the reader rejects a length
             greater than 8 MiB
  payload  = protobuf `StreamMsg{ oneof body { bytes data = 1; google.rpc.Status error = 2 } }`
  Status   = { int32 code = 1; string message = 2; repeated Any details = 3 }

ReadMsg:  frame → StreamMsg;  error set → status error (code, message) — a status with code 0
          (OK) converts to a nil error, i.e. "success without data";  neither data nor error →
          "message has no data";  data → handed to the inner message's Unmarshal.
The inner messages and the header map are opaque byte strings here (protobuf library trusted);
the envelope, the status and the framing are modelled at byte level, with a general protobuf
wire-format field parser (unknown fields skipped, last occurrence of the oneof wins).
-/
namespace MevCommit.Framing

def maxFrame : Nat := 8 * 1024 * 1024

/-! ### varints and fields -/

def encodeVarint (n : Nat) : Bytes :=
  if n < 128 then [UInt8.ofNat n] else UInt8.ofNat (n % 128 + 128) :: encodeVarint (n / 128)
decreasing_by omega

/-- decode a varint of at most `fuel` bytes: value and the remaining input -/
def decodeVarint : Nat → Bytes → Option (Nat × Bytes)
  | 0, _ => none
  | _, [] => none
  | fuel + 1, b :: rest =>
    if b.toNat < 128 then some (b.toNat, rest)
    else match decodeVarint fuel rest with
      | some (v, r) => some (b.toNat - 128 + 128 * v, r)
      | none => none

/-- protobuf allows at most 10 bytes for a varint -/
def varintMax : Nat := 10

inductive Field where
  | varint (num : Nat) (v : Nat)
  | len (num : Nat) (b : Bytes)
  | fixed64 (num : Nat) (b : Bytes)
  | fixed32 (num : Nat) (b : Bytes)
  deriving Repr, DecidableEq

def encodeLenField (num : Nat) (b : Bytes) : Bytes :=
  encodeVarint (num * 8 + 2) ++ encodeVarint b.length ++ b

def encodeVarintField (num v : Nat) : Bytes := encodeVarint (num * 8) ++ encodeVarint v

/-- parse one field from the front of the buffer -/
def parseField (buf : Bytes) : Option (Field × Bytes) :=
  match decodeVarint varintMax buf with
  | none => none
  | some (key, rest) =>
    let num := key / 8
    if num = 0 then none else
    match key % 8 with
    | 0 => match decodeVarint varintMax rest with
      | some (v, r) => some (.varint num v, r)
      | none => none
    | 1 => if rest.length < 8 then none else some (.fixed64 num (rest.take 8), rest.drop 8)
    | 2 => match decodeVarint varintMax rest with
      | some (l, r) => if r.length < l then none else some (.len num (r.take l), r.drop l)
      | none => none
    | 5 => if rest.length < 4 then none else some (.fixed32 num (rest.take 4), rest.drop 4)
    | _ => none    -- groups (3, 4) and undefined wire types are rejected

/-- parse all fields of a message; `fuel` bounds the number of fields (each consumes ≥ 1 byte) -/
def parseFields : Nat → Bytes → Option (List Field)
  | _, [] => some []
  | 0, _ :: _ => none
  | fuel + 1, buf =>
    match parseField buf with
    | none => none
    | some (f, rest) =>
      match parseFields fuel rest with
      | some fs => some (f :: fs)
      | none => none

/-! ### google.rpc.Status and StreamMsg -/

structure Status where
  code : Nat
  message : Bytes
  deriving Repr, DecidableEq

/-- proto3: default values are not emitted -/
def encodeStatus (s : Status) : Bytes :=
  (if s.code = 0 then [] else encodeVarintField 1 s.code) ++
  (if s.message = [] then [] else encodeLenField 2 s.message)

def statusOfFields (fs : List Field) : Status :=
  fs.foldl (fun st f => match f with
    | .varint 1 v => { st with code := v % 2^32 }     -- int32: low 32 bits (codes are small)
    | .len 2 b => { st with message := b }
    | _ => st) ⟨0, []⟩

inductive Body where
  | none
  | data (b : Bytes)
  | error (st : Status)
  | outside      -- several occurrences of the oneof members: protobuf merge rules, not modelled
  deriving Repr, DecidableEq

def encodeData (payload : Bytes) : Bytes := encodeLenField 1 payload
def encodeError (st : Status) : Bytes := encodeLenField 2 (encodeStatus st)

/-- the oneof members; a known field number with another wire type is an unknown field for the
    protobuf library and is skipped -/
def isKnown : Field → Bool
  | .len n _ => n == 1 || n == 2
  | _ => false

def bodyOfFields (fs : List Field) : Option Body :=
  match fs.filter isKnown with
  | [] => some .none
  | [.len 1 b] => some (.data b)
  | [.len 2 b] =>
    match parseFields b.length b with
    | some sf => some (.error (statusOfFields sf))
    | Option.none => Option.none
  | _ => some .outside

def decodeStreamMsg (buf : Bytes) : Option Body :=
  match parseFields buf.length buf with
  | some fs => bodyOfFields fs
  | Option.none => Option.none

/-! ### frames -/

def frame (payload : Bytes) : Bytes := toBE 4 payload.length ++ payload

/-- what a reader sees -/
inductive ReadResult where
  | data (b : Bytes)             -- handed to the inner Unmarshal
  | statusErr (code : Nat) (msg : Bytes)
  | okNoData                     -- error frame with code 0: nil error, target untouched
  | noData                       -- "message has no data"
  | malformed                    -- envelope does not parse
  | tooLarge
  | truncated                    -- stream ended inside a frame (EOF / unexpected EOF)
  | outside                      -- envelope shape outside the model (only "no crash" is compared)
  deriving Repr, DecidableEq

def interpret (payload : Bytes) : ReadResult :=
  match decodeStreamMsg payload with
  | Option.none => .malformed
  | some .none => .noData
  | some (.data b) => .data b
  | some (.error st) => if st.code = 0 then .okNoData else .statusErr st.code st.message
  | some .outside => .outside

/-- read one frame from the front of the byte stream (chunking is immaterial: the reader
    consumes the concatenation) -/
def readFrame (s : Bytes) : Option (Option Bytes × Bytes) :=   -- (payload or tooLarge, rest)
  if s.length < 4 then none
  else
    let l := fromBE (s.take 4)
    if maxFrame < l then some (none, s.drop 4)
    else if (s.drop 4).length < l then none
    else some (some ((s.drop 4).take l), (s.drop 4).drop l)

/-- successive ReadMsg calls until the stream is exhausted or unusable -/
def readAll : Nat → Bytes → List ReadResult
  | _, [] => []
  | 0, _ => []
  | fuel + 1, s =>
    match readFrame s with
    | none => [.truncated]
    | some (none, _) => [.tooLarge]
    | some (some p, rest) => interpret p :: readAll fuel rest

/-- what a writer does -/
inductive Write where
  | msg (payload : Bytes)           -- WriteMsg(m), payload = Marshal(m)
  | error (st : Status)             -- WriteError(status)
  deriving Repr, DecidableEq

def encodeWrite : Write → Bytes
  | .msg p => frame (encodeData p)
  | .error st => frame (encodeError st)

def expected : Write → ReadResult
  | .msg p => .data p
  | .error st => if st.code = 0 then .okNoData else .statusErr st.code st.message

end MevCommit.Framing

import MevCommit.Basic
/- decimal print / parse round trip -/
namespace MevCommit

theorem digitsVal_append_single (xs : Bytes) (d : UInt8) :
    digitsVal (xs ++ [d]) = digitsVal xs * 10 + (d.toNat - 48) := by
  simp [digitsVal, List.foldl_append]

theorem toNat_digit (k : Nat) (hk : k < 10) : (digitChar k).toNat = 48 + k := by
  unfold digitChar; rw [UInt8.toNat_ofNat']; omega

theorem isDigit_digit (k : Nat) (hk : k < 10) : isDigit (digitChar k) = true := by
  unfold isDigit; rw [toNat_digit k hk]; simp; omega

theorem showDec_ne_nil (n : Nat) : showDec n ≠ [] := by
  unfold showDec; split <;> simp

theorem showDec_all_digits (n : Nat) : (showDec n).all isDigit = true := by
  induction n using Nat.strongRecOn with
  | _ n ih =>
    unfold showDec
    split
    · rename_i h; simp [isDigit_digit n h]
    · rename_i h
      have := ih (n / 10) (by omega)
      simp [List.all_append, this, isDigit_digit (n % 10) (by omega)]

theorem digitsVal_showDec (n : Nat) : digitsVal (showDec n) = n := by
  induction n using Nat.strongRecOn with
  | _ n ih =>
    unfold showDec
    split
    · rename_i h; simp [digitsVal, toNat_digit n h]
    · rename_i h
      rw [digitsVal_append_single, ih (n / 10) (by omega), toNat_digit (n % 10) (by omega)]
      omega

theorem parseDec_showDec (n : Nat) : parseDec (showDec n) = some n := by
  simp [parseDec, showDec_ne_nil, showDec_all_digits, digitsVal_showDec]

/-- a rendered number contains no byte outside '0'..'9' -/
theorem not_mem_showDec (n : Nat) (c : UInt8) (hc : isDigit c = false) : c ∉ showDec n := by
  intro hmem
  have := showDec_all_digits n
  rw [List.all_eq_true] at this
  have := this c hmem
  simp [hc] at this

end MevCommit

import MevCommit.Basic
/- big-endian fixed-width words: length, value, injectivity -/
namespace MevCommit

@[simp] theorem toBE_length (k n : Nat) : (toBE k n).length = k := by
  induction k generalizing n with
  | zero => simp [toBE]
  | succ k ih => simp [toBE, ih]

theorem fromBE_append_single (bs : Bytes) (b : UInt8) :
    fromBE (bs ++ [b]) = fromBE bs * 256 + b.toNat := by
  simp [fromBE, List.foldl_append]

theorem fromBE_toBE (k n : Nat) : fromBE (toBE k n) = n % 256 ^ k := by
  induction k generalizing n with
  | zero => simp [toBE, fromBE, Nat.mod_one]
  | succ k ih =>
    rw [toBE, fromBE_append_single, ih, UInt8.toNat_ofNat']
    have h256 : (2:Nat) ^ 8 = 256 := by decide
    rw [h256, Nat.pow_succ]
    rw [Nat.mul_comm (256 ^ k) 256, Nat.mod_mul]
    omega

theorem fromBE_toBE_of_lt (k n : Nat) (h : n < 256 ^ k) : fromBE (toBE k n) = n := by
  rw [fromBE_toBE, Nat.mod_eq_of_lt h]

/-- fixed-width big-endian encoding is injective below 256^k -/
theorem toBE_injective (k a b : Nat) (ha : a < 256 ^ k) (hb : b < 256 ^ k)
    (h : toBE k a = toBE k b) : a = b := by
  have := congrArg fromBE h
  rwa [fromBE_toBE_of_lt k a ha, fromBE_toBE_of_lt k b hb] at this

theorem pow256_32 : (256 : Nat) ^ 32 = 2 ^ 256 := by
  have : (256 : Nat) = 2 ^ 8 := by decide
  rw [this, ← Nat.pow_mul]

end MevCommit

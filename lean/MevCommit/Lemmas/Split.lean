import MevCommit.Model.Semver
namespace MevCommit.Semver

theorem splitOn_ne_nil (sep : UInt8) (bs : Bytes) : splitOn sep bs ≠ [] := by
  induction bs with
  | nil => simp [splitOn]
  | cons c rest ih =>
    unfold splitOn
    split
    · simp
    · split
      · contradiction
      · simp

/-- a segment without the separator followed by the separator splits off -/
theorem splitOn_append_sep (sep : UInt8) (a rest : Bytes) (ha : sep ∉ a) :
    splitOn sep (a ++ sep :: rest) = a :: splitOn sep rest := by
  induction a with
  | nil => simp [splitOn]
  | cons c a ih =>
    have hc : c ≠ sep := by intro h; apply ha; simp [h]
    have ha' : sep ∉ a := by intro h; apply ha; simp [h]
    simp only [List.cons_append]
    rw [splitOn]
    simp [hc, ih ha']

theorem splitOn_no_sep (sep : UInt8) (a : Bytes) (ha : sep ∉ a) : splitOn sep a = [a] := by
  induction a with
  | nil => simp [splitOn]
  | cons c a ih =>
    have hc : c ≠ sep := by intro h; apply ha; simp [h]
    have ha' : sep ∉ a := by intro h; apply ha; simp [h]
    rw [splitOn]
    simp [hc, ih ha']

end MevCommit.Semver

/-
Executable Keccak-256 (legacy padding 0x01, as used by Ethereum), core Lean only.
Used only to *execute* models in the driver; every theorem is stated for an arbitrary
hash function `H : List UInt8 → List UInt8`, so nothing proved depends on this file.
-/
namespace MevCommit.Keccak

def rc : Array UInt64 := #[
  0x0000000000000001, 0x0000000000008082, 0x800000000000808A, 0x8000000080008000,
  0x000000000000808B, 0x0000000080000001, 0x8000000080008081, 0x8000000000008009,
  0x000000000000008A, 0x0000000000000088, 0x0000000080008009, 0x000000008000000A,
  0x000000008000808B, 0x800000000000008B, 0x8000000000008089, 0x8000000000008003,
  0x8000000000008002, 0x8000000000000080, 0x000000000000800A, 0x800000008000000A,
  0x8000000080008081, 0x8000000000008080, 0x0000000080000001, 0x8000000080008008]

def rotc : Array Nat := #[1, 3, 6, 10, 15, 21, 28, 36, 45, 55, 2, 14, 27, 41, 56, 8, 25, 43, 62, 18, 39, 61, 20, 44]
def piln : Array Nat := #[10, 7, 11, 17, 18, 3, 5, 16, 8, 21, 24, 4, 15, 23, 19, 13, 12, 2, 20, 14, 22, 9, 6, 1]

@[inline] def rotl (x : UInt64) (n : Nat) : UInt64 :=
  (x <<< (UInt64.ofNat n)) ||| (x >>> (UInt64.ofNat (64 - n)))

def round (st : Array UInt64) (r : Nat) : Array UInt64 := Id.run do
  let mut st := st
  -- theta
  let mut bc : Array UInt64 := Array.replicate 5 0
  for i in [0:5] do
    bc := bc.set! i (st[i]! ^^^ st[i+5]! ^^^ st[i+10]! ^^^ st[i+15]! ^^^ st[i+20]!)
  for i in [0:5] do
    let t := bc[(i + 4) % 5]! ^^^ rotl bc[(i + 1) % 5]! 1
    for j in [0:5] do
      st := st.set! (j*5 + i) (st[j*5 + i]! ^^^ t)
  -- rho pi
  let mut t := st[1]!
  for i in [0:24] do
    let j := piln[i]!
    let b := st[j]!
    st := st.set! j (rotl t rotc[i]!)
    t := b
  -- chi
  for j in [0:5] do
    let b0 := st[j*5]!; let b1 := st[j*5+1]!; let b2 := st[j*5+2]!
    let b3 := st[j*5+3]!; let b4 := st[j*5+4]!
    st := st.set! (j*5)   (b0 ^^^ ((~~~ b1) &&& b2))
    st := st.set! (j*5+1) (b1 ^^^ ((~~~ b2) &&& b3))
    st := st.set! (j*5+2) (b2 ^^^ ((~~~ b3) &&& b4))
    st := st.set! (j*5+3) (b3 ^^^ ((~~~ b4) &&& b0))
    st := st.set! (j*5+4) (b4 ^^^ ((~~~ b0) &&& b1))
  -- iota
  st := st.set! 0 (st[0]! ^^^ rc[r]!)
  return st

def keccakF (st : Array UInt64) : Array UInt64 := Id.run do
  let mut st := st
  for r in [0:24] do
    st := round st r
  return st

def xorBlock (st : Array UInt64) (blk : Array UInt8) (off : Nat) : Array UInt64 := Id.run do
  let mut st := st
  for i in [0:17] do
    let mut w : UInt64 := 0
    for k in [0:8] do
      w := w ||| ((blk[off + i*8 + k]!).toUInt64 <<< (UInt64.ofNat (8*k)))
    st := st.set! i (st[i]! ^^^ w)
  return st

/-- Keccak-256 of a byte array (rate 136, pad 0x01 … 0x80). -/
def hashArr (msg : Array UInt8) : Array UInt8 := Id.run do
  let rate := 136
  let n := msg.size
  let padLen := rate - n % rate
  let mut m := msg
  if padLen == 1 then
    m := m.push 0x81
  else
    m := m.push 0x01
    for _ in [0:padLen - 2] do
      m := m.push 0
    m := m.push 0x80
  let mut st : Array UInt64 := Array.replicate 25 0
  for b in [0:m.size / rate] do
    st := xorBlock st m (b*rate)
    st := keccakF st
  let mut out : Array UInt8 := Array.mkEmpty 32
  for i in [0:4] do
    for k in [0:8] do
      out := out.push ((st[i]! >>> (UInt64.ofNat (8*k))).toUInt8)
  return out

def hash (msg : List UInt8) : List UInt8 := (hashArr msg.toArray).toList

end MevCommit.Keccak

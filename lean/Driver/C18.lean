import Driver.Util
import MevCommit.Keccak
import MevCommit.Model.Identity
open Lean
namespace Driver.C18
open MevCommit MevCommit.Identity Driver

/-- curve answers for one key, computed by the harness with go-ethereum -/
def curveOf (unc comp : Bytes) : Curve :=
  { pubOf := fun _ => unc, compress := fun _ => comp,
    decompress := fun c => if c == comp then some unc else none }

def handle (inp impl : Json) : CaseResult :=
  let d := fromBE (jbytes inp "d")
  let unc := jbytes inp "uncompressed"
  let comp := jbytes inp "compressed"
  let C := curveOf unc comp
  let pad := pad32 d
  let pid := nodePeerId C d
  let addrKey := addrOfPub Keccak.hash unc
  let addrPeer := (ethAddrFromPeerId Keccak.hash C pid).getD []
  let m := mkObj [("pad", hexStr pad), ("peerid", hexStr pid), ("addr_peer", hexStr addrPeer),
    ("addr_key", hexStr addrKey), ("panic", false)]
  -- the property, judged on the implementation's own observations
  let ap := jstr impl "addr_peer"
  let ak := jstr impl "addr_key"
  let viaNew := jbool inp "via_new"
  let ok := !(jbool impl "panic") && jstr impl "err" == "" && ap != "" && ap == ak &&
    (!viaNew || (jstr impl "new_addr" == ak && jstr impl "new_id" == jstr impl "peerid"))
  { model := m, spec := ok,
    why := if ok then "" else if jstr impl "err" == "honest-peer-refused" then "honest-node-refused-by-its-peer"
      else if jstr impl "err" != "" then "startup-error-for-valid-key"
      else if ap != ak then "peer-identity-address-differs-from-key-address" else "service-identity-differs" }
end Driver.C18

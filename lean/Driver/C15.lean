import Driver.Util
import MevCommit.Model.Topology
import MevCommit.Spec.C15
open Lean
namespace Driver.C15
open MevCommit MevCommit.Topology Driver

def peerOf (j : Json) : Peer := ⟨jnat j "addr", jint j "role"⟩
def natArr (j : Json) (k : String) : List Nat := (jarr j k).toList.map (fun x => (x.getNat?).toOption.getD 0)

def evOf (j : Json) : Ev :=
  match jstr j "t" with
  | "connected" => .connected (peerOf (jobj j "p")) (natArr j "lookup_fail")
  | "add" => .addPeers ((jarr j "ps").toList.map peerOf)
  | "disconnected" => .disconnected (peerOf (jobj j "p"))
  | _ => .gossip ((jarr j "entries").toList.map (fun e =>
      ⟨jnat e "claimed", if jhas e "connect" then some (peerOf (jobj e "connect")) else none⟩))

def sortNat (l : List Nat) : List Nat := (l.toArray.qsort (· < ·)).toList
def sortPeers (l : List Peer) : List Peer := (l.toArray.qsort (fun a b => a.addr < b.addr)).toList

def peerJson (p : Peer) : Json := mkObj [("addr", p.addr), ("role", Json.num (JsonNumber.fromInt p.role))]
def natsJson (l : List Nat) : Json := Json.arr (l.map (fun (n : Nat) => (n : Json))).toArray

def bcLt (a b : Broadcast) : Bool :=
  a.to.addr < b.to.addr || (a.to.addr == b.to.addr && toString (sortNat a.records) < toString (sortNat b.records))

def probe : List Nat := [1, 2, 3, 4, 5, 6, 7, 8, 9, 99]

/-- every address a case mentions (plus the fixed probe set): the addresses the property is
judged over -/
def addrUniverse (evs : List Ev) : List Nat :=
  let mentioned := evs.flatMap (fun e => match e with
    | .connected p fails => p.addr :: fails
    | .addPeers ps => ps.map (·.addr)
    | .disconnected p => [p.addr]
    | .gossip es => es.flatMap (fun en => en.claimed :: (match en.connect with | some q => [q.addr] | none => [])))
  (probe ++ mentioned).eraseDups

def stepJson (v : View) (o : Out) : Json :=
  mkObj [("providers", Json.arr ((sortPeers v.providers).map peerJson).toArray),
    ("bidders", Json.arr ((sortPeers v.bidders).map peerJson).toArray),
    ("connected", natsJson (probe.filter (isConnected v))),
    ("broadcasts", Json.arr (((o.broadcasts.toArray.qsort bcLt).toList).map (fun b =>
      mkObj [("to", peerJson b.to), ("records", natsJson (sortNat b.records))])).toArray),
    ("dialled", natsJson (sortNat o.dialled))]

/-- the property judged on the implementation's observations, step by step, against the
    history-defined view (`inViewF`) -/
def specOk (evs : List Ev) (steps : Array Json) (streamFail : List Bool := []) : Bool × String := Id.run do
  let univ := addrUniverse evs
  let mut atoms : List Spec.C15.Atom := []
  let mut i := 0
  -- the view the spec itself derives from the history (used for "who is a known provider/bidder")
  let mut v : View := View.empty
  for e in evs do
    let s := steps[i]?.getD Json.null
    let new := Spec.C15.atomsOf v e
    atoms := atoms ++ new
    let (v', _) := step v e
    let vPrev := v
    v := v'
    -- reported sets = peers whose latest atom is an addition
    let provs := (jarr s "providers").toList.map peerOf
    let bids := (jarr s "bidders").toList.map peerOf
    for a in univ do
      let inP := Spec.C15.inViewF false atoms a roleProvider
      let inB := Spec.C15.inViewF false atoms a roleBidder
      if (provs.any (·.addr == a)) != inP || (bids.any (·.addr == a)) != inB then
        return (false, "reported-set-differs-from-connect-disconnect-history")
      -- the harness asks IsConnected for the probe set only
      if probe.contains a && ((natArr s "connected").contains a) != (inP || inB) then
        return (false, "isconnected-differs-from-history")
    if (provs ++ bids).any (fun q => !univ.contains q.addr) then
      return (false, "reported-set-differs-from-connect-disconnect-history")
    if provs.any (·.role != roleProvider) || bids.any (·.role != roleBidder) then
      return (false, "peer-reported-under-wrong-role")
    match e with
    | .connected p fails =>
      if streamFail.getD i false then
        -- no stream could be opened during this event: nothing reached anybody
        if !(jarr s "broadcasts").isEmpty then return (false, "broadcast-recorded-although-no-stream-could-be-opened")
        i := i + 1
        continue
      let known (a : Nat) (r : Int) := Spec.C15.inViewF false atoms a r
      for b in (jarr s "broadcasts").toList do
        let to := peerOf (jobj b "to")
        let recs := natArr b "records"
        if jbool b "bad_record" then return (false, "record-with-wrong-contact-info")
        if to == p && !(recs == [p.addr] && known p.addr roleBidder && p.role == roleProvider) then
          -- to the newcomer: other known providers only, never itself, never a bidder-only peer
          if recs.any (fun a => a == p.addr || !known a roleProvider || fails.contains a) then
            return (false, "newcomer-sent-own-or-non-provider-record")
        else
          -- to somebody else: must be a known bidder receiving exactly the newcomer's record
          if !(known to.addr roleBidder && to.role == roleBidder && recs == [p.addr] && p.role == roleProvider) then
            return (false, "announcement-to-wrong-recipient-or-content")
      -- completeness
      let bcs := (jarr s "broadcasts").toList
      let others := univ.filter (fun a => a != p.addr && known a roleProvider && !fails.contains a)
      if !others.isEmpty then
        if !(bcs.any (fun b => peerOf (jobj b "to") == p && sortNat (natArr b "records") == sortNat others)) then
          return (false, "newcomer-not-sent-all-other-providers")
      if p.role == roleProvider && !fails.contains p.addr then
        for a in univ do
          if known a roleBidder && !(a == p.addr && false) then
            if !(bcs.any (fun b => (peerOf (jobj b "to")).addr == a && (peerOf (jobj b "to")).role == roleBidder && natArr b "records" == [p.addr])) then
              return (false, "known-bidder-not-sent-new-provider")
    | .gossip es =>
      let dialled := natArr s "dialled"
      for a in dialled do
        if isConnected vPrev a then return (false, "connected-address-dialled-again")
      for en in es do
        if !isConnected vPrev en.claimed && !dialled.contains en.claimed then
          return (false, "unknown-gossiped-peer-not-dialled")
    | _ =>
      if !(jarr s "broadcasts").isEmpty || !(jarr s "dialled").isEmpty then
        return (false, "unexpected-broadcast-or-dial")
    i := i + 1
  return (true, "")

def handle (inp impl : Json) : CaseResult :=
  let evs := (jarr inp "events").toList.map evOf
  let sf := (jarr inp "events").toList.map (fun j => jbool j "stream_fail")
  let rs := run View.empty evs
  let rs' := (rs.zip sf).map (fun x => if x.2 then (x.1.1, { x.1.2 with broadcasts := [] }) else x.1)
  let m := mkObj [("steps", Json.arr (rs'.map (fun r => stepJson r.1 r.2)).toArray), ("panic", false)]
  let (ok, why) := specOk evs (jarr impl "steps") sf
  let ok := ok && !(jbool impl "panic") && (jarr impl "steps").size == evs.length
  { model := m, spec := ok, why := if jbool impl "panic" then "panic" else why }
end Driver.C15

import Driver.Util
import MevCommit.Model.Framing
open Lean
namespace Driver.C13
open MevCommit MevCommit.Framing Driver

/-- marshalled `BytesValue{value = n × 0x61}` : 0a <varint n> <bytes> -/
def fillPayload (n : Nat) : Bytes := encodeLenField 1 (List.replicate n 0x61)

structure W where
  w : Option Write        -- none for raw frames
  raw : Bytes := []       -- raw: bytes put on the wire

def writeOf (j : Json) : W :=
  match jstr j "t" with
  | "msg" =>
    let p := if jnat j "fill" > 0 then fillPayload (jnat j "fill") else jbytes j "p"
    { w := some (.msg p) }
  | "error" => { w := some (.error ⟨jnat j "code", jbytes j "msg"⟩) }
  | _ =>
    let p := jbytes j "p"
    let l := if jhas j "len" then jnat j "len" else p.length
    { w := none, raw := toBE 4 l ++ p }

def wireOf (ws : List W) : Bytes :=
  (ws.map (fun x => match x.w with | some w => encodeWrite w | none => x.raw)).flatten

def readJson : ReadResult → Json
  | .data b => mkObj [("t", "data"), ("plen", b.length), ("p", if b.length ≤ 4096 then hexStr b else "")]
  | .statusErr c m => mkObj [("t", "status"), ("code", c), ("msg", hexStr m)]
  | .okNoData => mkObj [("t", "oknodata")]
  | .noData => mkObj [("t", "nodata")]
  | .malformed => mkObj [("t", "malformed")]
  | .tooLarge => mkObj [("t", "toolarge")]
  | .truncated => mkObj [("t", "truncated")]
  | .outside => mkObj [("t", "outside")]

/-- the property judged on the implementation's reads: each written message / status is read
    back, in order, as what was written; data never as error and vice versa -/
def specOk (ws : List W) (reads : Array Json) : Bool × String := Id.run do
  let mut i := 0
  for x in ws do
    match x.w with
    | none =>
      -- raw frames: a frame that carries neither data nor an error must be rejected by the reader
      -- (not read as a message, not as a success); other raw frames: the model comparison only
      match readAll 1 x.raw with
      | [.noData] =>
        let r := reads[i]?.getD Json.null
        if jstr r "t" != "nodata" then return (false, "frame-with-neither-data-nor-error-not-rejected")
        return (true, "")
      | _ => return (true, "")
    | some w =>
      let r := reads[i]?.getD Json.null
      let good := match expected w with
        | .data b => jstr r "t" == "data" && jnat r "plen" == b.length &&
            (b.length > 4096 || jstr r "p" == hexStr b)
        | .statusErr c m => jstr r "t" == "status" && jnat r "code" == c && jstr r "msg" == hexStr m
        | .okNoData => jstr r "t" == "oknodata"
        | _ => false
      if !good then
        return (false, match w with
          | .msg _ => "written-message-not-read-back-equal"
          | .error _ => "status-error-not-read-back-with-same-code-and-message")
      i := i + 1
  return (true, "")

def handle (inp impl : Json) : CaseResult :=
  if jbool inp "is_header" then
    let ok := jbool impl "header_eq" && !(jbool impl "panic")
    { model := mkObj [("header_eq", true), ("panic", false)], spec := ok,
      why := if ok then "" else "header-did-not-round-trip" }
  else
    let ws := (jarr inp "writes").toList.map writeOf
    let allFit := ws.all (fun x => match x.w with
      | some w => (match w with
        | .msg p => (encodeData p).length ≤ maxFrame
        | .error st => (encodeError st).length ≤ maxFrame)
      | none => true)
    let wire := wireOf ws
    let reads := readAll (ws.length + 3) wire
    let m := mkObj [("wirelen", wire.length), ("reads", Json.arr (reads.map readJson).toArray), ("panic", false)]
    let m := if wire.length ≤ 4096 then m.setObjVal! "wire" (hexStr wire) else m
    let (ok, why) := if allFit then specOk ws (jarr impl "reads") else (true, "")
    let ok := ok && !(jbool impl "panic")
    { model := m, spec := ok, why := if jbool impl "panic" then "panic" else why }
end Driver.C13

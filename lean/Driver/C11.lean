import Driver.Util
import MevCommit.Model.Registry
import MevCommit.Spec.C11
open Lean
namespace Driver.C11
open MevCommit MevCommit.Registry Driver

def ansOf (j : Json) : CallAns :=
  if jbool j "err" then .err else .bytes (jbytes j "bytes")

def reqOf (j : Json) : Request :=
  ⟨jbool j "to_registry", (jbig j "value").toNat, jbool j "data_is_selector"⟩

def reqJson (r : Request) : Json :=
  mkObj [("to_registry", r.toRegistry), ("value", decStr r.value), ("data_is_selector", r.dataIsSelector)]

def handle (inp impl : Json) : CaseResult :=
  let panicked := jbool impl "panic"
  if jstr inp "kind" == "check" then
    let mn := ansOf (jobj inp "min")
    let am := ansOf (jobj inp "amt")
    let m := check mn am
    let ok := !panicked && Spec.C11.checkOk mn am (jbool impl "answer")
    { model := mkObj [("answer", m.answer), ("calls", m.calls), ("panic", false)], spec := ok,
      why := if ok then "" else "check-answer-not-fail-closed" }
  else
    let e : StakeEnv := ⟨(jbig inp "amount").toNat, jbool inp "send_ok",
      if jbool inp "wait_err" then .waitErr else .status (jnat inp "status")⟩
    let m := register e
    let o : StakeObs := ⟨jbool impl "ok", ((jarr impl "requests").map reqOf).toList, jbool impl "waited"⟩
    let ok := !panicked && Spec.C11.stakeOk e o
    { model := mkObj [("ok", m.ok), ("requests", Json.arr (m.requests.map reqJson).toArray),
        ("waited", m.waited), ("panic", false)], spec := ok,
      why := if ok then "" else
        if o.ok && !(e.sendOk && e.receipt == .status 1) then "stake-success-reported-without-successful-receipt"
        else "stake-request-or-result-wrong" }
end Driver.C11

import Driver.Util
import MevCommit.Model.Wiring
open Lean
namespace Driver.Wiring
open MevCommit MevCommit.Wiring Driver

def tname : Target → String
  | .preconf => "preconf"
  | .providerRegistry => "provider-registry"
  | .bidderRegistry => "bidder-registry"

def strs (l : List String) : Json := Json.arr (l.map (fun (s : String) => (s : Json))).toArray

/-- bootnode scene -/
def handleBoot (inp impl : Json) : CaseResult :=
  let o := bootScenario nodeWire (jbool inp "staked")
  let m := mkObj [
    ("started", true),
    ("stake_reads_at", strs (o.stakeReadsAt.map tname)),
    ("stake_read_by", strs ["bootnode-node"]),
    ("other_reads", strs []),
    ("boot_admitted_provider", o.admitted),
    ("boot_blocked_provider", o.blocked)]
  let same (k : String) : Bool := (jobj impl k).compress == (jobj m k).compress
  let keys := ["started", "stake_reads_at", "stake_read_by", "other_reads", "boot_admitted_provider", "boot_blocked_provider"]
  let bad := keys.filter (fun k => !same k)
  { model := m, spec := bad.isEmpty && jstr impl "err" == "",
    why := if jstr impl "err" != "" then "whole-node-scenario-failed: " ++ jstr impl "err"
      else match bad with
        | [] => ""
        | k :: _ => "whole-node-wiring-differs-at-" ++ k }

/-- whole-node scenario (tag "nodewire"): the model's outcome under `nodeWire`, rendered with the
harness's key names; extra implementation keys are checked by the spec below -/
def handle (inp impl : Json) : CaseResult :=
  if jstr inp "scene" == "bootnode" then handleBoot inp impl else
  let shape := jstr inp "bid_shape"
  let wd : World := ⟨jbool inp "staked", jbool inp "allowed", shape == "" || shape == "valid" || shape == "padded-amount" || shape == "window-empty" || shape == "window-reversed", jstr inp "engine" != "reject"⟩
  let o1 := scenario nodeWire wd
  -- a second request through the same nodes is handled like the first
  let k := if jbool inp "sibling" then 2 else 1
  let o := { o1 with commitments := k * o1.commitments, engineSaw := k * o1.engineSaw }
  let ops := jbool inp "ops"
  let fate : TxFate := match jstr inp "ops_fault" with
    | "revert" => .reverted
    | "reject" => .rejected
    | _ => .minedOk
  let report := if opReportsSuccess fate then "balance-after" else "error"
  let m := mkObj [
    ("started", true),
    ("stake_reads_at", strs (o.stakeReadsAt.map tname)),
    ("allowance_reads_at", strs (o.allowReadsAt.map tname)),
    ("other_reads", strs []),
    ("stake_read_by", strs ["bidder-node"]),
    ("allowance_read_by", strs (if o.allowReadsAt.isEmpty then [] else ["provider-node"])),
    ("commit_txs_at", strs (o.commitTxsAt.map tname)),
    ("commit_tx_from", strs (if o.commitTxsAt.isEmpty then [] else ["provider-node"])),
    ("other_txs", strs []),
    ("commitments", o.commitments),
    ("commit_matches_tx", true),
    ("provider_address_ok", true),
    ("engine_saw", o.engineSaw),
    ("api_refused", !wd.wellFormed),
    ("stake_tx_at", if ops && opTxSeen fate then "provider-node:" ++ tname nodeWire.stakeOp ++ ".registerAndStake:requested-value" else ""),
    ("prepay_tx_at", if ops && opTxSeen fate then "bidder-node:" ++ tname nodeWire.prepayOp ++ ".prepay:requested-value" else ""),
    ("stake_reported", if ops then report else ""),
    ("prepay_reported", if ops then report else ""),
    ("provider_nonces_ok", true),
    ("cancel_unknown_reported", if ops then "error" else ""),
    -- a transaction cancelled once while pending and mined all the same: a second cancellation is refused
    ("cancel_mined_reported", if ops then "error" else "")]
  let same (k : String) : Bool := (jobj impl k).compress == (jobj m k).compress
  let keys := ["started", "stake_reads_at", "allowance_reads_at", "other_reads", "stake_read_by", "allowance_read_by",
    "commit_txs_at", "commit_tx_from", "other_txs", "commitments", "commit_matches_tx", "provider_address_ok",
    "engine_saw", "api_refused", "stake_tx_at", "prepay_tx_at", "stake_reported", "prepay_reported", "provider_nonces_ok", "cancel_unknown_reported", "cancel_mined_reported"]
  let bad := keys.filter (fun k => !same k)
  { model := m, spec := bad.isEmpty && jstr impl "err" == "",
    why := if jstr impl "err" != "" then "whole-node-scenario-failed: " ++ jstr impl "err"
      else match bad with
        | [] => ""
        | k :: _ => "whole-node-wiring-differs-at-" ++ k }
end Driver.Wiring

import Driver.Util
import MevCommit.Model.Handshake
open Lean
namespace Driver.C04
open MevCommit MevCommit.Handshake Driver

def frameOf (j : Json) : Frame :=
  match jstr j "t" with
  | "req" => .req ⟨jbytes j "role", jbytes j "token", jbytes j "sig"⟩
  | "resp" => .resp ⟨jbytes j "observed", jbytes j "role"⟩
  | _ => .bad

/-- remote frames as the reader experiences them: everything after the first unreadable frame is
    never read -/
def frameJson : Frame → Json
  | .req r => mkObj [("t", "req"), ("role", hexStr r.role), ("token", hexStr r.token), ("sig", hexStr r.sig)]
  | .resp r => mkObj [("t", "resp"), ("role", hexStr r.role), ("observed", hexStr r.observed)]
  | .bad => mkObj [("t", "bad")]

structure PrimRow where
  sig : Bytes
  msg : Bytes
  ok : Bool
  verified : Bool
  addr : Bytes

def envOf (inp : Json) : Env :=
  let rows := (jarr inp "prims").toList.map (fun j =>
    (⟨jbytes j "sig", jbytes j "msg", jbool j "ok", jbool j "verified", jbytes j "addr"⟩ : PrimRow))
  let wf : Int := jint inp "write_fail"
  { verify := fun sig msg => match rows.find? (fun r => r.sig == sig && r.msg == msg) with
      | some r => if r.ok then some (r.verified, r.addr) else none
      | none => none,
    addrOfPeer := jbytes? inp "peer_addr",
    registered := fun _ => jbool inp "registered",
    ownAddr := jbytes inp "own_addr",
    ownRole := jbytes inp "own_role",
    writeOk := fun n => (n : Int) != wf }

def roleInt : Role → Int
  | .bootnode => 0 | .provider => 1 | .bidder => 2 | .unknown => -1

def refusalStr : Refusal → String
  | .signature => "signature" | .addressMismatch => "addressMismatch"
  | .insufficientStake => "insufficientStake" | .other => "other"

def handle (inp impl : Json) : CaseResult :=
  let e := envOf inp
  let remote := (jarr inp "remote").toList.map frameOf
  let inbound := jbool inp "inbound"
  let tok := jbytes inp "own_token"
  let sg := jbytes inp "own_sig"
  let o := if inbound then Handshake.handle e tok sg remote else Handshake.handshake e tok sg remote
  let callerLevel := jstr inp "level" == "caller"
  let base : List (String × Json) := match o.outcome with
    | .admitted a r => [("outcome", ("admitted" : Json)), ("addr", (hexStr a : Json)), ("role", Json.num (JsonNumber.fromInt (roleInt r)))]
    | .refused why => [("outcome", ("refused" : Json))] ++ (if callerLevel then [] else [("class", (refusalStr why : Json))])
  let m0 := base ++ [("lookups", (o.lookups : Json)), ("panic", (false : Json))]
  -- a failed write never reaches the wire: the frames observed are the ones before it
  let wf : Int := jint inp "write_fail"
  let writtenSeen := (o.written.zipIdx.filter (fun p => wf < 0 || (p.2 : Int) < wf)).map (·.1)
  let m1 := m0 ++ [("written", Json.arr (writtenSeen.map frameJson).toArray)]
  let m2 := if callerLevel then
      let c := caller inbound (jbool inp "prior_admit") o.outcome
      m1 ++ [("notified", (c.notified : Json)),
        ("blocked", (match c.blocked with | some d => (d : Json) | none => Json.null))]
    else m1
  -- the property judged on the implementation's observation
  let admitted := jstr impl "outcome" == "admitted"
  let a := jbytes impl "addr"
  let role := jint impl "role"
  let proven (r : Req) : Bool :=
    e.verify r.sig (r.role ++ r.token) == some (true, a) && e.addrOfPeer == some a &&
    (r.role != Extracted.roleProvider || e.registered a) && role == roleInt (roleOf r.role)
  let grounds := match inbound, remote with
    | true, .req r :: .resp ack :: _ => proven r && ack.observed == e.ownAddr && ack.role == e.ownRole
    | false, .resp ec :: .req r :: _ => proven r && ec.observed == e.ownAddr && ec.role == e.ownRole
    | _, _ => false
  -- caller level: the block a refused handshake leaves behind is the one the failure class calls for
  let blockOk := !callerLevel || admitted ||
    (let c := caller inbound (jbool inp "prior_admit") o.outcome
     match c.blocked with
     | some d => jhas impl "blocked" && jnat impl "blocked" == d &&
         -- its term counts from the moment it is placed, not from some earlier moment of the handshake
         jnat impl "block_early_ms" == 0
     | none => !(jhas impl "blocked"))
  -- a peer that had been admitted and whose connection has ended: exactly one disconnect notification
  let notesOk := !(jhas impl "disconnect_notes") || jnat impl "disconnect_notes" == 1
  let ok := !(jbool impl "panic") && (!admitted || grounds) && blockOk && notesOk &&
    (admitted || (!(jbool impl "notified") && !(jhas impl "registered"))) && jnat impl "lookups" ≤ 1 &&
    -- a registry lookup happens only after the signature and address checks passed
    (jnat impl "lookups" == 0 || (match inbound, remote with
      | true, .req r :: _ => (match e.verify r.sig (r.role ++ r.token) with
          | some (true, ad) => e.addrOfPeer == some ad | _ => false)
      | false, _ :: .req r :: _ => (match e.verify r.sig (r.role ++ r.token) with
          | some (true, ad) => e.addrOfPeer == some ad | _ => false)
      | _, _ => false))
  { model := mkObj m2, spec := ok,
    why := if ok then "" else
      if jbool impl "panic" then "handshake-panicked"
      else if admitted && !grounds then "peer-admitted-without-proof-of-address-role-or-stake"
      else if !blockOk then "failed-handshake-left-the-wrong-block-or-none"
      else if !notesOk then "not-exactly-one-disconnect-notification-per-removed-peer"
      else if !admitted then "refused-handshake-left-peer-registered-or-announced"
      else "registry-consulted-before-signature-and-address-checks" }
end Driver.C04

import Driver.Util
import MevCommit.Model.Cancel
import MevCommit.Spec.C10
open Lean
namespace Driver.C10
open MevCommit MevCommit.Cancel Driver

def jbigNat (j : Json) (k : String) : Nat := (jbig j k).toNat

def caps (l : Json) : TxCaps :=
  ⟨jnat l "nonce", jbigNat l "gasprice", jbigNat l "feecap", jbigNat l "tip"⟩

def envOf (inp : Json) : Env :=
  let l := jobj inp "lookup"
  let lk := match jstr l "kind" with
    | "err" => Lookup.error
    | "notfound" => Lookup.notFound
    | "mined" => Lookup.mined (caps l)
    | _ => Lookup.pending (caps l)
  { lookup := lk,
    suggestTip := if jbool inp "suggest_err" then none else some (jbigNat inp "suggest"),
    signOk := jbool inp "sign_ok", sendOk := jbool inp "send_ok", chainId := jnat inp "chainid" }

def replJson (r : Replacement) : Json :=
  mkObj [("nonce", r.nonce), ("chainid", decStr r.chainId), ("to_self", r.toSelf),
    ("value", decStr r.value), ("datalen", r.dataLen), ("gas", r.gas),
    ("tip", decStr r.tip), ("feecap", decStr r.feeCap)]

def obsJson (o : Obs) : Json :=
  mkObj [("ok", o.ok), ("submitted", Json.arr (o.submitted.map replJson).toArray), ("panic", false)]

def replOf (j : Json) : Replacement :=
  { nonce := jnat j "nonce",
    chainId := (parseDec (strBytes (jstr j "chainid"))).getD 0,   -- "bad-signature-or-chain" ↦ 0
    toSelf := jbool j "to_self", value := jbigNat j "value", dataLen := jnat j "datalen",
    gas := jnat j "gas", tip := jbigNat j "tip", feeCap := jbigNat j "feecap" }

def handle (inp impl : Json) : CaseResult :=
  let e := envOf inp
  let m := cancelTx e
  let o : Obs := ⟨jbool impl "ok", ((jarr impl "submitted").map replOf).toList⟩
  let ok := !(jbool impl "panic") && Spec.C10.ok e o
  { model := obsJson m, spec := ok,
    why := if ok then "" else
      match e.lookup with
      | .pending _ => "replacement-not-conforming"
      | _ => "submitted-or-ok-for-non-pending-target" }
end Driver.C10

import Driver.Util
import MevCommit.Model.Nonce
import MevCommit.Spec.C08
open Lean
namespace Driver.C08
open MevCommit MevCommit.Nonce Driver

def faultOf : String → Fault
  | "estimate" => .estimate | "tip" => .tip | "price" => .price | "sign" => .sign
  | "submit" => .submit
  -- the submission call fails with the caller's context error (deadline / cancellation while the
  -- request was in flight) and the node never saw the transaction: a failed submission like any other
  | "submit-deadline" => .submit | "submit-canceled" => .submit | "submit-transport" => .submit
  | _ => .none

def optNat (j : Json) (k : String) : Option Nat :=
  if jhas j k then some (jnat j k) else none

def opOf (j : Json) : Op :=
  match jstr j "t" with
  | "send" => .send ⟨optNat j "pending", faultOf (jstr j "fault")⟩
  | "monitor" => .monitor (jnat j "c")
  | "cancel" => .cancel
  | "monitor-fails" => .monitorFailed
  | _ => .restart

def evJson : Ev → Json
  | .sent n p => mkObj [("t", "sent"), ("nonce", n), ("pending", p)]
  | .failed (some p) => mkObj [("t", "failed"), ("pending", p)]
  | .failed none => mkObj [("t", "failed")]
  | .mon c => mkObj [("t", "mon"), ("c", c)]
  | .restarted => mkObj [("t", "restarted")]
  | .cancelled => mkObj [("t", "cancelled")]
  | .monFailed => mkObj [("t", "mon-failed")]

/-- implementation event; anything unexpected maps to an event the spec rejects -/
def evOf (j : Json) : Option Ev :=
  match jstr j "t" with
  | "sent" => some (.sent (jnat j "nonce") (jnat j "pending"))
  | "failed" => some (.failed (optNat j "pending"))
  | "mon" => some (.mon (jnat j "c"))
  | "restarted" => some .restarted
  | "cancelled" => some .cancelled
  | "mon-failed" => some .monFailed
  | _ => none

def handle (inp impl : Json) : CaseResult :=
  let ops := ((jarr inp "ops").map opOf).toList
  let m := run init ops
  let evs := (jarr impl "events").toList.map evOf
  let wellFormed := evs.all Option.isSome
  let es := evs.filterMap id
  let ok := wellFormed && Spec.C08.ok es
  { model := mkObj [("events", Json.arr (m.map evJson).toArray)], spec := ok,
    why := if ok then "" else if !wellFormed then "send-result-inconsistent-with-node" else "nonce-rule-violated" }
end Driver.C08

import Driver.Util
import MevCommit.Model.Semver
import MevCommit.Spec.C16
open Lean
namespace Driver.C16
open MevCommit MevCommit.Semver Driver

def decisionJson : Decision → Json
  | .noMatchErr => mkObj [("match", false), ("err", true)]
  | .noMatch => mkObj [("match", false), ("err", false)]
  | .decided b => mkObj [("match", b), ("err", false)]
  | .outside => mkObj [("outside", true)]

def ver (j : Json) (p : String) : Version := ⟨jnat j (p ++ "M"), jnat j (p ++ "m"), jnat j (p ++ "p")⟩

def handle (inp impl : Json) : CaseResult :=
  let incoming := jbytes inp "incoming"
  let name := jbytes inp "name"
  let version := jbytes inp "version"
  let d := matchProto incoming name version
  let panicked := jbool impl "panic"
  let m := jbool impl "match"
  -- the spec speaks about structured claims; the harness sends them when the case was
  -- generated from (name, M.m.p) on both sides
  if jhas inp "claim" then
    let c := jobj inp "claim"
    let iname := jbytes c "iname"
    let iv := ver c "i"
    let hv := ver c "h"
    let wellFormed := incoming == protoId iname (showVersion iv) && version == showVersion hv
    let ok := Spec.C16.ok iname name iv hv panicked m
    { model := decisionJson d, spec := wellFormed && ok,
      why := if !wellFormed then "harness rendering differs from model rendering of the claim"
             else if ok then "" else "routing decision differs from name/major/minor rule" }
  else
    let ok := Spec.C16.okRaw incoming name version panicked m
    { model := decisionJson d, spec := ok,
      why := if ok then "" else "malformed identifier matched or panicked, or numeric version outside the major/minor rule matched" }
end Driver.C16

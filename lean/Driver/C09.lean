import Driver.Util
import MevCommit.Model.Monitor
import MevCommit.Model.WatchLoop
open Lean
namespace Driver.C09
open MevCommit MevCommit.Monitor Driver

def ansOf : String → ChainAns
  | "receipt-ok" => .receipt 1
  | "receipt-failed" => .receipt 0
  | "notfound" => .notFound
  | _ => .otherErr

def opOf (j : Json) : Op :=
  match jstr j "t" with
  | "send" => .send (jnat j "nonce") (jnat j "tx")
  | "watch" => .watch (jnat j "nonce") (jnat j "tx")
  | "reply" => .reply (jnat j "c") (jnat j "nonce") (jnat j "tx") (ansOf (jstr j "ans"))
  | "beginShutdown" => .beginShutdown
  | "drain" => .drain
  | "abandon" => .abandon (jnat j "w")
  | _ => .observe (jnat j "w")

def outcomeStr : Option Outcome → String
  | some (.receipt h st) => "receipt:" ++ decStr h ++ ":" ++ decStr st
  | some .cancelled => "cancelled"
  | some .closed => "closed"
  | none => "none"

def handle (inp impl : Json) : CaseResult :=
  let allSteps := (jarr inp "steps").toList
  -- "missed-check": new blocks arrived, the checker was idle, transactions below the confirmed
  -- nonce were still unresolved, and the monitor asked the chain node nothing (no step of the model)
  -- (`Model/WatchLoop`: a tick that sees a newer block with the checker idle hands over a check with the
  -- confirmed nonce the node reports — so the realised "nothing asked" contradicts the model)
  let missed := allSteps.any (fun s => jstr s "t" == "missed-check" &&
    (WatchLoop.step ⟨true, 0, 0⟩ .tick (.ok 1) (.ok (jnat s "c")) true).2 == .check (jnat s "c") 1)
  let steps := allSteps.filter (fun s => jstr s "t" != "missed-check")
  let ops := steps.map opOf
  let outs := run init ops
  let fin := final init ops
  -- outcomes the model predicts for the external waiters, in registration order
  let watchOuts := ((ops.zip outs).filter (fun p => match p.1 with | .watch _ _ => true | _ => false)).map (·.2)
  let abandoned := ops.filterMap (fun o => match o with | .abandon w => some w | _ => none)
  let expected := watchOuts.map (fun o => match o with
    | .waiter id => if abandoned.contains id then "none"
        else outcomeStr ((fin.delivered.find? (fun d => d.1 = id)).map (·.2))
    | .refused => "closed"
    | .lateCancelled => "cancelled"
    | .unknownTx => "unknown-tx"
    | .none => "none")
  let pend := ((fin.pending.map (·.1)).eraseDups.toArray.qsort (· < ·)).toList
  let m := mkObj [("waiters", Json.arr (expected.map (fun e => mkObj [("outcome", (e : Json))])).toArray),
    ("pending", Json.arr (pend.map (fun (n : Nat) => (n : Json))).toArray), ("unknown_pending", 0),
    ("crashed", fin.crashed)]
  -- the property on the implementation's observations
  let ws := (jarr impl "waiters").toList
  let truthful := ws.all (fun w =>
    let o := jstr w "outcome"
    let tx := jnat w "tx"
    if o.startsWith "receipt:" then
      steps.any (fun s => jstr s "t" == "reply" && jnat s "tx" == tx &&
        ((jstr s "ans" == "receipt-ok" && o == "receipt:" ++ decStr tx ++ ":1") ||
         (jstr s "ans" == "receipt-failed" && o == "receipt:" ++ decStr tx ++ ":0")))
    else if o == "cancelled" then
      steps.any (fun s => jstr s "t" == "reply" && jnat s "tx" == tx && jstr s "ans" == "notfound" && jnat s "nonce" < jnat s "c")
    else if o == "closed" then steps.any (fun s => jstr s "t" == "beginShutdown")
    else if o == "unknown-tx" then
      -- "tx not found" only for a transaction whose receipt the monitor has delivered
      steps.any (fun s => jstr s "t" == "reply" && jnat s "tx" == tx && (jstr s "ans").startsWith "receipt-" && jnat s "nonce" < jnat s "c")
    else o == "none")
  let outcomesAsModel := ws.length == expected.length &&
    (ws.zip expected).all (fun p => jstr p.1 "outcome" == p.2)
  let pendOk := jnat impl "unknown_pending" == 0 &&
    (jarr impl "pending").toList.map (fun x => (x.getNat?).toOption.getD 0) == pend
  let ok := !(jbool impl "crashed") && truthful && outcomesAsModel && pendOk && !(jbool impl "close_err") && !missed
  { model := m, spec := ok,
    why := if ok then "" else
      if jbool impl "crashed" then "process-crashed"
      else if missed then "unresolved-transactions-not-asked-about-after-new-blocks"
      else if !truthful then "untruthful-outcome"
      else if !outcomesAsModel then "waiter-without-its-one-outcome"
      else if !pendOk then "pending-list-wrong"
      else "close-failed" }
end Driver.C09

import Lean.Data.Json
import MevCommit.Basic
/- JSON helpers for the line protocol.  Bytes travel as lowercase hex strings, big numbers
   as decimal strings. -/
open Lean
namespace Driver
open MevCommit

def jstr (j : Json) (k : String) : String := (j.getObjValAs? String k).toOption.getD ""
def jnat (j : Json) (k : String) : Nat := (j.getObjValAs? Nat k).toOption.getD 0
def jint (j : Json) (k : String) : Int := (j.getObjValAs? Int k).toOption.getD 0
def jbool (j : Json) (k : String) : Bool := (j.getObjValAs? Bool k).toOption.getD false
def jobj (j : Json) (k : String) : Json := (j.getObjVal? k).toOption.getD Json.null
def jarr (j : Json) (k : String) : Array Json :=
  match j.getObjVal? k with
  | .ok (.arr a) => a
  | _ => #[]
def jhas (j : Json) (k : String) : Bool :=
  match j.getObjVal? k with
  | .ok .null => false
  | .ok _ => true
  | _ => false

/-- hex string field → bytes (invalid hex → []) -/
def jbytes (j : Json) (k : String) : Bytes :=
  (hexDecode (strBytes (jstr j k))).getD []

/-- optional hex field: absent/null → none -/
def jbytes? (j : Json) (k : String) : Option Bytes :=
  if jhas j k then some (jbytes j k) else none

/-- decimal string field → Nat (for numbers beyond 2^63) -/
def jbig (j : Json) (k : String) : Int :=
  (parseBigInt (strBytes (jstr j k))).getD 0

def bytesToString (b : Bytes) : String := String.ofList (b.map (fun c => Char.ofNat c.toNat))
def hexStr (b : Bytes) : String := bytesToString (hexEncode b)
def decStr (n : Nat) : String := bytesToString (showDec n)
def intStr (i : Int) : String := if i < 0 then "-" ++ decStr i.natAbs else decStr i.natAbs

def mkObj (kvs : List (String × Json)) : Json := Json.mkObj kvs

def outcomeJson {α} (f : α → Json) : Outcome α → Json
  | .ok a => mkObj [("outcome", "ok"), ("val", f a)]
  | .err k => mkObj [("outcome", "err"), ("kind", k)]
  | .panic s => mkObj [("outcome", "panic"), ("site", s)]

/-- result of one case: model observation, verdict of the spec on the implementation's
    observation, and a reason when the verdict is false -/
structure CaseResult where
  model : Json
  spec : Bool
  why : String := ""

end Driver

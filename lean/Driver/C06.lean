import Driver.Util
open Lean
namespace Driver.C06
open Driver

/-- the modelled entry points are total / proved panic-free (Props/C06); the observation judged
    here is the outcome class of the real entry point -/
def handle (_inp impl : Json) : CaseResult :=
  let ok := !(jbool impl "panic") && !(jbool impl "crashed")
  { model := mkObj [("panic", false), ("crashed", false)], spec := ok,
    why := if ok then "" else if jbool impl "crashed" then "process-crashed" else "handler-panicked" }
end Driver.C06

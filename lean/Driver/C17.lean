import Driver.Util
import MevCommit.Model.Blocklist
import MevCommit.Spec.C17
open Lean
namespace Driver.C17
open MevCommit MevCommit.Blocklist Driver

def natList (j : Json) (k : String) : List Nat :=
  (jarr j k).toList.map (fun x => (x.getNat?).toOption.getD 0)

def opOf (j : Json) : Op :=
  match jstr j "t" with
  | "block" => .block (jnat j "id") (jnat j "dur")
  | "advance" => .advance (jnat j "dt")
  | "query" => .query (jnat j "id")
  | "dial" => .dial (jnat j "id")
  | "secured" => .secured (jnat j "id")
  | "secured-out" => .secured (jnat j "id")   -- the hook for a connection this node dialled: same rule
  | _ => .list (natList j "ids")

def ansJson : Ans → Json
  | .none => mkObj [("t", "none"), ("b", false)]
  | .blocked b => mkObj [("t", "blocked"), ("b", b)]
  | .allowed b => mkObj [("t", "allowed"), ("b", b)]
  | .listing ids => mkObj [("t", "listing"), ("b", false), ("ids", Json.arr (ids.map (fun (n : Nat) => (n : Json))).toArray)]

def ansOf (j : Json) : Option Ans :=
  match jstr j "t" with
  | "none" => some .none
  | "blocked" => some (.blocked (jbool j "b"))
  | "allowed" => some (.allowed (jbool j "b"))
  | "listing" => some (.listing (natList j "ids"))
  | _ => Option.none

/-- identity k is the same peer in every run of the harness (a fixed generated sequence) -/
def normOp : Op → Op := id

/-- every operation of the block list is atomic in the model, so a placement can only be lost to a
placement — never to a look-up: the fresh block is in force after a concurrent look-up and
placement, in either order -/
def handleRace (impl : Json) : CaseResult :=
  let lost := jnat impl "fresh_blocks_lost"
  { model := mkObj [("fresh_blocks_lost", 0)], spec := lost == 0,
    why := if lost == 0 then "" else "block-placed-during-a-look-up-was-lost" }

def handle (inp impl : Json) : CaseResult :=
  if jstr inp "tag" == "race-expiry-vs-block" then handleRace impl else
  let ops := ((jarr inp "ops").toList.map opOf).map normOp
  let m := run init ops
  let as := (jarr impl "answers").toList.map ansOf
  let wf := as.all Option.isSome
  let ok := wf && Spec.C17.ok ops (as.filterMap id)
  { model := mkObj [("answers", Json.arr (m.map ansJson).toArray)], spec := ok,
    why := if ok then "" else if !wf then "panic-or-malformed-answer" else "blocked-answer-differs-from-placements-in-force" }
end Driver.C17

import Driver.Util
import MevCommit.Model.PeerRegistry
import MevCommit.Spec.C14
open Lean
namespace Driver.C14
open MevCommit MevCommit.PeerRegistry MevCommit.Spec.C14 Driver

def opOf (j : Json) : Op :=
  match jstr j "t" with
  | "addPeer" => .addPeer (jnat j "c") (jnat j "pid") ⟨jnat (jobj j "peer") "addr", jint (jobj j "peer") "role"⟩
  | "disconnected" => .disconnected (jnat j "c") (jnat j "pid")
  | "lookup" => .lookup (jnat j "pid")
  | "lookupAddr" => .lookupAddr (jnat j "addr")
  | "addStream" => .addStream (jnat j "pid") (jnat j "s")
  | _ => .removeStream (jnat j "pid") (jnat j "s")

def peerStr : Option Peer → String
  | some p => decStr p.addr ++ "/" ++ intStr p.role
  | none => "none"

def pidStr : Option Nat → String
  | some n => "peer-" ++ decStr n
  | none => "none"

def outStr : Out → String
  | .none => "none"
  | .exists_ b => "exists:" ++ (if b then "true" else "false")
  | .peer p => "peer:" ++ peerStr p
  | .pid p => "pid:" ++ pidStr p

def probePids : List Nat := [1, 2, 3, 4]
def probeAddrs : List Nat := [1, 2, 3, 4, 9]
def sortNat (l : List Nat) : List Nat := (l.eraseDups.toArray.qsort (· < ·)).toList

def snapJson (o : Out) (s : St) : Json :=
  mkObj [("out", outStr o),
    ("by_id", mkObj (probePids.map (fun p => (decStr p, (peerStr (s.overlays p) : Json))))),
    ("by_addr", mkObj (probeAddrs.map (fun a => (decStr a, (pidStr (s.underlays a) : Json))))),
    ("notified", Json.arr (s.notified.map (fun p => mkObj [("addr", p.addr), ("role", Json.num (JsonNumber.fromInt p.role))])).toArray),
    ("cancelled", Json.arr ((sortNat s.cancelled).map (fun (n : Nat) => (n : Json))).toArray),
    ("panic", s.panicked)]

def runSnaps : St → List Op → List Json
  | _, [] => []
  | s, op :: ops => let r := step s op; snapJson r.2 r.1 :: runSnaps r.1 ops

/-- judge the implementation's snapshots against the abstract one-map specification -/
def specOk (ops : List Op) (steps : Array Json) : Bool × String := Id.run do
  let mut a : A := A0
  let mut i := 0
  for op in ops do
    let s := steps[i]?.getD Json.null
    if jbool s "panic" then return (false, "registry-panicked")
    a := astep a op
    let byId := jobj s "by_id"
    let byAddr := jobj s "by_addr"
    for p in probePids do
      if jstr byId (decStr p) != peerStr ((a.reg p).map (·.peer)) then
        return (false, "lookup-by-id-differs-from-registered-while-connection-open")
    for ad in probeAddrs do
      let want := probePids.find? (fun p => match a.reg p with | some r => r.peer.addr == ad | none => false)
      if jstr byAddr (decStr ad) != pidStr want then
        return (false, "address-map-disagrees-with-id-map")
    let notif := (jarr s "notified").toList.map (fun j => (⟨jnat j "addr", jint j "role"⟩ : Peer))
    if notif != a.notified then return (false, "disconnect-notifications-differ")
    let canc := (jarr s "cancelled").toList.map (fun x => (x.getNat?).toOption.getD 0)
    if sortNat canc != sortNat a.cancelled then return (false, "handler-context-cancellation-differs")
    i := i + 1
  return (steps.size == ops.length, if steps.size == ops.length then "" else "step-count")

/-- the disconnect notification is part of the registry's atomic step (the model's `disconnected`
step emits it): nothing else — in particular no new admission of that peer — completes between
the removal and the delivery of the notification -/
def handleNotifyOrder (impl : Json) : CaseResult :=
  let bad := jbool impl "admission_completed_before_notification_delivered"
  let ok := !bad && !(jbool impl "panic") && jbool impl "notified"
  { model := mkObj [("admission_completed_before_notification_delivered", false), ("notified", true), ("panic", false)],
    spec := ok,
    why := if ok then "" else if bad then "disconnect-notification-delivered-after-the-peer-was-admitted-again"
      else "disconnect-notification-missing" }

/-- handlers are only ever invoked for currently registered peers: a stream still in its header
phase when the peer is removed has its context cancelled with the others -/
def handleHeaderWindow (impl : Json) : CaseResult :=
  let bad := jbool impl "handler_ran_for_unregistered_peer"
  let ok := !bad && !(jbool impl "panic")
  { model := mkObj [("handler_ran_for_unregistered_peer", false), ("panic", false)], spec := ok,
    why := if ok then "" else if bad then "handler-invoked-for-a-peer-that-is-not-registered" else "wrapper-panicked" }

/-- when the last admitted connection closes the contexts of *all* running handlers of the peer are
cancelled — also of a handler whose stream arrived while the handshake was still in flight -/
def handleStreamDuringHandshake (impl : Json) : CaseResult :=
  let ok := jbool impl "handler_ran" && jbool impl "handler_context_cancelled_at_disconnect" && !(jbool impl "panic")
  { model := mkObj [("handler_ran", true), ("handler_context_cancelled_at_disconnect", true), ("panic", false)], spec := ok,
    why := if ok then "" else if !(jbool impl "handler_ran") then "stream-of-a-peer-whose-handshake-completed-was-not-served"
      else "running-handler-not-cancelled-when-the-last-connection-closed" }

/-- exactly one disconnect notification per removed peer, also while the node shuts down -/
def handleNotifyAtShutdown (impl : Json) : CaseResult :=
  let ok := jnat impl "notifications_for_two_removed_peers" == 2 && !(jbool impl "panic")
  { model := mkObj [("notifications_for_two_removed_peers", 2), ("panic", false)], spec := ok,
    why := if ok then "" else "not-exactly-one-disconnect-notification-per-removed-peer" }

def handle (inp impl : Json) : CaseResult :=
  if jstr inp "tag" == "notify-at-shutdown" then handleNotifyAtShutdown impl else
  if jstr inp "tag" == "stream-during-handshake" then handleStreamDuringHandshake impl else
  if jstr inp "tag" == "header-window" then handleHeaderWindow impl else
  if jstr inp "tag" == "notify-order" then handleNotifyOrder impl else
  let ops := (jarr inp "ops").toList.map opOf
  let m := mkObj [("steps", Json.arr (runSnaps init ops).toArray)]
  let (ok, why) := specOk ops (jarr impl "steps")
  { model := m, spec := ok, why := why }
end Driver.C14

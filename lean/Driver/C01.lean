import Driver.Util
import Driver.Signer
import MevCommit.Model.Preconf
import MevCommit.Model.ProviderNode
import MevCommit.Model.ProviderSvc
import MevCommit.Model.Registry
import MevCommit.Model.Abi
import MevCommit.Spec.C01
open Lean
namespace Driver.C01
open MevCommit MevCommit.Preconf Driver

def evOf (j : Json) : Event :=
  match jstr j "t" with
  | "handoff" => .handoff
  | "decision" => .decision (jbool j "mine") (jnat j "status")
  | "deadline" => .deadline
  | "real-deadline" => .deadline
  | _ => .cancel

def ansOf (j : Json) : Registry.CallAns :=
  if jbool j "err" then .err else .bytes (jbytes j "bytes")

/-- the environment of the handler: the harness's case as an `Arrival`, every gate evaluated by
    `ProviderNode.envOf` (signer C02, registry C11, format rules C12) — the function
    `C01_composed` speaks about -/
def arrivalOf (inp : Json) : ProviderNode.Arrival :=
  { role := jint inp "role", readOk := jbool inp "read_ok", bid := Signer.bidOf (jobj inp "bid"),
    minAns := ansOf (jobj inp "min_ans"), amtAns := ansOf (jobj inp "amt_ans"),
    schedule := (jarr inp "schedule").toList.map evOf,
    signOk := jbool inp "sign_ok", storeOk := jbool inp "store_ok", writeOk := jbool inp "write_ok" }

def envOf (inp : Json) : Env :=
  ProviderNode.envOf Signer.H (Signer.schemeOf ((jarr inp "prims").toList.map Signer.primOf)) (arrivalOf inp)

def effStr : Effect → String
  | .sign => "sign" | .store => "store" | .write => "write"

def effOf (j : Json) : Option Effect :=
  match jstr j "t" with
  | "sign" => some .sign | "store" => some .store | "write" => some .write | _ => none

def resStr : Result → String
  | .ok => "ok"
  | .nothing => "nothing"
  | .err "InvalidArgument" => "InvalidArgument"
  | .err "FailedPrecondition" => "FailedPrecondition"
  | .err "Internal" => "Internal"
  | .err "context" => "context"
  | .err _ => "other"

def resOf (s : String) : Result :=
  match s with
  | "ok" => .ok
  | "nothing" => .nothing
  | k => .err k

def handle (inp impl : Json) : CaseResult :=
  let e := envOf inp
  let m := handleBid e
  let effs := (jarr impl "effects").toList.map effOf
  let wf := effs.all Option.isSome
  let o : Obs := ⟨effs.filterMap id, resOf (jstr impl "result")⟩
  let ok := wf && !(jbool impl "panic") && !(jbool impl "stuck") && jbool impl "engine_fields_ok" && Spec.C01.ok e o
  { model := mkObj [("effects", Json.arr (m.effects.map (fun x => mkObj [("t", effStr x)])).toArray),
      ("result", resStr m.result), ("panic", false), ("stuck", false), ("engine_fields_ok", true)],
    spec := ok,
    why := if ok then "" else
      if jbool impl "panic" then "handler-panicked"
      else if jbool impl "stuck" then "handler-or-engine-stuck"
      else if !(jbool impl "engine_fields_ok") then "engine-saw-altered-bid"
      else if !o.effects.isEmpty && !Spec.C01.gatesOpen e then "commitment-effect-without-all-gates"
      else if !Spec.C01.isPrefixOfFull o.effects then "effects-out-of-order"
      else "result-or-store-write-relation" }

/-- expected decoded call for a written commitment -/
def wantArgs (w : Json) : Abi.Args :=
  let cb := Signer.bidOf (jobj w "commit_bid")
  let amt := (parseBigInt cb.amount).getD 0
  ⟨amt.toNat, cb.blockNumber.toNat, cb.txHash, cb.decayStart.toNat, cb.decayEnd.toNat,
    cb.signature.getD [], jbytes w "commit_sig"⟩

/-- several bids in flight: every written commitment must be matched by its own earlier
    settlement transaction carrying exactly it -/
def handleC07Concurrent (inp impl : Json) : CaseResult :=
  let effs := (jarr impl "effects").toList
  let sel := jbytes inp "selector"
  let n := (jarr inp "bids").size
  let decoded := effs.map (fun j =>
    if jstr j "t" == "store" then
      (match Abi.decodeCall (jbytes j "calldata") with
       | some (sl, a) => if sl == sel && jstr j "to" == "00000000000000000000000000000000000000da" then some a else none
       | none => none)
    else none)
  -- greedy matching: walk the log; stores add to a pool, a write must find its args in the pool
  let (ok, _) := (effs.zip decoded).foldl (fun (acc : Bool × List Abi.Args) (p : Json × Option Abi.Args) =>
    let (good, pool) := acc
    let j := p.1
    if jstr j "t" == "store" then
      (match p.2 with
       | some a => (good, a :: pool)
       | none => (false, pool))
    else if jstr j "t" == "write" then
      let w := wantArgs j
      if pool.contains w then (good, pool.erase w) else (false, pool)
    else (good, pool)) (true, [])
  let writes := (effs.filter (fun j => jstr j "t" == "write")).length
  let allOk := ok && writes == n && !(jbool impl "panic") && !(jbool impl "stuck")
  { model := mkObj [("result", "concurrent"), ("panic", false), ("stuck", false)], spec := allOk,
    why := if allOk then "" else
      if jbool impl "stuck" then "handlers-stuck"
      else if !ok then "commitment-returned-without-a-settlement-transaction-carrying-it"
      else "not-every-accepted-bid-got-a-commitment" }

/-- C07: calldata of the settlement transaction vs the commitment written -/
def handleC07 (inp impl : Json) : CaseResult :=
  if jstr inp "tag" == "concurrent" then handleC07Concurrent inp impl else
  let e := envOf inp
  let m := handleBid e
  let effs := (jarr impl "effects").toList
  let stores := effs.filter (fun j => jstr j "t" == "store")
  let writes := effs.filter (fun j => jstr j "t" == "write")
  let sel := jbytes inp "selector"
  let idxOf (t : String) : Option Nat := effs.findIdx? (fun j => jstr j "t" == t)
  let orderOk := match idxOf "write" with
    | none => true
    | some w => match idxOf "store" with
      | some s => s < w
      | none => false
  -- every written commitment must be matched by an earlier store whose decoded arguments are its fields
  let matchOk := writes.all (fun w =>
    let cb := Signer.bidOf (jobj w "commit_bid")
    let amt := (parseBigInt cb.amount).getD 0
    match stores.head? with
    | none => false
    | some s =>
      jstr s "to" == "00000000000000000000000000000000000000da" &&
      (match Abi.decodeCall (jbytes s "calldata") with
       | some (sl, a) =>
         sl == sel && a == ⟨amt.toNat, cb.blockNumber.toNat, cb.txHash, cb.decayStart.toNat, cb.decayEnd.toNat,
           cb.signature.getD [], jbytes w "commit_sig"⟩ &&
         -- and byte-for-byte what the model's encoder produces
         jbytes s "calldata" == Abi.encodeCall sel (Abi.argsOfCommitment amt cb.blockNumber cb.decayStart cb.decayEnd
           cb.txHash (cb.signature.getD []) (jbytes w "commit_sig"))
       | none => false))
  let failOk := e.storeOk || (writes.isEmpty && jstr impl "result" != "ok" && jstr impl "result" != "nothing")
  let ok := !(jbool impl "panic") && orderOk && matchOk && failOk && stores.length ≤ 1
  { model := mkObj [("effects", Json.arr (m.effects.map (fun x => mkObj [("t", effStr x)])).toArray),
      ("result", resStr m.result), ("panic", false)],
    spec := ok,
    why := if ok then "" else
      if !orderOk then "commitment-written-without-prior-settlement-submission"
      else if !matchOk then "settlement-calldata-differs-from-commitment-returned"
      else if !failOk then "failed-submission-not-reported-as-error"
      else "other" }
end Driver.C01

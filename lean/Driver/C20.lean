import Driver.Util
import MevCommit.Model.Usable
import MevCommit.Model.UsableN
open Lean
namespace Driver.C20
open MevCommit MevCommit.Usable Driver

/-- the schedule a gated run forces (responder held between reading the final message and
    registering), and the natural one -/
def schedule (gated : Bool) : List Step :=
  if gated then [.iWriteFinal, .iReturn, .iOpenStream, .wrapperLookup, .rReadVerify, .rRegister, .rDone, .wrapperResume]
  else [.iWriteFinal, .rReadVerify, .rRegister, .rDone, .iReturn, .iOpenStream, .wrapperLookup]

/-- the same two schedules at the granularity of the locks (`Model/UsableN`) -/
def scheduleN (gated second : Bool) : List UsableN.NStep :=
  if second then [.rBegin, .iWriteFinal, .iReturn, .rReadVerify, .oBegin, .oRegister 0, .oEnd, .iOpenStream, .w1,
    .rRegister, .rDone]
  else if gated then [.rBegin, .iWriteFinal, .iReturn, .iOpenStream, .w1, .w2, .rReadVerify, .rRegister, .rDone, .w3, .w4]
  else [.rBegin, .iWriteFinal, .rReadVerify, .rRegister, .rDone, .iReturn, .iOpenStream, .w1]

def handle (inp impl : Json) : CaseResult :=
  let n := jnat inp "streams"
  let s := run true init (schedule (jbool inp "gated"))
  let sN := UsableN.nrun true UsableN.ninit (scheduleN (jbool inp "gated") (jbool inp "second_handler"))
  let accepted := s.stream == .accepted && sN.stream.isAccepted
  let m := mkObj [("connect_ok", true), ("streams_ok", if accepted then n else 0),
    ("handler_calls", if accepted then n else 0), ("identity_ok", true), ("unknown_peer_logs", 0), ("panic", false)]
  let ok := !(jbool impl "panic") &&
    (!(jbool impl "connect_ok") ||
      (jnat impl "streams_ok" == n && jnat impl "handler_calls" == n && jbool impl "identity_ok" &&
       jnat impl "unknown_peer_logs" == 0))
  { model := m, spec := ok,
    why := if ok then "" else
      if jnat impl "unknown_peer_logs" != 0 || jnat impl "streams_ok" != n then "stream-after-successful-connect-refused-as-unknown-peer"
      else "handler-not-invoked-with-proven-identity" }
end Driver.C20

import Driver.Util
import MevCommit.Model.Usable
open Lean
namespace Driver.C20
open MevCommit MevCommit.Usable Driver

/-- the schedule a gated run forces (responder held between reading the final message and
    registering), and the natural one -/
def schedule (gated : Bool) : List Step :=
  if gated then [.iWriteFinal, .iReturn, .iOpenStream, .wrapperLookup, .rReadVerify, .rRegister, .rDone, .wrapperResume]
  else [.iWriteFinal, .rReadVerify, .rRegister, .rDone, .iReturn, .iOpenStream, .wrapperLookup]

def handle (inp impl : Json) : CaseResult :=
  let n := jnat inp "streams"
  let s := run true init (schedule (jbool inp "gated"))
  let accepted := s.stream == .accepted
  let m := mkObj [("connect_ok", true), ("streams_ok", if accepted then n else 0),
    ("handler_calls", if accepted then n else 0), ("identity_ok", true), ("unknown_peer_logs", 0), ("panic", false)]
  let ok := !(jbool impl "panic") &&
    (!(jbool impl "connect_ok") ||
      (jnat impl "streams_ok" == n && jnat impl "handler_calls" == n && jbool impl "identity_ok" &&
       jnat impl "unknown_peer_logs" == 0))
  { model := m, spec := ok,
    why := if ok then "" else
      if jnat impl "unknown_peer_logs" != 0 || jnat impl "streams_ok" != n then "stream-after-successful-connect-refused-as-unknown-peer"
      else "handler-not-invoked-with-proven-identity" }
end Driver.C20

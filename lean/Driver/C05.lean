import Driver.Util
import Driver.Signer
import MevCommit.Model.SendBid
import MevCommit.Spec.C02
open Lean
namespace Driver.C05
open MevCommit MevCommit.Signer MevCommit.SendBid Driver

def replyOf (p : Json) : Reply :=
  match jstr p "class" with
  | "open-fails" => .openFails
  | "write-fails" => .writeFails
  | _ => if jhas p "reply" then .commitment (Driver.Signer.commitOf (jobj p "reply")) else .readFails

def commitJson (c : Commitment) : Json :=
  let bidJ : Json := match c.bid with
    | some b => mkObj [("txhash", hexStr b.txHash), ("amount", hexStr b.amount),
        ("block", Json.num (JsonNumber.fromInt b.blockNumber)), ("start", Json.num (JsonNumber.fromInt b.decayStart)),
        ("end", Json.num (JsonNumber.fromInt b.decayEnd)),
        ("digest", match b.digest with | some d => (hexStr d : Json) | none => Json.null),
        ("signature", match b.signature with | some d => (hexStr d : Json) | none => Json.null)]
    | none => Json.null
  mkObj [("bid", bidJ), ("digest", match c.digest with | some d => (hexStr d : Json) | none => Json.null),
    ("signature", match c.signature with | some d => (hexStr d : Json) | none => Json.null)]

def handle (inp impl : Json) : CaseResult :=
  let provs := (jarr inp "providers").toList
  let allPrims := provs.flatMap (fun p => (jarr p "prims").toList.map Driver.Signer.primOf)
  let S := Driver.Signer.schemeOf allPrims
  let H := Driver.Signer.H
  let replies := provs.map replyOf
  let sent? : Option Bid := if jhas inp "sent" then some (Driver.Signer.bidOf (jobj inp "sent")) else none
  let deadline := jbool inp "deadline"
  let order := (jarr inp "order").toList.map (fun x => (x.getNat?).toOption.getD 0)
  let deliveries := match sent? with
    | some sent => deliveredInOrder H S sent replies order
    | none => []
  let dJson (d : Delivered) : Json := mkObj [("commit", commitJson d.commitment), ("provider_address", hexStr d.providerAddress)]
  let sorted := (deliveries.toArray.qsort (fun a b => hexStr a.providerAddress < hexStr b.providerAddress)).toList
  let offeredModel := replies.map (fun r => if offered r then (match sent? with | some _ => jobj inp "sent" | none => Json.null) else Json.null)
  let m := mkObj [("offered", Json.arr offeredModel.toArray), ("delivered", Json.arr (sorted.map dJson).toArray),
    ("closed", true), ("leaked", 0), ("send_err", provs.isEmpty), ("panic", false), ("_deadline", deadline)]
  -- the property on the implementation's observations
  let got := (jarr impl "delivered").toList
  let req := jobj inp "req"
  let sentOk := match sent? with
    | some sent =>
      -- the bid offered is the request's, signed by the bidder: verifies to the bidder's address
      sent.txHash == jbytes req "txhash" && sent.amount == jbytes req "amount" && sent.blockNumber == jint req "block" &&
      sent.decayStart == jint req "start" && sent.decayEnd == jint req "end"
    | none => true
  let offeredOk := (jarr impl "offered").toList.all (fun o => o == Json.null || (match sent? with
    | some _ => o == jobj inp "sent" | none => false))
  let eachOk := got.all (fun g =>
    let c := Driver.Signer.commitOf (jobj g "commit")
    let addr := jbytes g "provider_address"
    -- some contacted provider answered with exactly this commitment, it verifies to the reported
    -- address, and it embeds exactly the bid this call sent
    replies.any (fun r => r == .commitment c) && Spec.C02.commitAccept H S c addr &&
    (match sent? with | some sent => c.bid == some sent | none => false))
  let perProvider := (List.range replies.length).all (fun i =>
    match replies[i]? with
    | some (.commitment c) => (got.filter (fun g => Driver.Signer.commitOf (jobj g "commit") == c)).length ≤
        (replies.filter (fun r => r == .commitment c)).length
    | _ => true)
  let countOk := got.length ≤ replies.length
  let ok := !(jbool impl "panic") && jbool impl "closed" && jnat impl "leaked" == 0 && sentOk && offeredOk &&
    eachOk && perProvider && countOk
  { model := m, spec := ok,
    why := if ok then "" else
      if jbool impl "panic" then "panic-in-bidder"
      else if !(jbool impl "closed") then "result-stream-did-not-terminate"
      else if jnat impl "leaked" != 0 then "goroutine-leak"
      else if !sentOk || !offeredOk then "providers-not-offered-the-identical-signed-bid"
      else if !eachOk then "surfaced-commitment-not-valid-for-the-bid-sent"
      else "more-than-one-commitment-per-provider" }
end Driver.C05

import Driver.Util
import MevCommit.Model.ProviderSvc
open Lean
namespace Driver.C12
open MevCommit MevCommit.ProviderSvc Driver

/-- digests travel as hex strings; the model keys its table by the digest's numeric value
    (big-endian, prefixed by its length so that distinct byte strings get distinct keys) -/
def digestKey (b : Bytes) : Nat := fromBE (UInt8.ofNat (b.length % 256) :: b)

def opOf (j : Json) : Op :=
  match jstr j "t" with
  | "submit" =>
    let b := jobj j "bid"
    .submit (digestKey (jbytes b "digest"))
      (validFormat (jbytes b "txhash") (jbytes b "amount") (jint b "block") (jint b "start") (jint b "end") (jbytes b "digest"))
  | "handoff" => .handoff (jnat j "id")
  | "abandon" => .abandon (jnat j "id")
  | _ => .decision (digestKey (jbytes j "digest")) (jnat j "status")

def outStr : Out → String
  | .rejected => "rejected"
  | .registered id => "registered:" ++ decStr id
  | .ok => "ok"
  | .delivered _ => "decided"
  | .ignored => "decided"
  | .streamEnded => "streamEnded"

def handle (inp impl : Json) : CaseResult :=
  let steps := (jarr inp "steps").toList
  let ops := steps.map opOf
  let outs := run init ops
  let fin := final init ops
  let ids := List.range fin.nextId
  let statusesOf (id : Nat) : List Nat := (fin.delivered.filter (·.1 == id)).map (·.2)
  -- a status delivered to a bid whose hand-off was abandoned is never read by anybody
  let handed (id : Nat) : Bool := fin.engineSaw.contains id
  let allDigests := (steps.filterMap (fun j =>
    if jstr j "t" == "submit" then some (digestKey (jbytes (jobj j "bid") "digest")) else none)).eraseDups
  let modelPending := (allDigests.filter (fun d => (fin.pending d).isSome)).length
  let m := mkObj [("pending", modelPending), ("outs", Json.arr (outs.map (fun o => (outStr o : Json))).toArray),
    ("statuses", mkObj (ids.map (fun id => (decStr id,
        Json.arr ((if handed id then statusesOf id else []).map (fun (n : Nat) => (n : Json))).toArray)))),
    ("engine_saw", Json.arr (fin.engineSaw.map (fun (n : Nat) => (n : Json))).toArray),
    ("fields_ok", true), ("stream_ends", fin.streamEnds), ("blocked", false), ("panic", false)]
  -- the property on the implementation's observations
  let decisions := steps.filterMap (fun j => if jstr j "t" == "decision" then some (jbytes j "digest", jnat j "status") else none)
  let submits := (steps.filter (fun j => jstr j "t" == "submit")).map (fun j => jobj j "bid")
  let registered := (jarr impl "outs").toList.filterMap (fun o =>
    let s := (o.getStr?).toOption.getD ""
    if s.startsWith "registered:" then some s else none)
  let st := jobj impl "statuses"
  let perBidOk := ids.all (fun id =>
    let got := (jarr st (decStr id)).toList.map (fun x => (x.getNat?).toOption.getD 99)
    let dg := match fin.digestOf id with | some d => d | none => 0
    got.length ≤ 1 && got.all (fun v => validStatus v && decisions.any (fun d => digestKey d.1 == dg && d.2 == v)))
  let badFormat := (jarr impl "outs").toList.any (fun o =>
    let s := (o.getStr?).toOption.getD ""
    s == "accepted-invalid" || s == "rejected-valid")
  let validCount := (ops.filter (fun o => match o with | .submit _ true => true | _ => false)).length
  let ok := !(jbool impl "panic") && !(jbool impl "blocked") && jbool impl "fields_ok" && perBidOk &&
    registered.length == validCount && !badFormat && jnat impl "pending" == modelPending &&
    (jarr impl "engine_saw").toList.all (fun x => ((x.getNat?).toOption.getD 0) < fin.nextId)
  let _ := submits
  { model := m, spec := ok,
    why := if ok then "" else
      if jbool impl "panic" then "decision-stream-crashed"
      else if jbool impl "blocked" then "decision-stream-blocked"
      else if !perBidOk then "bid-received-more-than-one-or-a-foreign-status"
      else if jnat impl "pending" != modelPending then "pending-entry-left-behind-or-lost"
      else if badFormat || registered.length != validCount then "format-rules-not-applied"
      else "engine-saw-wrong-bid" }
end Driver.C12

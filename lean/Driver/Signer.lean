import Driver.Util
import MevCommit.Keccak
import MevCommit.Model.Signer
import MevCommit.Spec.C02
import MevCommit.Spec.C03
open Lean
namespace Driver.Signer
open MevCommit MevCommit.Signer Driver

def H : Bytes → Bytes := Keccak.hash

structure PrimRow where
  hash : Bytes
  sig : Bytes
  pub : Option Bytes
  lows : Bool
  addr : Bytes

def primOf (j : Json) : PrimRow :=
  ⟨jbytes j "hash", jbytes j "sig", jbytes? j "pub", jbool j "lows", jbytes j "addr"⟩

/-- the primitive answers the harness computed with go-ethereum, as a scheme -/
def schemeOf (rows : List PrimRow) : Scheme :=
  { recover := fun h sig => (rows.find? (fun r => r.hash == h && r.sig == sig)).bind (·.pub)
    verifyLowS := fun pub h rs =>
      match rows.find? (fun r => r.hash == h && r.sig.take 64 == rs && r.pub == some pub) with
      | some r => r.lows
      | none => false
    addrOf := fun pub => match rows.find? (fun r => r.pub == some pub) with
      | some r => r.addr
      | none => []
    sign := fun _ => none }

def bidOf (j : Json) : Bid :=
  ⟨jbytes j "txhash", jbytes j "amount", jint j "block", jint j "start", jint j "end",
   jbytes? j "digest", jbytes? j "signature"⟩

def commitOf (j : Json) : Commitment :=
  ⟨if jhas j "bid" then some (bidOf (jobj j "bid")) else none, jbytes? j "digest", jbytes? j "signature"⟩

def outJson : Outcome Bytes → Json
  | .ok a => mkObj [("outcome", "ok"), ("addr", hexStr a)]
  | .err _ => mkObj [("outcome", "err")]
  | .panic _ => mkObj [("outcome", "panic")]

def obsOf (impl : Json) : Spec.C02.Obs :=
  match jstr impl "outcome" with
  | "ok" => .ok (jbytes impl "addr")
  | "err" => .err
  | _ => .panic

def ctxOf (inp : Json) : Spec.C02.Ctx :=
  ⟨jbool inp "perturbed", jbytes inp "base_addr",
   if jstr inp "own_addr" == "" then none else some (jbytes inp "own_addr")⟩

def handleC02 (inp impl : Json) : CaseResult :=
  let S := schemeOf ((jarr inp "prims").toList.map primOf)
  let ctx := ctxOf inp
  let obs := obsOf impl
  if jstr inp "kind" == "commit" then
    let c := commitOf (jobj inp "commit")
    let ok := Spec.C02.judge (Spec.C02.commitAccept H S c) ctx obs
    { model := outJson (verifyCommitment H S c), spec := ok,
      why := if ok then "" else match obs with
        | .panic => "panic-in-verification"
        | .err => "own-message-rejected"
        | .ok _ => if ctx.perturbed then "perturbed-commitment-accepted-with-original-address" else "commitment-accepted-without-grounds" }
  else
    let b := bidOf (jobj inp "bid")
    let ok := Spec.C02.judge (Spec.C02.bidAccept H S b) ctx obs
    { model := outJson (verifyBid H S b), spec := ok,
      why := if ok then "" else match obs with
        | .panic => "panic-in-verification"
        | .err => "own-message-rejected"
        | .ok _ => if ctx.perturbed then "perturbed-bid-accepted-with-original-address" else "bid-accepted-without-grounds" }

/-- C03: digest by the Go code = digest by the Lean model = generic EIP-712 digest computed by
    the Lean spec = digest by go-ethereum's apitypes; emitted signature form -/
def handleC03 (inp impl : Json) : CaseResult :=
  let b := bidOf (jobj inp "bid")
  let isCommit := jstr inp "kind" == "hash-commit"
  let m := if isCommit then getCommitHash H b else getBidHash H b
  let amt := (parseBigInt b.amount).getD 0
  let spec := if isCommit then
      Spec.C03.commitDigest H b.txHash amt.toNat b.blockNumber.toNat b.decayStart.toNat b.decayEnd.toNat
        (b.digest.getD []) (b.signature.getD [])
    else Spec.C03.bidDigest H b.txHash amt.toNat b.blockNumber.toNat b.decayStart.toNat b.decayEnd.toNat
  let implDigest := jbytes impl "digest"
  let okImpl := jstr impl "outcome" == "ok"
  let api := jstr inp "apitypes"
  let sigOk := Spec.C03.sigFormOk (jbytes impl "sig")
  let ok := okImpl && implDigest == spec && hexStr spec == api && sigOk
  { model := match m with
      | .ok d => mkObj [("outcome", "ok"), ("digest", hexStr d)]
      | _ => mkObj [("outcome", "err")],
    spec := ok,
    why := if ok then "" else
      if jstr impl "outcome" == "signed-digest-differs-from-hash-function" then "signed-digest-differs-from-hash-function"
      else if !okImpl then "hash-failed-in-domain"
      else if implDigest != spec then "digest-differs-from-eip712"
      else if hexStr spec != api then "lean-eip712-differs-from-apitypes" else "signature-form" }

end Driver.Signer

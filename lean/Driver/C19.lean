import Driver.Util
import MevCommit.Model.BidderApi
open Lean
namespace Driver.C19
open MevCommit MevCommit.BidderApi Driver

def strList (j : Json) (k : String) : List Bytes :=
  (jarr j k).toList.map (fun x => (hexDecode (strBytes ((x.getStr?).toOption.getD ""))).getD [])

def reqOf (inp : Json) : Req :=
  ⟨strList inp "txhashes", jbytes inp "amount", jint inp "block", jint inp "start", jint inp "end"⟩

def commitOf (j : Json) : RecvCommitment :=
  ⟨jbytes j "txhash", jbytes j "amount", jint j "block", jint j "start", jint j "end",
   jbytes j "bid_digest", jbytes j "bid_sig", jbytes j "digest", jbytes j "sig", jbytes j "provider"⟩

def fwdJson (f : Forwarded) : Json :=
  mkObj [("txhash", hexStr f.txHash), ("amount", hexStr f.amount), ("block", Json.num (JsonNumber.fromInt f.blockNumber)),
    ("start", Json.num (JsonNumber.fromInt f.decayStart)), ("end", Json.num (JsonNumber.fromInt f.decayEnd))]

def renderedJson (r : Rendered) : Json :=
  mkObj [("txhashes", Json.arr (r.txHashes.map (fun h => (hexStr h : Json))).toArray),
    ("amount", hexStr r.amount), ("block", Json.num (JsonNumber.fromInt r.blockNumber)),
    ("start", Json.num (JsonNumber.fromInt r.decayStart)), ("end", Json.num (JsonNumber.fromInt r.decayEnd)),
    ("bid_digest", hexStr r.bidDigestHex), ("bid_sig", hexStr r.bidSignatureHex),
    ("digest", hexStr r.digestHex), ("sig", hexStr r.signatureHex), ("provider", hexStr r.providerAddressHex)]

def fwdOf (j : Json) : Forwarded :=
  ⟨jbytes j "txhash", jbytes j "amount", jint j "block", jint j "start", jint j "end"⟩

def renderedOf (j : Json) : Rendered :=
  ⟨strList j "txhashes", jbytes j "amount", jint j "block", jint j "start", jint j "end",
   jbytes j "bid_digest", jbytes j "bid_sig", jbytes j "digest", jbytes j "sig", jbytes j "provider"⟩

def statusStr : Status → String
  | .ok => "ok" | .invalid => "invalid" | .internal => "internal"

def handle (inp impl : Json) : CaseResult :=
  let r := reqOf inp
  let cs := (jarr inp "commits").toList.map commitOf
  let net := if jbool inp "sender_fails" then Net.fails else Net.commits cs
  let o := handle1 r net
  let model := mkObj [("status", statusStr o.status), ("forwarded", Json.arr (o.forwarded.map fwdJson).toArray),
        ("streamed", Json.arr (o.streamed.map renderedJson).toArray), ("panic", false)]
  -- the property judged on the implementation's observations
  let st := jstr impl "status"
  let ifw := (jarr impl "forwarded").toList.map fwdOf
  let istr := (jarr impl "streamed").toList.map renderedOf
  let wellFormed := accept r
  let own : Forwarded := ⟨joinComma r.txHashes, r.amount, r.blockNumber, r.decayStart, r.decayEnd⟩
  let wantStreamed := if jbool inp "sender_fails" then [] else cs.map render
  let wantStatus := if jbool inp "sender_fails" then "internal" else "ok"
  let ok := !(jbool impl "panic") &&
    (if wellFormed then st == wantStatus && ifw == [own] && istr == wantStreamed
     else st == "invalid" && ifw.isEmpty && istr.isEmpty)
  { model := model, spec := ok,
    why := if ok then "" else
      if !wellFormed then "malformed-request-not-rejected-before-sending"
      else if ifw != [own] then "bid-not-forwarded-verbatim"
      else if st != wantStatus then (if st == "invalid" then "wellformed-request-rejected" else "wrong-status-for-the-hand-over")
      else "commitment-not-rendered-verbatim" }
end Driver.C19

import Driver.Util
import MevCommit.Model.BidderApi
open Lean
namespace Driver.C19
open MevCommit MevCommit.BidderApi Driver

def strList (j : Json) (k : String) : List Bytes :=
  (jarr j k).toList.map (fun x => (hexDecode (strBytes ((x.getStr?).toOption.getD ""))).getD [])

def reqOf (inp : Json) : Req :=
  ⟨strList inp "txhashes", jbytes inp "amount", jint inp "block", jint inp "start", jint inp "end"⟩

def commitOf (j : Json) : RecvCommitment :=
  ⟨jbytes j "txhash", jbytes j "amount", jint j "block", jint j "start", jint j "end",
   jbytes j "bid_digest", jbytes j "bid_sig", jbytes j "digest", jbytes j "sig", jbytes j "provider"⟩

def fwdJson (f : Forwarded) : Json :=
  mkObj [("txhash", hexStr f.txHash), ("amount", hexStr f.amount), ("block", Json.num (JsonNumber.fromInt f.blockNumber)),
    ("start", Json.num (JsonNumber.fromInt f.decayStart)), ("end", Json.num (JsonNumber.fromInt f.decayEnd))]

def renderedJson (r : Rendered) : Json :=
  mkObj [("txhashes", Json.arr (r.txHashes.map (fun h => (hexStr h : Json))).toArray),
    ("amount", hexStr r.amount), ("block", Json.num (JsonNumber.fromInt r.blockNumber)),
    ("start", Json.num (JsonNumber.fromInt r.decayStart)), ("end", Json.num (JsonNumber.fromInt r.decayEnd)),
    ("bid_digest", hexStr r.bidDigestHex), ("bid_sig", hexStr r.bidSignatureHex),
    ("digest", hexStr r.digestHex), ("sig", hexStr r.signatureHex), ("provider", hexStr r.providerAddressHex)]

def fwdOf (j : Json) : Forwarded :=
  ⟨jbytes j "txhash", jbytes j "amount", jint j "block", jint j "start", jint j "end"⟩

def renderedOf (j : Json) : Rendered :=
  ⟨strList j "txhashes", jbytes j "amount", jint j "block", jint j "start", jint j "end",
   jbytes j "bid_digest", jbytes j "bid_sig", jbytes j "digest", jbytes j "sig", jbytes j "provider"⟩

def handle (inp impl : Json) : CaseResult :=
  let r := reqOf inp
  let cs := (jarr inp "commits").toList.map commitOf
  let fw := forwarded r
  let model := match fw with
    | some f => mkObj [("status", "ok"), ("forwarded", Json.arr #[fwdJson f]),
        ("streamed", Json.arr (cs.map (fun c => renderedJson (render c))).toArray), ("panic", false)]
    | none => mkObj [("status", "invalid"), ("forwarded", Json.arr #[]), ("streamed", Json.arr #[]), ("panic", false)]
  -- the property judged on the implementation's observations
  let st := jstr impl "status"
  let ifw := (jarr impl "forwarded").toList.map fwdOf
  let istr := (jarr impl "streamed").toList.map renderedOf
  let wellFormed := accept r
  let ok := !(jbool impl "panic") &&
    (if wellFormed then
      st == "ok" && ifw == [⟨joinComma r.txHashes, r.amount, r.blockNumber, r.decayStart, r.decayEnd⟩] &&
      istr == cs.map render
     else st == "invalid" && ifw.isEmpty && istr.isEmpty)
  { model := model, spec := ok,
    why := if ok then "" else
      if !wellFormed then "malformed-request-not-rejected-before-sending"
      else if st != "ok" then "wellformed-request-rejected"
      else if ifw != [⟨joinComma r.txHashes, r.amount, r.blockNumber, r.decayStart, r.decayEnd⟩] then "bid-not-forwarded-verbatim"
      else "commitment-not-rendered-verbatim" }
end Driver.C19

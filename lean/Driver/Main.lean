import Driver.Util
import Driver.C16
import Driver.C10
import Driver.C08
import Driver.C17
import Driver.C11
import Driver.Signer
import Driver.C18
import Driver.C13
import Driver.C19
import Driver.C15
import Driver.C14
import Driver.C12
import Driver.C01
import Driver.C05
import Driver.C04
import Driver.C09
import Driver.C20
import Driver.C06
import Driver.Wiring
open Lean Driver

def dispatch (p : String) (inp impl : Json) : CaseResult :=
  if jstr inp "tag" == "nodewire" then Wiring.handle inp impl else
  match p with
  | "C16" => C16.handle inp impl
  | "C10" => C10.handle inp impl
  | "C08" => C08.handle inp impl
  | "C17" => C17.handle inp impl
  | "C11" => C11.handle inp impl
  | "C02" => Signer.handleC02 inp impl
  | "C18" => C18.handle inp impl
  | "C13" => C13.handle inp impl
  | "C19" => C19.handle inp impl
  | "C15" => C15.handle inp impl
  | "C14" => C14.handle inp impl
  | "C12" => C12.handle inp impl
  | "C01" => C01.handle inp impl
  | "C05" => C05.handle inp impl
  | "C04" => C04.handle inp impl
  | "C09" => C09.handle inp impl
  | "C20" => C20.handle inp impl
  | "C06" => C06.handle inp impl
  | "C07" => C01.handleC07 inp impl
  | "C03" => Signer.handleC03 inp impl
  | _ => { model := Json.null, spec := false, why := "unknown property " ++ p }

partial def loop (h : IO.FS.Stream) (out : IO.FS.Stream) : IO Unit := do
  let line ← h.getLine
  if line.isEmpty then return ()
  if line.trimAscii.toString.isEmpty then
    loop h out
  else
    match Json.parse line with
    | .error e => out.putStrLn (Json.compress (mkObj [("error", e)]))
    | .ok j =>
      let r := dispatch (jstr j "p") (jobj j "in") (jobj j "impl")
      out.putStrLn (Json.compress (mkObj [("case", jobj j "case"), ("model", r.model),
        ("spec", r.spec), ("why", r.why)]))
    loop h out

def main : IO Unit := do
  let stdin ← IO.getStdin
  let stdout ← IO.getStdout
  loop stdin stdout

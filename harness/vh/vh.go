// Package vh: shared helpers of the out-of-package correspondence drivers (PRNG derived from
// VERIF_SEED, JSON-lines writer, corpus reader, stub chain node and key signer).
package vh

import (
	"bufio"
	"encoding/json"
	"fmt"
	"os"
	"strconv"
	"sync"
)

// Rng: PCG-XSH-RR 64/32
type Rng struct{ state, inc uint64 }

func NewRng(stream uint64) *Rng {
	r := &Rng{0, (stream << 1) | 1}
	r.next()
	r.state += Seed()
	r.next()
	return r
}
func (r *Rng) next() uint32 {
	old := r.state
	r.state = old*6364136223846793005 + r.inc
	xs := uint32(((old >> 18) ^ old) >> 27)
	rot := uint32(old >> 59)
	return (xs >> rot) | (xs << ((-rot) & 31))
}
func (r *Rng) U64() uint64       { return uint64(r.next())<<32 | uint64(r.next()) }
func (r *Rng) Intn(n int) int    { return int(r.U64() % uint64(n)) }
func (r *Rng) Chance(p int) bool { return r.Intn(100) < p }
func (r *Rng) Bytes(n int) []byte {
	b := make([]byte, n)
	for i := range b {
		b[i] = byte(r.next())
	}
	return b
}

func Seed() uint64 {
	s, err := strconv.ParseUint(os.Getenv("VERIF_SEED"), 10, 64)
	if err != nil {
		return 1
	}
	return s
}
func Thorough() bool { return os.Getenv("VERIF_TIER") == "thorough" }
func Count(quick, thorough int) int {
	if Thorough() {
		return thorough
	}
	return quick
}
func OnlyReplay() bool { return os.Getenv("VERIF_ONLY_REPLAY") == "1" }

type Out struct {
	mu sync.Mutex
	f  *os.File
	w  *bufio.Writer
	n  int
	p  string
}

func NewOut(prop string) *Out {
	path := os.Getenv("VERIF_OUT")
	if path == "" {
		fmt.Fprintln(os.Stderr, "VERIF_OUT not set")
		os.Exit(2)
	}
	f, err := os.Create(path)
	if err != nil {
		fmt.Fprintln(os.Stderr, err)
		os.Exit(2)
	}
	base, _ := strconv.Atoi(os.Getenv("VERIF_CASE_BASE")) // an additional harness of the same check numbers its cases from here
	return &Out{f: f, w: bufio.NewWriterSize(f, 1<<20), p: prop, n: base}
}
func (o *Out) Emit(in, impl any) {
	o.mu.Lock()
	defer o.mu.Unlock()
	b, err := json.Marshal(map[string]any{"p": o.p, "case": o.n, "in": in, "impl": impl})
	if err != nil {
		panic(err)
	}
	o.n++
	o.w.Write(b)
	o.w.WriteByte('\n')
}
// EmitGuarded: for cases that may kill the process (a panic in a goroutine of the code under
// test).  A marker line with the case's number and the observation `crashed` is written and
// flushed first; the real line follows under the same number (the orchestrator keeps the last
// line of a case number).
func (o *Out) EmitGuarded(inBefore, crashed any, run func() (in, impl any)) {
	o.mu.Lock()
	n := o.n
	o.n++
	b, _ := json.Marshal(map[string]any{"p": o.p, "case": n, "in": inBefore, "impl": crashed})
	o.w.Write(b)
	o.w.WriteByte('\n')
	o.w.Flush()
	o.mu.Unlock()
	in, impl := run()
	o.mu.Lock()
	defer o.mu.Unlock()
	b, err := json.Marshal(map[string]any{"p": o.p, "case": n, "in": in, "impl": impl})
	if err != nil {
		panic(err)
	}
	o.w.Write(b)
	o.w.WriteByte('\n')
	o.w.Flush()
}
func (o *Out) Close() {
	o.w.Flush()
	o.f.Close()
}

// Corpus returns the "in" objects of VERIF_CASES_IN (replay / corpus), to be executed first.
func Corpus() []json.RawMessage {
	path := os.Getenv("VERIF_CASES_IN")
	if path == "" {
		return nil
	}
	f, err := os.Open(path)
	if err != nil {
		return nil
	}
	defer f.Close()
	var res []json.RawMessage
	sc := bufio.NewScanner(f)
	sc.Buffer(make([]byte, 1<<20), 64<<20)
	for sc.Scan() {
		var obj struct {
			In json.RawMessage `json:"in"`
		}
		if json.Unmarshal(sc.Bytes(), &obj) == nil && len(obj.In) > 0 {
			var tag struct {
				Tag string `json:"tag"`
			}
			if json.Unmarshal(obj.In, &tag) == nil && tag.Tag == "nodewire" {
				continue // a whole-node scenario: re-run by the nodewire harness, not by this one
			}
			res = append(res, obj.In)
		}
	}
	return res
}

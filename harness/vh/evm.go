package vh

import (
	"crypto/ecdsa"
	"errors"
	"io"
	"log/slog"
	"math/big"
	"sync/atomic"

	"github.com/ethereum/go-ethereum/common"
	"github.com/ethereum/go-ethereum/core/types"
	"github.com/ethereum/go-ethereum/crypto"
)

// KeySigner with a real key (real London signatures, so chain id and sender are recoverable
// from what reaches the stub chain node) and switchable faults / call counters.
type KeySigner struct {
	Key        *ecdsa.PrivateKey
	FailSignTx atomic.Bool
	FailHash   atomic.Bool
	HashCalls  atomic.Int64
	Hashes     [][]byte
}

func NewKeySigner(r *Rng) *KeySigner {
	for {
		k, err := crypto.ToECDSA(r.Bytes(32))
		if err == nil {
			return &KeySigner{Key: k}
		}
	}
}

var ErrInjected = errors.New("injected fault")

func (k *KeySigner) SignHash(h []byte) ([]byte, error) {
	k.HashCalls.Add(1)
	k.Hashes = append(k.Hashes, append([]byte(nil), h...))
	if k.FailHash.Load() {
		return nil, ErrInjected
	}
	return crypto.Sign(h, k.Key)
}
func (k *KeySigner) SignTx(tx *types.Transaction, chainID *big.Int) (*types.Transaction, error) {
	if k.FailSignTx.Load() {
		return nil, ErrInjected
	}
	return types.SignTx(tx, types.NewLondonSigner(chainID), k.Key)
}
func (k *KeySigner) GetAddress() common.Address            { return crypto.PubkeyToAddress(k.Key.PublicKey) }
func (k *KeySigner) GetPrivateKey() (*ecdsa.PrivateKey, error) { return k.Key, nil }
func (k *KeySigner) ZeroPrivateKey(*ecdsa.PrivateKey)      {}
func (k *KeySigner) String() string                        { return "verif" }

// Quiet: a logger that writes nowhere but is enabled at debug level, so that everything the code
// does for the sake of a log line (argument evaluation, helper calls) is executed
func Quiet() *slog.Logger {
	return slog.New(slog.NewTextHandler(io.Discard, &slog.HandlerOptions{Level: slog.LevelDebug}))
}

func BigStr(b *big.Int) string {
	if b == nil {
		return "nil"
	}
	return b.String()
}
func Big(s string) *big.Int {
	b, ok := new(big.Int).SetString(s, 10)
	if !ok {
		return big.NewInt(0)
	}
	return b
}

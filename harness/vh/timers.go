package vh

import (
	"go/ast"
	"go/parser"
	"go/token"
	"os"
	"path/filepath"
	"strconv"
	"strings"
)

// Timers lists the real-time bounds (time.After, NewTimer, AfterFunc, Tick, NewTicker,
// context.WithTimeout/WithDeadline, Set*Deadline) written in the non-test sources of the given
// package directories of the tree under test, in milliseconds (0: not a literal).  Behaviour "however
// slow the peer" cannot be sampled for every delay; what can be done is to hold the peer past
// every bound the source mentions, so that an expiry path, if there is one, is the path taken.
func Timers(dirs ...string) []int {
	root := os.Getenv("VERIF_REPO")
	if root == "" {
		root = "/repo"
	}
	var out []int
	units := map[string]int{"Millisecond": 1, "Second": 1000, "Minute": 60000, "Hour": 3600000}
	consts := map[string]ast.Expr{} // package-level and local `name = expr` constants and variables
	depth := 0
	var eval func(e ast.Expr) int
	eval = func(e ast.Expr) int {
		switch x := e.(type) {
		case *ast.Ident:
			if v, ok := consts[x.Name]; ok && depth < 8 {
				depth++
				defer func() { depth-- }()
				return eval(v)
			}
		case *ast.ParenExpr:
			return eval(x.X)
		case *ast.CallExpr: // time.Now().Add(d), time.Duration(n)
			if sel, ok := x.Fun.(*ast.SelectorExpr); ok && len(x.Args) == 1 && (sel.Sel.Name == "Add" || sel.Sel.Name == "Duration") {
				return eval(x.Args[0])
			}
		case *ast.BasicLit:
			n, err := strconv.Atoi(x.Value)
			if err != nil {
				return 0
			}
			return -n // bare number: a factor
		case *ast.SelectorExpr:
			if id, ok := x.X.(*ast.Ident); ok && id.Name == "time" {
				return units[x.Sel.Name]
			}
		case *ast.BinaryExpr:
			if x.Op == token.MUL {
				a, b := eval(x.X), eval(x.Y)
				if a < 0 && b > 0 {
					return -a * b
				}
				if b < 0 && a > 0 {
					return a * -b
				}
			}
		}
		return 0
	}
	var files []string
	for _, d := range dirs {
		fs, _ := filepath.Glob(filepath.Join(root, d, "*.go"))
		files = append(files, fs...)
	}
	var parsed []*ast.File
	for _, f := range files {
		if strings.HasSuffix(f, "_test.go") {
			continue
		}
		src, err := os.ReadFile(f)
		if err != nil {
			continue
		}
		af, err := parser.ParseFile(token.NewFileSet(), f, src, 0)
		if err != nil {
			continue
		}
		parsed = append(parsed, af)
		ast.Inspect(af, func(n ast.Node) bool {
			if vs, ok := n.(*ast.ValueSpec); ok {
				for i, nm := range vs.Names {
					if i < len(vs.Values) {
						consts[nm.Name] = vs.Values[i]
					}
				}
			}
			return true
		})
	}
	for _, af := range parsed {
		ast.Inspect(af, func(n ast.Node) bool {
			call, ok := n.(*ast.CallExpr)
			if !ok {
				return true
			}
			sel, ok := call.Fun.(*ast.SelectorExpr)
			if !ok {
				return true
			}
			pkg, _ := sel.X.(*ast.Ident)
			if pkg == nil {
				pkg = &ast.Ident{Name: "?"}
			}
			var arg ast.Expr
			switch {
			case (sel.Sel.Name == "SetDeadline" || sel.Sel.Name == "SetReadDeadline" || sel.Sel.Name == "SetWriteDeadline") && len(call.Args) == 1:
				arg = call.Args[0]
			case pkg.Name == "context" && sel.Sel.Name == "WithDeadline" && len(call.Args) == 2:
				arg = call.Args[1]
			case pkg.Name == "time" && (sel.Sel.Name == "After" || sel.Sel.Name == "NewTimer" || sel.Sel.Name == "AfterFunc" ||
				sel.Sel.Name == "Tick" || sel.Sel.Name == "NewTicker") && len(call.Args) >= 1:
				arg = call.Args[0]
			case pkg.Name == "context" && sel.Sel.Name == "WithTimeout" && len(call.Args) == 2:
				arg = call.Args[1]
			default:
				return true
			}
			d := eval(arg)
			if d < 0 {
				d = 0
			}
			out = append(out, d)
			return true
		})
	}
	return out
}


// nodewire: the whole node, as `pkg/node.NewNode` wires it, against a scripted chain node.
//
// A bidder node and a provider node are built by the real constructor with three *distinct*
// configured contract addresses (commitment store, provider registry, bidder registry), each
// talking JSON-RPC over loopback HTTP to an in-process chain node that (a) answers eth_call per
// (address, selector) — a registry only understands its own selectors, every other pair reverts —
// and (b) records every call and every raw transaction with the node it came from.  The
// provider's decision engine and the bidder's client drive the nodes through their gRPC APIs.
//
// Observed per scenario: where stake reads, allowance reads, stake / prepay transactions and
// commitment transactions went (by configured name), whether the commitment transaction's
// calldata is the commitment streamed back to the bidder, and how many commitments arrived.
// The Lean model (Model/Wiring) says where each of them must go and when a commitment may exist.
package main

import (
	"context"
	"crypto/ecdsa"
	"crypto/elliptic"
	"crypto/rand"
	"crypto/tls"
	"crypto/x509"
	"crypto/x509/pkix"
	"encoding/hex"
	"encoding/json"
	"encoding/pem"
	"errors"
	"fmt"
	"io"
	"math/big"
	"net"
	"net/http"
	"net/http/httptest"
	"os"
	"path/filepath"
	"sort"
	"strings"
	"sync"
	"time"

	"github.com/ethereum/go-ethereum/accounts/abi"
	"github.com/ethereum/go-ethereum/common"
	"github.com/ethereum/go-ethereum/common/hexutil"
	"github.com/ethereum/go-ethereum/core/types"
	"github.com/ethereum/go-ethereum/crypto"
	"github.com/ethereum/go-ethereum/rpc"
	libp2pcrypto "github.com/libp2p/go-libp2p/core/crypto"
	"github.com/libp2p/go-libp2p/core/peer"
	bidderregistry "github.com/primevprotocol/contracts-abi/clients/BidderRegistry"
	preconf "github.com/primevprotocol/contracts-abi/clients/PreConfCommitmentStore"
	providerregistry "github.com/primevprotocol/contracts-abi/clients/ProviderRegistry"
	bidderapiv1 "github.com/primevprotocol/mev-commit/gen/go/bidderapi/v1"
	providerapiv1 "github.com/primevprotocol/mev-commit/gen/go/providerapi/v1"
	"github.com/primevprotocol/mev-commit/pkg/node"
	"google.golang.org/grpc"
	"google.golang.org/grpc/codes"
	"google.golang.org/grpc/credentials"
	"google.golang.org/grpc/status"
	"verif/harness/vh"
)

// ------------------------------------------------------------------ the scripted chain node

type rec struct {
	Node   string // which node's endpoint the request came in on
	To     string // configured name of the target address, or "other:<hex>"
	Method string // ABI method name, or "sel:<hex>"
}

type chain struct {
	mu        sync.Mutex
	chainID   *big.Int
	names     map[common.Address]string
	abis      map[string]abi.ABI
	stake     map[common.Address]*big.Int
	allowance map[common.Address]*big.Int
	calls     []rec
	txs       []txRec
	nonces    map[common.Address]uint64
	receipts  map[common.Hash]*types.Receipt
	block     uint64
	opsFault  string
	hist      map[common.Address][]nonceAt // history of the account's next nonce, for the lagging "pending" view
	sentBy    map[common.Address][]uint64  // nonces of the transactions each account submitted, in order
	// transactions the node reports on request: pending until marked mined
	known map[common.Hash]*knownTx
}

type knownTx struct {
	tx    *types.Transaction
	from  common.Address
	mined bool
}

type nonceAt struct {
	at time.Time
	n  uint64
}

// how far the chain node's "pending" answer trails what it has accepted (a node whose pending
// state refreshes at block boundaries)
const pendingLag = 1200 * time.Millisecond

type txRec struct {
	rec
	From  common.Address
	Value *big.Int
	Args  []interface{}
}

func (c *chain) classify(to *common.Address, data []byte) (string, string, *abi.Method) {
	if to == nil {
		return "create", "", nil
	}
	name, ok := c.names[*to]
	if !ok {
		name = "other:" + strings.ToLower(to.Hex())
	}
	meth := "sel:" + hex.EncodeToString(data[:min(4, len(data))])
	if a, ok := c.abis[name]; ok && len(data) >= 4 {
		if m, err := a.MethodById(data[:4]); err == nil {
			return name, m.Name, m
		}
	}
	return name, meth, nil
}

type api struct {
	c    *chain
	node string
}

func (a *api) ChainId() *hexutil.Big { return (*hexutil.Big)(a.c.chainID) }
func (a *api) BlockNumber() hexutil.Uint64 {
	a.c.mu.Lock()
	defer a.c.mu.Unlock()
	a.c.block++
	return hexutil.Uint64(a.c.block)
}
func (a *api) GetTransactionCount(addr common.Address, tag string) hexutil.Uint64 {
	a.c.mu.Lock()
	defer a.c.mu.Unlock()
	if tag == "pending" {
		v := uint64(0)
		for _, h := range a.c.hist[addr] {
			if time.Since(h.at) >= pendingLag {
				v = h.n
			}
		}
		return hexutil.Uint64(v)
	}
	return hexutil.Uint64(a.c.nonces[addr])
}

func (a *api) GetTransactionByHash(h common.Hash) (map[string]interface{}, error) {
	a.c.mu.Lock()
	defer a.c.mu.Unlock()
	k, ok := a.c.known[h]
	if !ok {
		return nil, nil // JSON null: unknown
	}
	raw, err := k.tx.MarshalJSON()
	if err != nil {
		return nil, err
	}
	m := map[string]interface{}{}
	if err := json.Unmarshal(raw, &m); err != nil {
		return nil, err
	}
	m["from"] = k.from
	m["blockNumber"], m["blockHash"], m["transactionIndex"] = nil, nil, nil
	if k.mined {
		m["blockNumber"], m["blockHash"], m["transactionIndex"] = "0x5", common.HexToHash("0xb10c"), "0x0"
	}
	return m, nil
}
func (a *api) GasPrice() *hexutil.Big                            { return (*hexutil.Big)(big.NewInt(2_000_000_000)) }
func (a *api) MaxPriorityFeePerGas() *hexutil.Big                { return (*hexutil.Big)(big.NewInt(1_000_000_000)) }
func (a *api) EstimateGas(map[string]interface{}) hexutil.Uint64 { return 100000 }

func argBytes(m map[string]interface{}, keys ...string) []byte {
	for _, k := range keys {
		if s, ok := m[k].(string); ok {
			b, _ := hexutil.Decode(s)
			return b
		}
	}
	return nil
}

func (a *api) Call(args map[string]interface{}, _ string) (hexutil.Bytes, error) {
	var to *common.Address
	if s, ok := args["to"].(string); ok {
		t := common.HexToAddress(s)
		to = &t
	}
	data := argBytes(args, "input", "data")
	a.c.mu.Lock()
	defer a.c.mu.Unlock()
	name, meth, m := a.c.classify(to, data)
	a.c.calls = append(a.c.calls, rec{a.node, name, meth})
	if m == nil {
		return nil, errors.New("execution reverted")
	}
	word := func(v *big.Int) hexutil.Bytes {
		if v == nil {
			v = new(big.Int)
		}
		return common.LeftPadBytes(v.Bytes(), 32)
	}
	who := func() common.Address {
		vs, err := m.Inputs.Unpack(data[4:])
		if err != nil || len(vs) == 0 {
			return common.Address{}
		}
		ad, _ := vs[0].(common.Address)
		return ad
	}
	switch name + "." + meth {
	case "provider-registry.minStake", "bidder-registry.minAllowance":
		return word(big.NewInt(5)), nil
	case "provider-registry.checkStake":
		return word(a.c.stake[who()]), nil
	case "bidder-registry.getAllowance":
		return word(a.c.allowance[who()]), nil
	}
	return nil, errors.New("execution reverted")
}

func (a *api) SendRawTransaction(raw hexutil.Bytes) (common.Hash, error) {
	tx := new(types.Transaction)
	if err := tx.UnmarshalBinary(raw); err != nil {
		return common.Hash{}, err
	}
	from, err := types.Sender(types.LatestSignerForChainID(a.c.chainID), tx)
	if err != nil {
		return common.Hash{}, err
	}
	a.c.mu.Lock()
	defer a.c.mu.Unlock()
	name, meth, m := a.c.classify(tx.To(), tx.Data())
	isOp := meth == "registerAndStake" || meth == "prepay"
	if isOp && a.c.opsFault == "reject" {
		return common.Hash{}, errors.New("insufficient funds for gas * price + value")
	}
	r := txRec{rec: rec{a.node, name, meth}, From: from, Value: tx.Value()}
	if m != nil {
		r.Args, _ = m.Inputs.Unpack(tx.Data()[4:])
	}
	a.c.txs = append(a.c.txs, r)
	// mined at once, successfully; the registries credit the value
	a.c.nonces[from] = tx.Nonce() + 1
	a.c.hist[from] = append(a.c.hist[from], nonceAt{time.Now(), tx.Nonce() + 1})
	a.c.sentBy[from] = append(a.c.sentBy[from], tx.Nonce())
	a.c.block++
	st := uint64(1)
	if isOp && a.c.opsFault == "revert" {
		st = 0
	}
	a.c.receipts[tx.Hash()] = &types.Receipt{Type: tx.Type(), Status: st, CumulativeGasUsed: 21000, TxHash: tx.Hash(), GasUsed: 21000,
		BlockHash: common.HexToHash("0xb10c"), BlockNumber: new(big.Int).SetUint64(a.c.block), Logs: []*types.Log{}}
	if st == 0 {
		return tx.Hash(), nil
	}
	switch name + "." + meth {
	case "provider-registry.registerAndStake":
		a.c.stake[from] = new(big.Int).Add(orZero(a.c.stake[from]), tx.Value())
	case "bidder-registry.prepay":
		a.c.allowance[from] = new(big.Int).Add(orZero(a.c.allowance[from]), tx.Value())
	}
	return tx.Hash(), nil
}

func orZero(b *big.Int) *big.Int {
	if b == nil {
		return new(big.Int)
	}
	return b
}

func (a *api) GetTransactionReceipt(h common.Hash) (*types.Receipt, error) {
	a.c.mu.Lock()
	defer a.c.mu.Unlock()
	return a.c.receipts[h], nil // nil: JSON null
}

type netAPI struct{ c *chain }

func (n *netAPI) Version() string { return n.c.chainID.String() }

func (c *chain) endpoint(node string) *httptest.Server {
	srv := rpc.NewServer()
	must(srv.RegisterName("eth", &api{c, node}))
	must(srv.RegisterName("net", &netAPI{c}))
	return httptest.NewServer(srv)
}

func must(err error) {
	if err != nil {
		panic(err)
	}
}

// ------------------------------------------------------------------ scenario

type in struct {
	Tag     string `json:"tag"`     // nodewire
	Staked  bool   `json:"staked"`  // the provider has stake at the configured provider registry
	Allowed bool   `json:"allowed"` // the bidder has allowance at the configured bidder registry
	Ops     bool   `json:"ops"`     // also run the stake / prepay / read operations of the two APIs
	// what happens to the stake / prepay transactions: "" mined successfully | revert (mined with
	// status 0, nothing credited) | reject (the chain node refuses the raw transaction)
	OpsFault string `json:"ops_fault,omitempty"`
	Engine   string `json:"engine,omitempty"`    // "" accept | reject: what the provider's decision engine answers
	BidShape string `json:"bid_shape,omitempty"` // "" valid | bad-hash | zero-amount | no-hash: the request given to the bidder node's API
	// "" a bidder node and a provider node | bootnode: a bootnode and a provider that dials it
	Scene string `json:"scene,omitempty"`
	// after the first request a second one follows through the same nodes: same hashes, amount and
	// block, another decay window (a re-bid for the next slot)
	Sibling bool `json:"sibling,omitempty"`
	// the stake / prepay amounts are written with leading zeros (decimal all the same)
	OpsPadded bool `json:"ops_padded,omitempty"`
}

type obs struct {
	Started        bool     `json:"started"`
	StakeReadsAt   []string `json:"stake_reads_at"`     // distinct targets of checkStake / minStake calls
	AllowReadsAt   []string `json:"allowance_reads_at"` // distinct targets of getAllowance / minAllowance calls
	OtherReads     []string `json:"other_reads"`        // any other (target.method) called
	StakeReadBy    []string `json:"stake_read_by"`      // which nodes read stake during handshake + bid (before ops)
	AllowReadBy    []string `json:"allowance_read_by"`
	CommitTxsAt    []string `json:"commit_txs_at"`     // targets of storeCommitment transactions
	CommitTxFrom   []string `json:"commit_tx_from"`    // which node sent them
	OtherTxs       []string `json:"other_txs"`         // any other transaction (target.method) before ops
	Commitments    int      `json:"commitments"`       // commitments streamed back to the bidder's client
	CommitMatches  bool     `json:"commit_matches_tx"` // each commitment's fields = ABI-decoded args of one commitment tx
	ProviderIsP    bool     `json:"provider_address_ok"`
	EngineSaw      int      `json:"engine_saw"`
	APIRefused     bool     `json:"api_refused"`  // the bidder node's API answered InvalidArgument and nothing was sent
	StakeTxAt      string   `json:"stake_tx_at"`  // ops: target.method:value of the RegisterStake transaction
	PrepayTxAt     string   `json:"prepay_tx_at"` // ops: same for PrepayAllowance
	StakeReported  string   `json:"stake_reported"`
	PrepayReported string   `json:"prepay_reported"`
	// ops: the provider account's transactions carry strictly increasing nonces although the chain
	// node's pending answer lags (one nonce allocator per account)
	ProviderNoncesOK bool `json:"provider_nonces_ok"`
	// ops: cancelling a transaction the chain node does not know is refused with an error
	CancelUnknown string `json:"cancel_unknown_reported"`
	// ops: a pending transaction is cancelled, is mined all the same, and is cancelled again
	CancelMined string `json:"cancel_mined_reported"`
	// bootnode scene: did the bootnode admit / block the provider that dialled it
	BootAdmitted bool   `json:"boot_admitted_provider"`
	BootBlocked  bool   `json:"boot_blocked_provider"`
	Err          string `json:"err,omitempty"`
}

var (
	portMu   sync.Mutex
	portUsed = map[int]bool{}
)

// freePort: a loopback port nobody listens on and no other scenario of this run was given
func freePort() int {
	portMu.Lock()
	defer portMu.Unlock()
	for {
		l, err := net.Listen("tcp", "127.0.0.1:0")
		must(err)
		p := l.Addr().(*net.TCPAddr).Port
		l.Close()
		if !portUsed[p] {
			portUsed[p] = true
			return p
		}
	}
}

func selfSigned(dir string) (string, string) {
	key, err := ecdsa.GenerateKey(elliptic.P256(), rand.Reader)
	must(err)
	tmpl := &x509.Certificate{SerialNumber: big.NewInt(1), Subject: pkix.Name{CommonName: "verif"},
		NotBefore: time.Now().Add(-time.Hour), NotAfter: time.Now().Add(24 * time.Hour),
		KeyUsage: x509.KeyUsageDigitalSignature, ExtKeyUsage: []x509.ExtKeyUsage{x509.ExtKeyUsageServerAuth},
		IPAddresses: []net.IP{net.ParseIP("127.0.0.1")}}
	der, err := x509.CreateCertificate(rand.Reader, tmpl, tmpl, &key.PublicKey, key)
	must(err)
	kb, err := x509.MarshalECPrivateKey(key)
	must(err)
	cf, kf := filepath.Join(dir, "nodewire-cert.pem"), filepath.Join(dir, "nodewire-key.pem")
	must(os.WriteFile(cf, pem.EncodeToMemory(&pem.Block{Type: "CERTIFICATE", Bytes: der}), 0o600))
	must(os.WriteFile(kf, pem.EncodeToMemory(&pem.Block{Type: "EC PRIVATE KEY", Bytes: kb}), 0o600))
	return cf, kf
}

func waitListening(port int) bool {
	for i := 0; i < 400; i++ {
		c, err := net.DialTimeout("tcp", fmt.Sprintf("127.0.0.1:%d", port), 50*time.Millisecond)
		if err == nil {
			c.Close()
			return true
		}
		time.Sleep(10 * time.Millisecond)
	}
	return false
}

func uniq(xs []string) []string {
	m := map[string]bool{}
	for _, x := range xs {
		m[x] = true
	}
	out := make([]string, 0, len(m))
	for x := range m {
		out = append(out, x)
	}
	sort.Strings(out)
	return out
}

func run(sc in, rng *vh.Rng, cert, keyf string) (o obs) {
	o = obs{StakeReadsAt: []string{}, AllowReadsAt: []string{}, OtherReads: []string{}, StakeReadBy: []string{}, AllowReadBy: []string{},
		CommitTxsAt: []string{}, CommitTxFrom: []string{}, OtherTxs: []string{}}
	defer func() {
		if r := recover(); r != nil {
			o.Err = fmt.Sprint("panic: ", r)
		}
	}()
	pKS, bKS := vh.NewKeySigner(rng), vh.NewKeySigner(rng)
	pc, pr, br := common.BytesToAddress(rng.Bytes(20)), common.BytesToAddress(rng.Bytes(20)), common.BytesToAddress(rng.Bytes(20))
	c := &chain{chainID: big.NewInt(31337), names: map[common.Address]string{pc: "preconf", pr: "provider-registry", br: "bidder-registry"},
		abis: map[string]abi.ABI{}, stake: map[common.Address]*big.Int{}, allowance: map[common.Address]*big.Int{},
		nonces: map[common.Address]uint64{}, receipts: map[common.Hash]*types.Receipt{}, hist: map[common.Address][]nonceAt{},
		sentBy: map[common.Address][]uint64{}}
	for name, js := range map[string]string{"preconf": preconf.PreconfcommitmentstoreMetaData.ABI, "provider-registry": providerregistry.ProviderregistryMetaData.ABI,
		"bidder-registry": bidderregistry.BidderregistryMetaData.ABI} {
		a, err := abi.JSON(strings.NewReader(js))
		must(err)
		c.abis[name] = a
	}
	if sc.Staked {
		c.stake[pKS.GetAddress()] = big.NewInt(1000000)
	}
	if sc.Allowed {
		c.allowance[bKS.GetAddress()] = big.NewInt(1000000)
	}
	pEP, bEP := c.endpoint("provider-node"), c.endpoint("bidder-node")
	defer pEP.Close()
	defer bEP.Close()

	mk := func(ks *vh.KeySigner, typ, ep string, boot []string) (*node.Options, int, int) {
		p2pPort, rpcPort, httpPort := freePort(), freePort(), freePort()
		return &node.Options{Version: "verif", KeySigner: ks, Secret: "verif", PeerType: typ, Logger: vh.Quiet(),
			P2PPort: p2pPort, P2PAddr: "127.0.0.1", HTTPAddr: fmt.Sprintf("127.0.0.1:%d", httpPort), RPCAddr: fmt.Sprintf("127.0.0.1:%d", rpcPort),
			Bootnodes: boot, PreconfContract: pc.Hex(), ProviderRegistryContract: pr.Hex(), BidderRegistryContract: br.Hex(),
			RPCEndpoint: ep, TLSCertificateFile: cert, TLSPrivateKeyFile: keyf}, p2pPort, rpcPort
	}
	bOpts, bP2P, bRPC := mk(bKS, "bidder", bEP.URL, nil)
	lk, err := libp2pcrypto.UnmarshalSecp256k1PrivateKey(crypto.FromECDSA(bKS.Key))
	must(err)
	bID, err := peer.IDFromPrivateKey(lk)
	must(err)
	type res struct {
		n   *node.Node
		err error
	}
	bC, pC := make(chan res, 1), make(chan res, 1)
	go func() { n, err := node.NewNode(bOpts); bC <- res{n, err} }()
	if !waitListening(bP2P) {
		o.Err = "bidder p2p port never opened"
		return o
	}
	time.Sleep(150 * time.Millisecond) // the constructor sets the notifier right after libp2p.New returned
	pOpts, _, pRPC := mk(pKS, "provider", pEP.URL, []string{fmt.Sprintf("/ip4/127.0.0.1/tcp/%d/p2p/%s", bP2P, bID)})
	go func() { n, err := node.NewNode(pOpts); pC <- res{n, err} }()
	var bN, pN *node.Node
	for i := 0; i < 2; i++ {
		select {
		case r := <-bC:
			if r.err != nil {
				o.Err = "bidder node: " + r.err.Error()
			}
			bN = r.n
		case r := <-pC:
			if r.err != nil {
				o.Err = "provider node: " + r.err.Error()
			}
			pN = r.n
		case <-time.After(40 * time.Second):
			o.Err = "node constructor did not return"
			return o
		}
	}
	defer func() {
		if bN != nil {
			bN.Close()
		}
		if pN != nil {
			pN.Close()
		}
	}()
	if o.Err != "" {
		return o
	}
	// the scenario starts once the provider's bootstrap dial has reached the bidder (the bidder then
	// asks the registry about the provider's stake).  On a loaded machine that dial can fail once —
	// the node retries a minute later; the harness sets the scenario up again instead.
	reached := false
	for i := 0; i < 2000 && !reached; i++ {
		c.mu.Lock()
		for _, r := range c.calls {
			if r.Method == "checkStake" {
				reached = true
			}
		}
		c.mu.Unlock()
		if !reached {
			time.Sleep(10 * time.Millisecond)
		}
	}
	if !reached {
		o.Err = "the provider's bootstrap dial never reached the bidder"
		return o
	}
	o.Started = true
	creds := grpc.WithTransportCredentials(credentials.NewTLS(&tls.Config{InsecureSkipVerify: true}))
	ctx, cancel := context.WithTimeout(context.Background(), 30*time.Second)
	defer cancel()
	pConn, err := grpc.DialContext(ctx, fmt.Sprintf("127.0.0.1:%d", pRPC), creds, grpc.WithBlock())
	must(err)
	defer pConn.Close()
	bConn, err := grpc.DialContext(ctx, fmt.Sprintf("127.0.0.1:%d", bRPC), creds, grpc.WithBlock())
	must(err)
	defer bConn.Close()
	engine, bidder := providerapiv1.NewProviderClient(pConn), bidderapiv1.NewBidderClient(bConn)

	// the decision engine: accept everything
	ectx, ecancel := context.WithCancel(ctx)
	defer ecancel()
	bids, err := engine.ReceiveBids(ectx, &providerapiv1.EmptyMessage{})
	must(err)
	decisions, err := engine.SendProcessedBids(ectx)
	must(err)
	var emu sync.Mutex
	go func() {
		for {
			b, err := bids.Recv()
			if err != nil {
				return
			}
			emu.Lock()
			o.EngineSaw++
			emu.Unlock()
			st := providerapiv1.BidResponse_STATUS_ACCEPTED
			if sc.Engine == "reject" {
				st = providerapiv1.BidResponse_STATUS_REJECTED
			}
			_ = decisions.Send(&providerapiv1.BidResponse{BidDigest: b.BidDigest, Status: st})
		}
	}()
	time.Sleep(200 * time.Millisecond) // ReceiveBids registered

	txh := hex.EncodeToString(rng.Bytes(32))
	amount := fmt.Sprint(1 + rng.Intn(1000000))
	blk, ds, de := int64(1+rng.Intn(100000)), int64(1+rng.Intn(100000)), int64(200000+rng.Intn(100000))
	req := &bidderapiv1.Bid{TxHashes: []string{txh}, Amount: amount, BlockNumber: blk, DecayStartTimestamp: ds, DecayEndTimestamp: de}
	switch sc.BidShape {
	case "bad-hash":
		req.TxHashes = []string{"zz" + txh[2:]}
	case "zero-amount":
		req.Amount = "0"
	case "no-hash":
		req.TxHashes = nil
	case "padded-amount":
		req.Amount = "000" + amount
	case "window-empty": // decay window of no length: accepted by the published rules, forwarded verbatim
		req.DecayEndTimestamp = ds
	case "window-reversed":
		req.DecayStartTimestamp, req.DecayEndTimestamp = de, ds
	}
	reqs := []*bidderapiv1.Bid{req}
	if sc.Sibling {
		reqs = append(reqs, &bidderapiv1.Bid{TxHashes: req.TxHashes, Amount: req.Amount, BlockNumber: blk,
			DecayStartTimestamp: ds + 12000, DecayEndTimestamp: de + 12000})
	}
	type answered struct {
		req *bidderapiv1.Bid
		cm  *bidderapiv1.Commitment
	}
	var got []answered
	sctx, scancel := context.WithTimeout(ctx, 8*time.Second)
	for _, rq := range reqs {
		stream, err := bidder.SendBid(sctx, rq)
		if err == nil {
			for {
				cm, err := stream.Recv()
				if err != nil {
					if err != io.EOF && status.Code(err) == codes.InvalidArgument {
						o.APIRefused = true
					}
					break
				}
				got = append(got, answered{rq, cm})
			}
		} else if status.Code(err) == codes.InvalidArgument {
			o.APIRefused = true
		}
	}
	scancel()
	time.Sleep(100 * time.Millisecond)

	c.mu.Lock()
	calls := append([]rec{}, c.calls...)
	txs := append([]txRec{}, c.txs...)
	c.mu.Unlock()
	var stakeAt, allowAt, other, stakeBy, allowBy []string
	for _, r := range calls {
		switch r.Method {
		case "checkStake", "minStake":
			stakeAt, stakeBy = append(stakeAt, r.To), append(stakeBy, r.Node)
		case "getAllowance", "minAllowance":
			allowAt, allowBy = append(allowAt, r.To), append(allowBy, r.Node)
		default:
			other = append(other, r.To+"."+r.Method)
		}
	}
	o.StakeReadsAt, o.AllowReadsAt, o.OtherReads, o.StakeReadBy, o.AllowReadBy = uniq(stakeAt), uniq(allowAt), uniq(other), uniq(stakeBy), uniq(allowBy)
	o.Commitments = len(got)
	o.ProviderIsP = true
	var commitTxs []txRec
	for _, t := range txs {
		if t.Method == "storeCommitment" {
			commitTxs = append(commitTxs, t)
			o.CommitTxsAt = append(o.CommitTxsAt, t.To)
			o.CommitTxFrom = append(o.CommitTxFrom, t.Node)
		} else {
			o.OtherTxs = append(o.OtherTxs, t.To+"."+t.Method)
		}
	}
	o.CommitTxsAt, o.CommitTxFrom, o.OtherTxs = uniq(o.CommitTxsAt), uniq(o.CommitTxFrom), uniq(o.OtherTxs)
	o.CommitMatches = true
	for _, g := range got {
		cm, rq := g.cm, g.req
		if !strings.EqualFold(strings.TrimPrefix(cm.ProviderAddress, "0x"), hex.EncodeToString(pKS.GetAddress().Bytes())) {
			o.ProviderIsP = false
		}
		found := false
		for _, t := range commitTxs {
			if len(t.Args) != 7 {
				continue
			}
			a0, _ := t.Args[0].(uint64)
			a1, _ := t.Args[1].(uint64)
			a2, _ := t.Args[2].(string)
			a3, _ := t.Args[3].(uint64)
			a4, _ := t.Args[4].(uint64)
			a5, _ := t.Args[5].([]byte)
			a6, _ := t.Args[6].([]byte)
			if vh.Big(cm.BidAmount) != nil && fmt.Sprint(a0) == vh.Big(cm.BidAmount).String() && int64(a1) == cm.BlockNumber && a2 == strings.Join(cm.TxHashes, ",") &&
				int64(a3) == cm.DecayStartTimestamp && int64(a4) == cm.DecayEndTimestamp &&
				hex.EncodeToString(a5) == cm.ReceivedBidSignature && hex.EncodeToString(a6) == cm.CommitmentSignature &&
				t.From == pKS.GetAddress() {
				found = true
			}
		}
		// ... and reproduces the request it answers, verbatim
		if !found || cm.BidAmount != rq.Amount || cm.BlockNumber != rq.BlockNumber || strings.Join(cm.TxHashes, ",") != strings.Join(rq.TxHashes, ",") ||
			cm.DecayStartTimestamp != rq.DecayStartTimestamp || cm.DecayEndTimestamp != rq.DecayEndTimestamp {
			o.CommitMatches = false
		}
	}
	emu.Lock()
	emu.Unlock()

	var noncesSoFar []uint64
	if sc.Ops {
		c.mu.Lock()
		c.opsFault = sc.OpsFault
		c.mu.Unlock()
		nBefore := len(txs)
		stakeAmt, prepayAmt := fmt.Sprint(7+rng.Intn(1000)), fmt.Sprint(7+rng.Intn(1000))
		if sc.OpsPadded {
			stakeAmt, prepayAmt = "00"+stakeAmt, "0"+prepayAmt
		}
		octx, ocancel := context.WithTimeout(ctx, 10*time.Second)
		if r, err := engine.RegisterStake(octx, &providerapiv1.StakeRequest{Amount: stakeAmt}); err == nil {
			want := new(big.Int).Add(orZero(map[bool]*big.Int{true: big.NewInt(1000000), false: nil}[sc.Staked]), vh.Big(stakeAmt))
			o.StakeReported = map[bool]string{true: "balance-after", false: "other:" + r.Amount}[r.Amount == want.String()]
		} else {
			o.StakeReported = "error"
		}
		if r, err := bidder.PrepayAllowance(octx, &bidderapiv1.PrepayRequest{Amount: prepayAmt}); err == nil {
			want := new(big.Int).Add(orZero(map[bool]*big.Int{true: big.NewInt(1000000), false: nil}[sc.Allowed]), vh.Big(prepayAmt))
			o.PrepayReported = map[bool]string{true: "balance-after", false: "other:" + r.Amount}[r.Amount == want.String()]
		} else {
			o.PrepayReported = "error"
		}
		if _, err := engine.CancelTransaction(octx, &providerapiv1.CancelReq{TxHash: "0x" + hex.EncodeToString(rng.Bytes(32))}); err != nil {
			o.CancelUnknown = "error"
		} else {
			o.CancelUnknown = "success"
		}
		c.mu.Lock()
		later := append([]txRec{}, c.txs[nBefore:]...)
		noncesSoFar = append([]uint64{}, c.sentBy[pKS.GetAddress()]...)
		c.mu.Unlock()
		{
			// a pending transaction the chain node knows (nonce far ahead of anything else here)
			fk, _ := crypto.GenerateKey()
			to := common.HexToAddress("0xc0ffee")
			ftx, err := types.SignTx(types.NewTx(&types.DynamicFeeTx{ChainID: c.chainID, Nonce: 900000, To: &to, Gas: 21000,
				GasFeeCap: big.NewInt(3_000_000_000), GasTipCap: big.NewInt(1_000_000_000), Value: big.NewInt(1)}), types.LatestSignerForChainID(c.chainID), fk)
			must(err)
			c.mu.Lock()
			if c.known == nil {
				c.known = map[common.Hash]*knownTx{}
			}
			c.known[ftx.Hash()] = &knownTx{tx: ftx, from: crypto.PubkeyToAddress(fk.PublicKey)}
			c.mu.Unlock()
			if _, err := engine.CancelTransaction(octx, &providerapiv1.CancelReq{TxHash: ftx.Hash().Hex()}); err != nil {
				o.CancelMined = "first-cancel-refused: " + err.Error()
			} else {
				c.mu.Lock()
				c.known[ftx.Hash()].mined = true
				c.mu.Unlock()
				if _, err := engine.CancelTransaction(octx, &providerapiv1.CancelReq{TxHash: ftx.Hash().Hex()}); err != nil {
					o.CancelMined = "error"
				} else {
					o.CancelMined = "success"
				}
			}
		}
		ocancel()
		for _, t := range later {
			s := fmt.Sprintf("%s:%s.%s:%s", t.Node, t.To, t.Method, map[bool]string{true: "requested-value", false: "value=" + t.Value.String()}[t.Value.String() == vh.Big(stakeAmt).String() && t.Method == "registerAndStake" || t.Value.String() == vh.Big(prepayAmt).String() && t.Method == "prepay"])
			switch t.Method {
			case "registerAndStake":
				o.StakeTxAt = s
			case "prepay":
				o.PrepayTxAt = s
			default:
				o.OtherTxs = append(o.OtherTxs, "ops:"+t.To+"."+t.Method)
			}
		}
	}
	o.ProviderNoncesOK = true
	c.mu.Lock()
	ns := c.sentBy[pKS.GetAddress()]
	c.mu.Unlock()
	if noncesSoFar != nil {
		ns = noncesSoFar // (the cancellation exercise at the end replaces a far-away nonce)
	}
	for i := 1; i < len(ns); i++ {
		if ns[i] <= ns[i-1] {
			o.ProviderNoncesOK = false
		}
	}
	emu.Lock()
	defer emu.Unlock()
	return o
}

// runBoot: a bootnode built by NewNode and a provider node that dials it.  The bootnode must ask
// the configured provider registry about the provider's stake and admit it only if staked.
func runBoot(sc in, rng *vh.Rng, cert, keyf string) (o obs) {
	o = obs{StakeReadsAt: []string{}, AllowReadsAt: []string{}, OtherReads: []string{}, StakeReadBy: []string{}, AllowReadBy: []string{},
		CommitTxsAt: []string{}, CommitTxFrom: []string{}, OtherTxs: []string{}}
	defer func() {
		if r := recover(); r != nil {
			o.Err = fmt.Sprint("panic: ", r)
		}
	}()
	pKS, bootKS := vh.NewKeySigner(rng), vh.NewKeySigner(rng)
	pc, pr, br := common.BytesToAddress(rng.Bytes(20)), common.BytesToAddress(rng.Bytes(20)), common.BytesToAddress(rng.Bytes(20))
	c := &chain{chainID: big.NewInt(31337), names: map[common.Address]string{pc: "preconf", pr: "provider-registry", br: "bidder-registry"},
		abis: map[string]abi.ABI{}, stake: map[common.Address]*big.Int{}, allowance: map[common.Address]*big.Int{},
		nonces: map[common.Address]uint64{}, receipts: map[common.Hash]*types.Receipt{}, hist: map[common.Address][]nonceAt{},
		sentBy: map[common.Address][]uint64{}}
	for name, js := range map[string]string{"preconf": preconf.PreconfcommitmentstoreMetaData.ABI, "provider-registry": providerregistry.ProviderregistryMetaData.ABI,
		"bidder-registry": bidderregistry.BidderregistryMetaData.ABI} {
		a, err := abi.JSON(strings.NewReader(js))
		must(err)
		c.abis[name] = a
	}
	if sc.Staked {
		c.stake[pKS.GetAddress()] = big.NewInt(1000000)
	}
	bootEP, pEP := c.endpoint("bootnode-node"), c.endpoint("provider-node")
	defer bootEP.Close()
	defer pEP.Close()
	mk := func(ks *vh.KeySigner, typ, ep string, boot []string) (*node.Options, int, int) {
		p2pPort, rpcPort, httpPort := freePort(), freePort(), freePort()
		return &node.Options{Version: "verif", KeySigner: ks, Secret: "verif", PeerType: typ, Logger: vh.Quiet(),
			P2PPort: p2pPort, P2PAddr: "127.0.0.1", HTTPAddr: fmt.Sprintf("127.0.0.1:%d", httpPort), RPCAddr: fmt.Sprintf("127.0.0.1:%d", rpcPort),
			Bootnodes: boot, PreconfContract: pc.Hex(), ProviderRegistryContract: pr.Hex(), BidderRegistryContract: br.Hex(),
			RPCEndpoint: ep, TLSCertificateFile: cert, TLSPrivateKeyFile: keyf}, p2pPort, httpPort
	}
	bootOpts, bootP2P, bootHTTP := mk(bootKS, "bootnode", bootEP.URL, nil)
	bootNode, err := node.NewNode(bootOpts)
	if err != nil {
		o.Err = "bootnode: " + err.Error()
		return o
	}
	defer bootNode.Close()
	if !waitListening(bootP2P) {
		o.Err = "bootnode p2p port never opened"
		return o
	}
	lk, err := libp2pcrypto.UnmarshalSecp256k1PrivateKey(crypto.FromECDSA(bootKS.Key))
	must(err)
	bootID, err := peer.IDFromPrivateKey(lk)
	must(err)
	pOpts, _, _ := mk(pKS, "provider", pEP.URL, []string{fmt.Sprintf("/ip4/127.0.0.1/tcp/%d/p2p/%s", bootP2P, bootID)})
	pNode, err := node.NewNode(pOpts)
	if err != nil {
		o.Err = "provider node: " + err.Error()
		return o
	}
	defer pNode.Close()
	o.Started = true
	time.Sleep(300 * time.Millisecond)
	// the bootnode's own account of who it is connected to and whom it blocks
	hc := &http.Client{Timeout: 3 * time.Second, Transport: &http.Transport{TLSClientConfig: &tls.Config{InsecureSkipVerify: true}}}
	var topo struct {
		ConnectedPeers map[string][]common.Address `json:"connected_peers"`
		BlockedPeers   []json.RawMessage           `json:"blocked_peers"`
	}
	waitListening(bootHTTP)
	resp, err := hc.Get(fmt.Sprintf("https://127.0.0.1:%d/topology", bootHTTP))
	if err != nil {
		o.Err = "bootnode debug api: " + err.Error()
		return o
	}
	defer resp.Body.Close()
	if err := json.NewDecoder(resp.Body).Decode(&topo); err != nil {
		o.Err = "bootnode debug api: " + err.Error()
		return o
	}
	for _, a := range topo.ConnectedPeers["providers"] {
		if a == pKS.GetAddress() {
			o.BootAdmitted = true
		}
	}
	o.BootBlocked = len(topo.BlockedPeers) > 0
	c.mu.Lock()
	calls := append([]rec{}, c.calls...)
	c.mu.Unlock()
	var stakeAt, stakeBy, other []string
	for _, r := range calls {
		switch r.Method {
		case "checkStake", "minStake":
			stakeAt, stakeBy = append(stakeAt, r.To), append(stakeBy, r.Node)
		default:
			other = append(other, r.To+"."+r.Method)
		}
	}
	o.StakeReadsAt, o.StakeReadBy, o.OtherReads = uniq(stakeAt), uniq(stakeBy), uniq(other)
	o.CommitMatches, o.ProviderIsP, o.ProviderNoncesOK = true, true, true
	return o
}

func main() {
	out := vh.NewOut(os.Getenv("VERIF_PROP"))
	defer out.Close()
	rng := vh.NewRng(77)
	dir := os.Getenv("VERIF_WORK")
	if dir == "" {
		dir = "."
	}
	cert, keyf := selfSigned(dir)
	defer os.Remove(cert)
	defer os.Remove(keyf)
	scs := []in{
		{Tag: "nodewire", Staked: true, Allowed: true, Ops: true, OpsPadded: true, Sibling: true},
		{Tag: "nodewire", Staked: true, Allowed: false},
		{Tag: "nodewire", Staked: false, Allowed: true},
		{Tag: "nodewire", Staked: true, Allowed: true, Engine: "reject"},
		{Tag: "nodewire", Scene: "bootnode", Staked: false},
		{Tag: "nodewire", Scene: "bootnode", Staked: true},
		{Tag: "nodewire", Staked: true, Allowed: true, BidShape: "bad-hash"},
		{Tag: "nodewire", Staked: true, Allowed: true, BidShape: "padded-amount"},
		{Tag: "nodewire", Staked: true, Allowed: true, BidShape: "window-empty"},
		{Tag: "nodewire", Staked: true, Allowed: true, BidShape: "window-reversed"},
		{Tag: "nodewire", Staked: true, Allowed: true, Ops: true, OpsFault: "revert"},
		{Tag: "nodewire", Staked: true, Allowed: true, Ops: true, OpsFault: "reject"},
	}
	if vh.Thorough() {
		scs = append(scs, in{Tag: "nodewire", Staked: false, Allowed: false, Ops: true}, in{Tag: "nodewire", Staked: true, Allowed: true},
			in{Tag: "nodewire", Staked: true, Allowed: true, BidShape: "zero-amount"}, in{Tag: "nodewire", Staked: true, Allowed: true, BidShape: "no-hash"},
			in{Tag: "nodewire", Staked: true, Allowed: false, Engine: "reject"})
	}
	// every scenario builds its own pair of nodes on its own ports: run them side by side
	res := make([]obs, len(scs))
	rngs := make([]*vh.Rng, len(scs))
	for i := range scs {
		rngs[i] = vh.NewRng(uint64(770 + i))
	}
	_ = rng
	var wg sync.WaitGroup
	for i := range scs {
		wg.Add(1)
		go func(i int) {
			defer wg.Done()
			runner := run
			if scs[i].Scene == "bootnode" {
				runner = runBoot
			}
			res[i] = runner(scs[i], rngs[i], cert, keyf)
			// a node that could not even be brought up (a port taken by another process in the
			// meantime, a slow machine): set the scenario up again before reporting anything
			for try := 0; try < 3 && !res[i].Started; try++ {
				time.Sleep(time.Duration(200*(try+1)) * time.Millisecond)
				res[i] = runner(scs[i], vh.NewRng(uint64(770+i+100*(try+1))), cert, keyf)
			}
		}(i)
	}
	wg.Wait()
	for i := range scs {
		out.Emit(scs[i], res[i])
	}
}

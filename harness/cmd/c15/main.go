// C15 correspondence driver: the real topology.Topology wired to the real discovery.Discovery
// (as announcer), over a scripted p2p service (address book, Connect, recording streams).
// Case = event list (connected / add / disconnected / gossip); observation after each event =
// reported provider and bidder sets, IsConnected answers, PeerList messages sent, dials made.
package main

import (
	"context"
	"encoding/json"
	"errors"
	"fmt"
	"math/big"
	"sort"
	"sync"
	"time"

	"github.com/ethereum/go-ethereum/common"
	discoverypb "github.com/primevprotocol/mev-commit/gen/go/discovery/v1"
	"github.com/primevprotocol/mev-commit/pkg/discovery"
	"github.com/primevprotocol/mev-commit/pkg/p2p"
	"github.com/primevprotocol/mev-commit/pkg/topology"
	"google.golang.org/protobuf/proto"
	"verif/harness/vh"
)

type JPeer struct {
	Addr uint64 `json:"addr"`
	Role int    `json:"role"`
}
type JEntry struct {
	Claimed uint64 `json:"claimed"`
	Connect *JPeer `json:"connect"` // null: dial/handshake fails
}
type JEv struct {
	T          string   `json:"t"` // connected | add | disconnected | gossip
	P          *JPeer   `json:"p,omitempty"`
	Ps         []JPeer  `json:"ps,omitempty"`
	LookupFail []uint64 `json:"lookup_fail,omitempty"`
	Entries    []JEntry `json:"entries,omitempty"`
	// connected: the next event (a disconnect of the same peer) arrives while this peer's
	// announcement is still in flight (its first stream is being opened)
	OverlapNext bool `json:"overlap_next,omitempty"`
	// connected: the first stream this event opens takes this long to open (a peer behind a slow
	// link that stays connected); every later one opens at once
	SlowFirstMs int `json:"slow_first_ms,omitempty"`
	// gossip: every dial the list causes hangs this long (unreachable or unresponsive peers)
	// before it is answered
	GateHoldMs int `json:"gate_hold_ms,omitempty"`
	// connected: no stream can be opened during this event (the peers refuse the discovery
	// protocol, or are gone): nothing is announced, everything else goes on
	StreamFail bool `json:"stream_fail,omitempty"`
}
type In struct {
	Tag    string `json:"tag"`
	Events []JEv  `json:"events"`
}
type JBroadcast struct {
	To      JPeer    `json:"to"`
	Records []uint64 `json:"records"`
	BadRec  bool     `json:"bad_record,omitempty"` // a record whose underlay is not the address book's
}
type Step struct {
	Providers  []JPeer      `json:"providers"`
	Bidders    []JPeer      `json:"bidders"`
	Connected  []uint64     `json:"connected"` // addresses (of a fixed probe set) IsConnected says yes to
	Broadcasts []JBroadcast `json:"broadcasts"`
	Dialled    []uint64     `json:"dialled"`
}
type Obs struct {
	Steps []Step `json:"steps"`
	Panic bool   `json:"panic"`
	Note  string `json:"note,omitempty"`
}

func addr(a uint64) common.Address   { return common.BigToAddress(new(big.Int).SetUint64(a)) }
func unaddr(a common.Address) uint64 { return new(big.Int).SetBytes(a.Bytes()).Uint64() }
func peerOf(j JPeer) p2p.Peer        { return p2p.Peer{EthAddress: addr(j.Addr), Type: p2p.PeerType(j.Role)} }
func jpeer(p p2p.Peer) JPeer         { return JPeer{unaddr(p.EthAddress), int(p.Type)} }

type svc struct {
	mu         sync.Mutex
	lookupFail map[uint64]bool
	broadcasts []JBroadcast
	dialled    []uint64
	answers    map[string]*JPeer // underlay -> Connect answer
	claimedOf  map[string]uint64
	gate       chan struct{}
	done       sync.WaitGroup
	strArmed   bool
	streamFail bool
	slowMs     int
	strHit     chan struct{}
	strRel     chan struct{}
}

func underlay(a uint64) []byte { return []byte(fmt.Sprintf("underlay-of-%d", a)) }

func (s *svc) GetPeerInfo(p p2p.Peer) ([]byte, error) {
	s.mu.Lock()
	defer s.mu.Unlock()
	a := unaddr(p.EthAddress)
	if s.lookupFail[a] {
		return nil, errors.New("no such peer")
	}
	return underlay(a), nil
}

type recStream struct {
	s     *svc
	to    p2p.Peer
	wrote bool
}

func (r *recStream) ReadMsg(context.Context, proto.Message) error { return errors.New("not used") }
func (r *recStream) WriteMsg(_ context.Context, m proto.Message) error {
	pl, ok := m.(*discoverypb.PeerList)
	if !ok {
		return errors.New("unexpected message")
	}
	if r.wrote {
		// the peer's discovery handler reads ONE list per stream: anything written after it is lost
		return nil
	}
	r.wrote = true
	b := JBroadcast{To: jpeer(r.to), Records: []uint64{}}
	for _, pi := range pl.Peers {
		a := unaddr(common.BytesToAddress(pi.EthAddress))
		b.Records = append(b.Records, a)
		if string(pi.Underlay) != string(underlay(a)) {
			b.BadRec = true
		}
	}
	sort.Slice(b.Records, func(i, j int) bool { return b.Records[i] < b.Records[j] })
	r.s.mu.Lock()
	r.s.broadcasts = append(r.s.broadcasts, b)
	r.s.mu.Unlock()
	return nil
}
func (r *recStream) Reset() error { return nil }
func (r *recStream) Close() error { return nil }

func (s *svc) NewStream(ctx context.Context, p p2p.Peer, _ p2p.Header, _ p2p.StreamDesc) (p2p.Stream, error) {
	s.mu.Lock()
	armed, hit, rel := s.strArmed, s.strHit, s.strRel
	s.strArmed = false
	slow := s.slowMs
	s.slowMs = 0
	fail := s.streamFail
	s.mu.Unlock()
	if fail {
		return nil, errors.New("protocols not supported")
	}
	// as the node's host does: a stream is not opened on behalf of a context that is over
	if slow > 0 {
		select {
		case <-time.After(time.Duration(slow) * time.Millisecond):
		case <-ctx.Done():
		}
	}
	if ctx.Err() != nil {
		return nil, ctx.Err()
	}
	if armed { // one-shot gate: the announcement is held while the harness delivers another event
		close(hit)
		select {
		case <-rel:
		case <-time.After(2 * time.Second):
		}
	}
	return &recStream{s: s, to: p}, nil
}
func (s *svc) Connect(_ context.Context, info []byte) (p2p.Peer, error) {
	defer s.done.Done()
	s.mu.Lock()
	gate := s.gate
	s.dialled = append(s.dialled, s.claimedOf[string(info)])
	ans := s.answers[string(info)]
	s.mu.Unlock()
	<-gate
	if ans == nil {
		return p2p.Peer{}, errors.New("unreachable")
	}
	return peerOf(*ans), nil
}

// counting wrapper around the real topology, as seen by discovery
type topoWrap struct {
	*topology.Topology
	added sync.WaitGroup
}

func (t *topoWrap) AddPeers(ps ...p2p.Peer) { t.Topology.AddPeers(ps...); t.added.Done() }

type listStream struct{ list *discoverypb.PeerList }

func (l *listStream) ReadMsg(_ context.Context, m proto.Message) error {
	proto.Merge(m, l.list)
	return nil
}
func (l *listStream) WriteMsg(context.Context, proto.Message) error { return nil }
func (l *listStream) Reset() error                                  { return nil }
func (l *listStream) Close() error                                  { return nil }

var probe = []uint64{1, 2, 3, 4, 5, 6, 7, 8, 9, 99}

func run(in In) (obs Obs) {
	obs.Steps = []Step{}
	defer func() {
		if r := recover(); r != nil {
			obs.Panic = true
		}
	}()
	s := &svc{lookupFail: map[uint64]bool{}, answers: map[string]*JPeer{}, claimedOf: map[string]uint64{}}
	topo := topology.New(s, vh.Quiet())
	tw := &topoWrap{Topology: topo}
	disc := discovery.New(tw, s, vh.Quiet())
	defer disc.Close()
	topo.SetAnnouncer(disc)
	handler := disc.Streams()[0].Handler
	views := func() Step {
		st := Step{Providers: []JPeer{}, Bidders: []JPeer{}, Connected: []uint64{}, Broadcasts: []JBroadcast{}, Dialled: []uint64{}}
		for _, p := range topo.GetPeers(topology.Query{Type: p2p.PeerTypeProvider}) {
			st.Providers = append(st.Providers, jpeer(p))
		}
		for _, p := range topo.GetPeers(topology.Query{Type: p2p.PeerTypeBidder}) {
			st.Bidders = append(st.Bidders, jpeer(p))
		}
		sort.Slice(st.Providers, func(a, b int) bool { return st.Providers[a].Addr < st.Providers[b].Addr })
		sort.Slice(st.Bidders, func(a, b int) bool { return st.Bidders[a].Addr < st.Bidders[b].Addr })
		for _, a := range probe {
			if topo.IsConnected(addr(a)) {
				st.Connected = append(st.Connected, a)
			}
		}
		return st
	}
	sortB := func(bs []JBroadcast) {
		sort.Slice(bs, func(a, b int) bool {
			x, y := bs[a], bs[b]
			if x.To.Addr != y.To.Addr {
				return x.To.Addr < y.To.Addr
			}
			return fmt.Sprint(x.Records) < fmt.Sprint(y.Records)
		})
	}
	skipNext := false
	for i, ev := range in.Events {
		if skipNext {
			skipNext = false
			continue
		}
		if ev.T == "connected" && ev.OverlapNext && i+1 < len(in.Events) && in.Events[i+1].T == "disconnected" {
			skipNext = true
			s.mu.Lock()
			s.broadcasts, s.dialled = nil, nil
			s.lookupFail = map[uint64]bool{}
			for _, a := range ev.LookupFail {
				s.lookupFail[a] = true
			}
			s.strArmed, s.strHit, s.strRel = true, make(chan struct{}), make(chan struct{})
			hitC, rel := s.strHit, s.strRel
			s.mu.Unlock()
			doneC := make(chan struct{})
			go func() { topo.Connected(peerOf(*ev.P)); close(doneC) }()
			hit := false
			select {
			case <-hitC:
				hit = true
			case <-doneC:
			}
			s.mu.Lock()
			s.strArmed = false
			s.mu.Unlock()
			st1 := views() // the view while the announcement is in flight (or after it, if nothing was to announce)
			topo.Disconnected(peerOf(*in.Events[i+1].P))
			st2 := views()
			if hit {
				close(rel)
				<-doneC
				// the view once the announcement finished must still be the one after the disconnect
				st3 := views()
				st2.Providers, st2.Bidders, st2.Connected = st3.Providers, st3.Bidders, st3.Connected
			}
			s.mu.Lock()
			st1.Broadcasts = append(st1.Broadcasts, s.broadcasts...)
			s.mu.Unlock()
			sortB(st1.Broadcasts)
			obs.Steps = append(obs.Steps, st1, st2)
			continue
		}
		s.mu.Lock()
		s.broadcasts, s.dialled = nil, nil
		s.lookupFail = map[uint64]bool{}
		for _, a := range ev.LookupFail {
			s.lookupFail[a] = true
		}
		s.slowMs = 0
		s.streamFail = ev.T == "connected" && ev.StreamFail
		if ev.T == "connected" {
			s.slowMs = ev.SlowFirstMs
		}
		s.mu.Unlock()
		switch ev.T {
		case "connected":
			topo.Connected(peerOf(*ev.P))
		case "add":
			var ps []p2p.Peer
			for _, p := range ev.Ps {
				ps = append(ps, peerOf(p))
			}
			topo.AddPeers(ps...)
		case "disconnected":
			topo.Disconnected(peerOf(*ev.P))
		case "gossip":
			pl := &discoverypb.PeerList{}
			s.mu.Lock()
			s.gate = make(chan struct{})
			gate := s.gate
			expectDial := 0
			expectAdd := 0
			for k, e := range ev.Entries {
				u := []byte(fmt.Sprintf("gossip-%d-%d-underlay", i, k))
				s.answers[string(u)] = e.Connect
				s.claimedOf[string(u)] = e.Claimed
				pl.Peers = append(pl.Peers, &discoverypb.PeerInfo{EthAddress: addr(e.Claimed).Bytes(), Underlay: u})
				if !topo.IsConnected(addr(e.Claimed)) {
					expectDial++
					if e.Connect != nil {
						expectAdd++
					}
				}
			}
			s.mu.Unlock()
			// upper bounds for the wait groups: if the implementation dials more or fewer, the
			// quiescence wait below times out and the observation shows what happened
			s.done.Add(len(ev.Entries))
			tw.added.Add(len(ev.Entries))
			// (with more entries than dial workers the handler itself waits for dials to finish)
			hdone := make(chan struct{})
			go func() {
				defer close(hdone)
				_ = handler(context.Background(), p2p.Peer{EthAddress: addr(1000), Type: p2p.PeerTypeBootnode}, &listStream{pl})
			}()
			if ev.GateHoldMs > 0 {
				time.Sleep(time.Duration(ev.GateHoldMs) * time.Millisecond)
			} else {
				<-hdone
			}
			close(gate)
			<-hdone
			// quiescence: every started dial finished and its AddPeers (if any) ran
			deadline := time.Now().Add(2 * time.Second)
			for time.Now().Before(deadline) {
				s.mu.Lock()
				n := len(s.dialled)
				s.mu.Unlock()
				if n >= expectDial {
					break
				}
				time.Sleep(time.Millisecond)
			}
			time.Sleep(3 * time.Millisecond)
			// settle the wait groups
			s.mu.Lock()
			started := len(s.dialled)
			s.mu.Unlock()
			for k := started; k < len(ev.Entries); k++ {
				s.done.Done()
			}
			s.done.Wait()
			time.Sleep(2 * time.Millisecond)
			_ = expectAdd
			tw.added = sync.WaitGroup{}
		}
		st := Step{Providers: []JPeer{}, Bidders: []JPeer{}, Connected: []uint64{}, Broadcasts: []JBroadcast{}, Dialled: []uint64{}}
		for _, p := range topo.GetPeers(topology.Query{Type: p2p.PeerTypeProvider}) {
			st.Providers = append(st.Providers, jpeer(p))
		}
		for _, p := range topo.GetPeers(topology.Query{Type: p2p.PeerTypeBidder}) {
			st.Bidders = append(st.Bidders, jpeer(p))
		}
		sort.Slice(st.Providers, func(a, b int) bool { return st.Providers[a].Addr < st.Providers[b].Addr })
		sort.Slice(st.Bidders, func(a, b int) bool { return st.Bidders[a].Addr < st.Bidders[b].Addr })
		for _, a := range probe {
			if topo.IsConnected(addr(a)) {
				st.Connected = append(st.Connected, a)
			}
		}
		s.mu.Lock()
		st.Broadcasts = append(st.Broadcasts, s.broadcasts...)
		st.Dialled = append(st.Dialled, s.dialled...)
		s.mu.Unlock()
		sort.Slice(st.Broadcasts, func(a, b int) bool {
			x, y := st.Broadcasts[a], st.Broadcasts[b]
			if x.To.Addr != y.To.Addr {
				return x.To.Addr < y.To.Addr
			}
			return fmt.Sprint(x.Records) < fmt.Sprint(y.Records)
		})
		sort.Slice(st.Dialled, func(a, b int) bool { return st.Dialled[a] < st.Dialled[b] })
		obs.Steps = append(obs.Steps, st)
	}
	return obs
}

func main() {
	out := vh.NewOut("C15")
	defer out.Close()
	rng := vh.NewRng(15)
	for _, raw := range vh.Corpus() {
		var in In
		if json.Unmarshal(raw, &in) == nil {
			out.Emit(in, run(in))
		}
	}
	if vh.OnlyReplay() {
		return
	}
	P := func(a uint64, r int) *JPeer { return &JPeer{a, r} }
	fixed := []In{
		{"first-provider-with-bidders", []JEv{{T: "connected", P: P(2, 2)}, {T: "connected", P: P(3, 2)}, {T: "connected", P: P(1, 1)}}},
		{"provider-lookups-fail", []JEv{{T: "connected", P: P(1, 1)}, {T: "connected", P: P(2, 2)}, {T: "connected", P: P(4, 1), LookupFail: []uint64{1}},
			{T: "connected", P: P(5, 1), LookupFail: []uint64{5}}}},
		{"gossip-lying-record", []JEv{{T: "connected", P: P(1, 1)}, {T: "gossip", Entries: []JEntry{{Claimed: 7, Connect: P(8, 1)}, {Claimed: 1, Connect: P(1, 1)}}},
			{T: "gossip", Entries: []JEntry{{Claimed: 8, Connect: P(8, 1)}, {Claimed: 7, Connect: P(7, 2)}}}}},
		{"same-address-two-roles", []JEv{{T: "connected", P: P(1, 1)}, {T: "connected", P: P(1, 2)}, {T: "disconnected", P: P(1, 1)}, {T: "connected", P: P(2, 1)}}},
		{"unknown-roles", []JEv{{T: "connected", P: P(1, 0)}, {T: "connected", P: P(2, -1)}, {T: "connected", P: P(3, 1)}, {T: "disconnected", P: P(3, 0)}, {T: "connected", P: P(4, 7)}}},
		{"reconnect", []JEv{{T: "connected", P: P(1, 1)}, {T: "disconnected", P: P(1, 1)}, {T: "connected", P: P(2, 2)}, {T: "connected", P: P(1, 1)}, {T: "connected", P: P(1, 1)}}},
	}
	// more providers than any batch, worker pool or buffer size the sources are likely to mention
	{
		var evs []JEv
		for a := uint64(20); a < 20+37; a++ {
			evs = append(evs, JEv{T: "connected", P: P(a, 1)})
			if a%9 == 0 {
				evs = append(evs, JEv{T: "connected", P: P(a+100, 2)})
			}
		}
		evs = append(evs, JEv{T: "connected", P: P(2, 2)}, JEv{T: "connected", P: P(1, 1)}, JEv{T: "disconnected", P: P(25, 1)}, JEv{T: "connected", P: P(3, 2)})
		fixed = append(fixed, In{"many-providers", evs})
	}
	// a peer disconnects while its own announcement is still going out
	fixed = append(fixed,
		In{"disconnect-during-announcement", []JEv{{T: "connected", P: P(1, 1)}, {T: "connected", P: P(2, 2)}, {T: "connected", P: P(3, 1), OverlapNext: true}, {T: "disconnected", P: P(3, 1)},
			{T: "connected", P: P(4, 2)}}},
		In{"disconnect-during-announcement", []JEv{{T: "connected", P: P(1, 1)}, {T: "connected", P: P(5, 2), OverlapNext: true}, {T: "disconnected", P: P(5, 2)}, {T: "connected", P: P(6, 1)}}},
		In{"disconnect-during-announcement", []JEv{{T: "connected", P: P(2, 2)}, {T: "connected", P: P(1, 1), OverlapNext: true}, {T: "disconnected", P: P(1, 1)}, {T: "connected", P: P(1, 1)}}},
		In{"disconnect-during-announcement", []JEv{{T: "connected", P: P(1, 1), OverlapNext: true}, {T: "disconnected", P: P(1, 1)}}},
	)
	// a peer behind a slow link: the first stream of its connection event takes longer than every
	// real-time bound the topology and discovery sources mention; it stays connected, and everyone
	// is still told what the property says they are told
	slows := []int{300}
	for _, ms := range vh.Timers("pkg/topology", "pkg/discovery") {
		d := ms + 800
		if ms == 0 {
			d = 6000
		}
		if d <= 25000 {
			slows = append(slows, d)
		}
	}
	for _, d := range slows {
		fixed = append(fixed,
			In{"slow-first-stream", []JEv{{T: "connected", P: P(1, 1)}, {T: "connected", P: P(2, 2)}, {T: "connected", P: P(3, 2)}, {T: "connected", P: P(4, 1), SlowFirstMs: d},
				{T: "connected", P: P(5, 2)}}},
			In{"slow-first-stream", []JEv{{T: "connected", P: P(2, 2)}, {T: "connected", P: P(3, 2)}, {T: "connected", P: P(4, 1), SlowFirstMs: d}, {T: "connected", P: P(6, 1)}}},
		)
	}
	// a gossiped list longer than the pool of dial workers, every dial hanging for a while (past
	// every real-time bound the sources mention); another list follows
	for _, d := range slows {
		var es []JEntry
		for a := uint64(30); a < 44; a++ {
			e := JEntry{Claimed: a, Connect: P(a, 1)}
			if a%5 == 0 {
				e.Connect = nil
			}
			es = append(es, e)
		}
		in := In{"gossip-longer-than-the-worker-pool", []JEv{{T: "connected", P: P(1, 1)}, {T: "gossip", Entries: es, GateHoldMs: d},
			{T: "gossip", Entries: []JEntry{{Claimed: 50, Connect: P(50, 2)}, {Claimed: 30, Connect: P(30, 1)}}}, {T: "connected", P: P(2, 2)}}}
		out.EmitGuarded(in, Obs{Panic: true, Steps: []Step{}}, func() (any, any) { return in, run(in) })
	}
	fixed = append(fixed,
		In{"streams-refused", []JEv{{T: "connected", P: P(1, 1)}, {T: "connected", P: P(2, 2)}, {T: "connected", P: P(3, 1), StreamFail: true}, {T: "connected", P: P(4, 2), StreamFail: true},
			{T: "connected", P: P(5, 1)}, {T: "disconnected", P: P(3, 1)}, {T: "connected", P: P(6, 2)}}},
		In{"streams-refused", []JEv{{T: "connected", P: P(1, 1), StreamFail: true}, {T: "connected", P: P(2, 1), StreamFail: true}, {T: "connected", P: P(3, 2)}}},
	)
	for _, in := range fixed {
		in := in
		out.EmitGuarded(in, Obs{Panic: true, Steps: []Step{}}, func() (any, any) { return in, run(in) })
	}
	roles := []int{1, 1, 1, 2, 2, 2, 0, -1}
	for i := 0; i < vh.Count(400, 6000); i++ {
		var evs []JEv
		n := 2 + rng.Intn(vh.Count(14, 40))
		for j := 0; j < n; j++ {
			p := P(uint64(1+rng.Intn(8)), roles[rng.Intn(len(roles))])
			switch r := rng.Intn(100); {
			case r < 45:
				ev := JEv{T: "connected", P: p}
				for k := 0; k < 3; k++ {
					if rng.Chance(15) {
						ev.LookupFail = append(ev.LookupFail, uint64(1+rng.Intn(8)))
					}
				}
				evs = append(evs, ev)
			case r < 55:
				ev := JEv{T: "add"}
				for k := 0; k < 1+rng.Intn(3); k++ {
					ev.Ps = append(ev.Ps, *P(uint64(1+rng.Intn(8)), roles[rng.Intn(len(roles))]))
				}
				evs = append(evs, ev)
			case r < 80:
				if rng.Chance(25) && (p.Role == 1 || p.Role == 2) {
					// connects and is gone again before its announcement went out
					evs = append(evs, JEv{T: "connected", P: p, OverlapNext: true})
				}
				evs = append(evs, JEv{T: "disconnected", P: p})
			default:
				ev := JEv{T: "gossip"}
				for k := 0; k < 1+rng.Intn(5); k++ {
					e := JEntry{Claimed: uint64(1 + rng.Intn(9))}
					switch rng.Intn(4) {
					case 0: // unreachable
					case 1: // proven identity differs from the claim
						e.Connect = P(uint64(1+rng.Intn(9)), roles[rng.Intn(len(roles))])
					default:
						e.Connect = P(e.Claimed, roles[rng.Intn(len(roles))])
					}
					ev.Entries = append(ev.Entries, e)
				}
				evs = append(evs, ev)
			}
		}
		in := In{"random", evs}
		out.Emit(in, run(in))
	}
}

// C10 correspondence driver: the real EvmClient.CancelTx over a scripted chain node.
// Case = (was the target sent through this client first?, what TransactionByHash answers,
// suggested tip or failure, sign/send faults).  Observation = result + every transaction
// handed to SendTransaction during the cancel call (decoded from the signed raw tx).
package main

import (
	"context"
	"encoding/json"
	"math/big"
	"sync"

	"github.com/ethereum/go-ethereum"
	"github.com/ethereum/go-ethereum/common"
	"github.com/ethereum/go-ethereum/core/types"
	"github.com/primevprotocol/mev-commit/pkg/evmclient"
	"github.com/primevprotocol/mev-commit/pkg/evmclient/mockevm"
	"verif/harness/vh"
)

type Lookup struct {
	Kind     string `json:"kind"`   // err | notfound | mined | pending
	TxType   string `json:"txtype"` // dynamic | legacy
	Nonce    uint64 `json:"nonce"`
	GasPrice string `json:"gasprice"` // what tx.GasPrice() reports
	FeeCap   string `json:"feecap"`
	Tip      string `json:"tip"`
}
type In struct {
	Tag        string `json:"tag"`
	Tracked    bool   `json:"tracked"` // target was submitted through this client's Send first
	Lookup     Lookup `json:"lookup"`
	SuggestErr bool   `json:"suggest_err"`
	Suggest    string `json:"suggest"`
	SignOK     bool   `json:"sign_ok"`
	SendOK     bool   `json:"send_ok"`
	ChainID    uint64 `json:"chainid"`
	// the target is itself a cancellation this client made earlier: a transaction with the caps of
	// Orig was sent through the client and cancelled while the node suggested PriorSuggest; the
	// replacement the client submitted then is what the node now reports (Lookup is filled in from
	// it by the harness) and what the measured call is asked to cancel
	PriorCancel  bool    `json:"prior_cancel,omitempty"`
	Orig         *Lookup `json:"orig,omitempty"`
	PriorSuggest string  `json:"prior_suggest,omitempty"`
}
type Repl struct {
	Nonce   uint64 `json:"nonce"`
	ChainID string `json:"chainid"`
	ToSelf  bool   `json:"to_self"`
	Value   string `json:"value"`
	DataLen int    `json:"datalen"`
	Gas     uint64 `json:"gas"`
	Tip     string `json:"tip"`
	FeeCap  string `json:"feecap"`
}
type Obs struct {
	OK        bool   `json:"ok"`
	Submitted []Repl `json:"submitted"`
	Panic     bool   `json:"panic"`
}

func run(inp *In, rng *vh.Rng) (obs Obs) {
	in := *inp
	defer func() { *inp = in }()
	var r1 *types.Transaction
	capture := false
	if in.PriorCancel {
		in.Lookup = *in.Orig
		in.Lookup.Kind = "pending"
	}
	obs.Submitted = []Repl{}
	ks := vh.NewKeySigner(rng)
	owner := ks.GetAddress()
	var mu sync.Mutex
	recording := false
	sendOK := true
	var target *types.Transaction
	mk := func(nonce uint64) *types.Transaction {
		to := common.HexToAddress("0xc0ffee")
		if in.Lookup.TxType == "legacy" {
			return types.NewTx(&types.LegacyTx{Nonce: nonce, To: &to, Gas: 50000, GasPrice: vh.Big(in.Lookup.GasPrice), Value: big.NewInt(5)})
		}
		return types.NewTx(&types.DynamicFeeTx{Nonce: nonce, ChainID: new(big.Int).SetUint64(in.ChainID), To: &to, Gas: 50000,
			GasFeeCap: vh.Big(in.Lookup.FeeCap), GasTipCap: vh.Big(in.Lookup.Tip), Value: big.NewInt(5), Data: []byte{1, 2}})
	}
	evm := mockevm.NewMockEvm(in.ChainID,
		mockevm.WithPendingNonceAtFunc(func(context.Context, common.Address) (uint64, error) { return in.Lookup.Nonce, nil }),
		mockevm.WithEstimateGasFunc(func(context.Context, ethereum.CallMsg) (uint64, error) { return 50000, nil }),
		mockevm.WithSuggestGasPriceFunc(func(context.Context) (*big.Int, error) { return vh.Big(in.Lookup.FeeCap), nil }),
		mockevm.WithSuggestGasTipCapFunc(func(context.Context) (*big.Int, error) {
			mu.Lock()
			defer mu.Unlock()
			if recording && in.SuggestErr {
				return nil, vh.ErrInjected
			}
			if capture {
				return vh.Big(in.PriorSuggest), nil
			}
			if !recording {
				return vh.Big(in.Lookup.Tip), nil
			}
			return vh.Big(in.Suggest), nil
		}),
		mockevm.WithSendTransactionFunc(func(_ context.Context, tx *types.Transaction) error {
			mu.Lock()
			defer mu.Unlock()
			if capture {
				r1 = tx
			}
			if !recording {
				return nil
			}
			r := Repl{Nonce: tx.Nonce(), ChainID: vh.BigStr(tx.ChainId()), Value: vh.BigStr(tx.Value()), DataLen: len(tx.Data()),
				Gas: tx.Gas(), Tip: vh.BigStr(tx.GasTipCap()), FeeCap: vh.BigStr(tx.GasFeeCap())}
			if tx.To() != nil {
				r.ToSelf = *tx.To() == owner
			}
			if from, err := types.Sender(types.NewLondonSigner(new(big.Int).SetUint64(in.ChainID)), tx); err != nil || from != owner {
				r.ChainID = "bad-signature-or-chain"
			}
			obs.Submitted = append(obs.Submitted, r)
			if !sendOK {
				return vh.ErrInjected
			}
			return nil
		}),
		mockevm.WithTransactionByHashFunc(func(_ context.Context, h common.Hash) (*types.Transaction, bool, error) {
			switch in.Lookup.Kind {
			case "err":
				return nil, false, vh.ErrInjected
			case "notfound":
				return nil, false, ethereum.NotFound
			case "mined":
				return target, false, nil
			}
			return target, true, nil
		}),
	)
	c, err := evmclient.New(ks, evm, vh.Quiet())
	if err != nil {
		panic(err)
	}
	defer c.Close()
	var hash common.Hash
	if in.Tracked && in.Lookup.TxType != "legacy" {
		// submit the target through the client itself so that it is in its pending list
		to := common.HexToAddress("0xc0ffee")
		h, err := c.Send(context.Background(), &evmclient.TxRequest{To: &to, CallData: []byte{1, 2}, Value: big.NewInt(5),
			GasLimit: 50000, GasPrice: vh.Big(in.Lookup.FeeCap)})
		if err != nil {
			panic("pre-send failed: " + err.Error())
		}
		hash = h
		// the node's view of that very transaction (same nonce/caps as scripted)
		target = mk(in.Lookup.Nonce)
	} else {
		target = mk(in.Lookup.Nonce)
		hash = target.Hash()
	}
	if in.PriorCancel {
		mu.Lock()
		capture = true
		mu.Unlock()
		if _, err := c.CancelTx(context.Background(), hash); err != nil || r1 == nil {
			panic("prior cancel failed")
		}
		mu.Lock()
		capture = false
		mu.Unlock()
		target, hash = r1, r1.Hash()
		in.Lookup = Lookup{Kind: inp.Lookup.Kind, TxType: "dynamic", Nonce: r1.Nonce(), GasPrice: r1.GasPrice().String(),
			FeeCap: r1.GasFeeCap().String(), Tip: r1.GasTipCap().String()}
	}
	mu.Lock()
	recording = true
	sendOK = in.SendOK
	mu.Unlock()
	ks.FailSignTx.Store(!in.SignOK)
	defer func() {
		if r := recover(); r != nil {
			obs.Panic = true
		}
	}()
	_, err = c.CancelTx(context.Background(), hash)
	mu.Lock()
	recording = false
	mu.Unlock()
	obs.OK = err == nil
	return obs
}

func main() {
	out := vh.NewOut("C10")
	defer out.Close()
	rng := vh.NewRng(10)
	for _, raw := range vh.Corpus() {
		var in In
		if json.Unmarshal(raw, &in) == nil {
			o := run(&in, rng)
			out.Emit(in, o)
		}
	}
	if vh.OnlyReplay() {
		return
	}
	two := func(k uint) *big.Int { return new(big.Int).Lsh(big.NewInt(1), k) }
	edge := []*big.Int{big.NewInt(0), big.NewInt(1), big.NewInt(7), big.NewInt(9), big.NewInt(10), big.NewInt(11), big.NewInt(50), big.NewInt(99),
		big.NewInt(100), big.NewInt(101), big.NewInt(150), big.NewInt(1234567899), big.NewInt(1000000000), big.NewInt(2000000000),
		new(big.Int).Sub(two(64), big.NewInt(1)), two(64), new(big.Int).Add(two(64), big.NewInt(1)), new(big.Int).Add(two(70), big.NewInt(99)),
		new(big.Int).Sub(two(256), big.NewInt(1))}
	pick := func() *big.Int {
		if rng.Chance(70) {
			return edge[rng.Intn(len(edge))]
		}
		return new(big.Int).SetBytes(rng.Bytes(1 + rng.Intn(12)))
	}
	kinds := []string{"err", "notfound", "mined", "pending", "pending", "pending"}
	n := vh.Count(1500, 30000)
	for i := 0; i < n; i++ {
		tip, sugg := pick(), pick()
		fee := pick()
		if fee.Cmp(tip) < 0 { // a well-formed dynamic tx has feeCap >= tip (go-ethereum does not enforce it here, keep both kinds)
			if rng.Chance(80) {
				fee = new(big.Int).Add(tip, pick())
			}
		}
		in := In{Tracked: rng.Chance(40), SignOK: !rng.Chance(10), SendOK: !rng.Chance(10), SuggestErr: rng.Chance(8),
			ChainID: []uint64{1, 17864, 31337}[rng.Intn(3)], Suggest: sugg.String()}
		in.Lookup = Lookup{Kind: kinds[rng.Intn(len(kinds))], TxType: "dynamic", Nonce: []uint64{0, 1, 5, 1000}[rng.Intn(4)],
			FeeCap: fee.String(), Tip: tip.String(), GasPrice: fee.String()}
		if rng.Chance(10) {
			in.Lookup.TxType = "legacy"
			in.Lookup.GasPrice = fee.String()
			in.Lookup.Tip = fee.String()
			in.Lookup.FeeCap = fee.String()
		}
		in.Tag = in.Lookup.Kind
		if in.Tracked && in.Lookup.TxType != "legacy" {
			in.Tag += "+tracked"
		}
		o := run(&in, rng)
		out.Emit(in, o)
		if i%6 == 2 && in.Lookup.TxType == "dynamic" && fee.BitLen() < 200 && tip.BitLen() < 200 && sugg.BitLen() < 200 {
			// cancel a cancellation: the same client first cancels a transaction of its own, the
			// replacement stays pending, and is then cancelled in turn (fees may have moved meanwhile)
			orig := in.Lookup
			orig.Kind = "pending"
			in2 := In{Tag: "cancel-of-a-cancellation", Tracked: true, PriorCancel: true, Orig: &orig, PriorSuggest: pick().String(),
				Suggest: sugg.String(), SignOK: true, SendOK: true, ChainID: in.ChainID, Lookup: Lookup{Kind: []string{"pending", "pending", "mined"}[rng.Intn(3)]}}
			if new(big.Int).SetBytes(nil).Cmp(vh.Big(in2.PriorSuggest)) == 0 || vh.Big(in2.PriorSuggest).BitLen() > 200 {
				in2.PriorSuggest = "1000000000"
			}
			o2 := run(&in2, rng)
			out.Emit(in2, o2)
		}
	}
}

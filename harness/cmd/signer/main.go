// Correspondence driver for the signer family (C02, C03; C06 re-uses the C02 stream).
// Real preconfsigner over a real key.  Primitive answers (recover / low-S verify / address)
// are computed here directly from go-ethereum — never through repository code — and handed to
// the Lean model, which recomputes every hash itself with its own Keccak.
package main

import (
	"bytes"
	"encoding/hex"
	"encoding/json"
	"fmt"
	"math/big"
	"os"
	"strings"
	"sync"

	"github.com/ethereum/go-ethereum/common/math"
	"github.com/ethereum/go-ethereum/crypto"
	"github.com/ethereum/go-ethereum/signer/core/apitypes"
	preconfpb "github.com/primevprotocol/mev-commit/gen/go/preconfirmation/v1"
	"github.com/primevprotocol/mev-commit/pkg/signer/preconfsigner"
	"verif/harness/vh"
)

type JBid struct {
	TxHash    string  `json:"txhash"` // hex of the raw string bytes
	Amount    string  `json:"amount"` // hex of the raw string bytes
	Block     int64   `json:"block"`
	Start     int64   `json:"start"`
	End       int64   `json:"end"`
	Digest    *string `json:"digest"` // hex or null (nil slice)
	Signature *string `json:"signature"`
}
type JCommit struct {
	Bid       *JBid   `json:"bid"`
	Digest    *string `json:"digest"`
	Signature *string `json:"signature"`
}
type Prim struct {
	Hash string  `json:"hash"`
	Sig  string  `json:"sig"` // normalised signature handed to recover
	Pub  *string `json:"pub"` // recovered uncompressed key, null if recovery fails
	LowS bool    `json:"lows"`
	Addr string  `json:"addr"`
}
type In struct {
	Tag       string   `json:"tag"`
	Kind      string   `json:"kind"` // bid | commit | build-bid | build-commit | hash-bid | hash-commit
	Bid       *JBid    `json:"bid,omitempty"`
	Commit    *JCommit `json:"commit,omitempty"`
	Prims     []Prim   `json:"prims"`
	Perturbed bool     `json:"perturbed"`           // value-changing perturbation of a valid message
	BaseAddr  string   `json:"base_addr,omitempty"` // address the unperturbed message verifies to
	OwnAddr   string   `json:"own_addr,omitempty"`  // build-*: the node's own address
	APITypes  string   `json:"apitypes,omitempty"`  // hash-*: digest by go-ethereum's generic EIP-712
	// hash-*: right before the measured call the same long-lived signer, on the same goroutine, was
	// asked for something it refuses: "construct:<amount>" or "verify:<amount>"
	AfterRefused string `json:"after_refused,omitempty"`
	// the input embeds something the implementation itself produced in an earlier step (the signed
	// bid of a hash-commit case): when that step was already wrong this case fails as a consequence
	// and does not replay on its own; the check prefers underived cases for its replay file
	Derived bool `json:"derived,omitempty"`
}
type Obs struct {
	Outcome string `json:"outcome"` // ok | err | panic
	Addr    string `json:"addr,omitempty"`
	Digest  string `json:"digest,omitempty"`
	Sig     string `json:"sig,omitempty"`
	// build-*: what verifying the node's own message returned
	SelfOutcome string `json:"self_outcome,omitempty"`
	SelfAddr    string `json:"self_addr,omitempty"`
}

func hx(b []byte) string { return hex.EncodeToString(b) }
func hp(b []byte) *string {
	if b == nil {
		return nil
	}
	s := hx(b)
	return &s
}
func unhex(s *string) []byte {
	if s == nil {
		return nil
	}
	b, _ := hex.DecodeString(*s)
	if b == nil {
		b = []byte{}
	}
	return b
}
func toJ(b *preconfpb.Bid) *JBid {
	if b == nil {
		return nil
	}
	return &JBid{hx([]byte(b.TxHash)), hx([]byte(b.BidAmount)), b.BlockNumber, b.DecayStartTimestamp, b.DecayEndTimestamp, hp(b.Digest), hp(b.Signature)}
}
func fromJ(j *JBid) *preconfpb.Bid {
	if j == nil {
		return nil
	}
	tx, _ := hex.DecodeString(j.TxHash)
	am, _ := hex.DecodeString(j.Amount)
	return &preconfpb.Bid{TxHash: string(tx), BidAmount: string(am), BlockNumber: j.Block, DecayStartTimestamp: j.Start,
		DecayEndTimestamp: j.End, Digest: unhex(j.Digest), Signature: unhex(j.Signature)}
}
func toJC(c *preconfpb.PreConfirmation) *JCommit {
	return &JCommit{toJ(c.Bid), hp(c.Digest), hp(c.Signature)}
}
func fromJC(j *JCommit) *preconfpb.PreConfirmation {
	return &preconfpb.PreConfirmation{Bid: fromJ(j.Bid), Digest: unhex(j.Digest), Signature: unhex(j.Signature)}
}

// primitive answers for (hash, signature as presented)
func prim(hash, sig []byte) Prim {
	n := append([]byte(nil), sig...)
	if len(n) > 0 && n[len(n)-1] >= 27 && n[len(n)-1] <= 28 {
		n[len(n)-1] -= 27
	}
	p := Prim{Hash: hx(hash), Sig: hx(n)}
	func() {
		defer func() { recover() }()
		pub, err := crypto.SigToPub(hash, n)
		if err != nil {
			return
		}
		pb := crypto.FromECDSAPub(pub)
		s := hx(pb)
		p.Pub = &s
		p.Addr = hx(crypto.PubkeyToAddress(*pub).Bytes())
		if len(n) >= 64 {
			p.LowS = crypto.VerifySignature(pb, hash, n[:64])
		}
	}()
	return p
}

func verifyBid(s preconfsigner.Signer, b *preconfpb.Bid) (o Obs) {
	defer func() {
		if r := recover(); r != nil {
			o = Obs{Outcome: "panic"}
		}
	}()
	a, err := s.VerifyBid(b)
	if err != nil {
		return Obs{Outcome: "err"}
	}
	return Obs{Outcome: "ok", Addr: hx(a.Bytes())}
}
func verifyCommit(s preconfsigner.Signer, c *preconfpb.PreConfirmation) (o Obs) {
	defer func() {
		if r := recover(); r != nil {
			o = Obs{Outcome: "panic"}
		}
	}()
	a, err := s.VerifyPreConfirmation(c)
	if err != nil {
		return Obs{Outcome: "err"}
	}
	return Obs{Outcome: "ok", Addr: hx(a.Bytes())}
}

func bidPrims(b *preconfpb.Bid) []Prim {
	if b == nil || b.Digest == nil || b.Signature == nil {
		return []Prim{}
	}
	return []Prim{prim(b.Digest, b.Signature)}
}

var secpN, _ = new(big.Int).SetString("FFFFFFFFFFFFFFFFFFFFFFFFFFFFFFFEBAAEDCE6AF48A03BBFD25E8CD0364141", 16)

func cloneBid(b *preconfpb.Bid) *preconfpb.Bid {
	c := *b
	nb := &preconfpb.Bid{TxHash: c.TxHash, BidAmount: c.BidAmount, BlockNumber: c.BlockNumber, DecayStartTimestamp: c.DecayStartTimestamp,
		DecayEndTimestamp: c.DecayEndTimestamp}
	if b.Digest != nil {
		nb.Digest = append([]byte{}, b.Digest...)
	}
	if b.Signature != nil {
		nb.Signature = append([]byte{}, b.Signature...)
	}
	return nb
}

type gen struct {
	rng *vh.Rng
}

func (g *gen) txHash() string {
	r := g.rng
	one := func() string { return hx(r.Bytes(32)) }
	switch r.Intn(10) {
	case 0:
		return one() + "," + one()
	case 1:
		return one() + "," + one() + "," + one()
	case 2:
		return "0x" + one()
	case 3:
		return string(r.Bytes(1 + r.Intn(40))) // arbitrary bytes incl. invalid UTF-8
	case 4:
		return "héllo wörld ☃"
	case 5:
		n := 1 + r.Intn(vh.Count(300, 4096))
		b := make([]byte, n)
		for i := range b {
			b[i] = "0123456789abcdef,"[r.Intn(17)]
		}
		return string(b)
	case 6:
		return "AABBCC" + one()[:58]
	default:
		return one()
	}
}

var two = func(k uint) *big.Int { return new(big.Int).Lsh(big.NewInt(1), k) }

func (g *gen) amount(inDomain bool) string {
	r := g.rng
	edge := []*big.Int{big.NewInt(1), big.NewInt(2), big.NewInt(1000), new(big.Int).Sub(two(63), big.NewInt(1)), two(63),
		new(big.Int).Add(two(63), big.NewInt(1)), new(big.Int).Sub(two(64), big.NewInt(1))}
	if !inDomain {
		edge = append(edge, big.NewInt(0), two(64), new(big.Int).Sub(two(256), big.NewInt(1)))
	}
	if r.Chance(70) {
		return edge[r.Intn(len(edge))].String()
	}
	return new(big.Int).SetBytes(r.Bytes(1 + r.Intn(8))).String()
}
func (g *gen) i63(inDomain bool) int64 {
	r := g.rng
	edge := []int64{1, 2, 1 << 31, 1<<63 - 1, 1<<62 + 12345}
	if !inDomain {
		edge = append(edge, 0)
	}
	if r.Chance(60) {
		return edge[r.Intn(len(edge))]
	}
	return int64(r.U64() >> (1 + uint(r.Intn(62))))
}

func apitypesBid(b *preconfpb.Bid, commit bool) string {
	amt, ok := new(big.Int).SetString(b.BidAmount, 10)
	if !ok {
		return ""
	}
	fields := []apitypes.Type{{Name: "txnHash", Type: "string"}, {Name: "bid", Type: "uint64"}, {Name: "blockNumber", Type: "uint64"},
		{Name: "decayStartTimeStamp", Type: "uint64"}, {Name: "decayEndTimeStamp", Type: "uint64"}}
	msg := apitypes.TypedDataMessage{"txnHash": b.TxHash, "bid": (*math.HexOrDecimal256)(amt),
		"blockNumber":         (*math.HexOrDecimal256)(big.NewInt(b.BlockNumber)),
		"decayStartTimeStamp": (*math.HexOrDecimal256)(big.NewInt(b.DecayStartTimestamp)),
		"decayEndTimeStamp":   (*math.HexOrDecimal256)(big.NewInt(b.DecayEndTimestamp))}
	name := "PreConfBid"
	if commit {
		name = "PreConfCommitment"
		fields = append(fields, apitypes.Type{Name: "bidHash", Type: "string"}, apitypes.Type{Name: "signature", Type: "string"})
		msg["bidHash"] = hex.EncodeToString(b.Digest)
		msg["signature"] = hex.EncodeToString(b.Signature)
	}
	td := apitypes.TypedData{
		Types:       apitypes.Types{"EIP712Domain": {{Name: "name", Type: "string"}, {Name: "version", Type: "string"}}, name: fields},
		PrimaryType: name,
		Domain:      apitypes.TypedDataDomain{Name: name, Version: "1"},
		Message:     msg,
	}
	h, _, err := apitypes.TypedDataAndHash(td)
	if err != nil {
		return "error:" + err.Error()
	}
	return hx(h)
}

func main() {
	prop := os.Getenv("VERIF_PROP")
	out := vh.NewOut(prop)
	defer out.Close()
	rng := vh.NewRng(2)
	g := &gen{rng}
	ks := vh.NewKeySigner(rng)
	s := preconfsigner.NewSigner(ks)
	other := preconfsigner.NewSigner(vh.NewKeySigner(rng))
	own := hx(ks.GetAddress().Bytes())

	refuse := func(spec string) {
		kind, bad, ok := strings.Cut(spec, ":")
		if !ok {
			return
		}
		if kind == "construct" {
			_, _ = s.ConstructSignedBid("ab", bad, 5, 6, 7)
			return
		}
		_, _ = s.VerifyBid(&preconfpb.Bid{TxHash: "ab", BidAmount: bad, BlockNumber: 5, DecayStartTimestamp: 6, DecayEndTimestamp: 7,
			Digest: rng.Bytes(32), Signature: rng.Bytes(65)})
		_, _ = s.VerifyPreConfirmation(&preconfpb.PreConfirmation{Bid: &preconfpb.Bid{TxHash: "ab", BidAmount: bad, BlockNumber: 5, Digest: rng.Bytes(32), Signature: rng.Bytes(65)},
			Digest: rng.Bytes(32), Signature: rng.Bytes(65)})
	}
	runCase := func(in In) {
		switch in.Kind {
		case "hash-bid":
			refuse(in.AfterRefused)
			b := fromJ(in.Bid)
			nb, err := s.ConstructSignedBid(b.TxHash, b.BidAmount, b.BlockNumber, b.DecayStartTimestamp, b.DecayEndTimestamp)
			o := Obs{Outcome: "err"}
			if err == nil {
				if d, err := preconfsigner.GetBidHash(nb); err == nil {
					o = Obs{Outcome: "ok", Digest: hx(nb.Digest), Sig: hx(nb.Signature)}
					if !bytes.Equal(d, nb.Digest) {
						o.Outcome = "signed-digest-differs-from-hash-function"
					}
				}
			}
			out.Emit(in, o)
		case "hash-commit":
			refuse(in.AfterRefused)
			o := Obs{Outcome: "err"}
			if c, err := s.ConstructPreConfirmation(fromJ(in.Bid)); err == nil {
				if d, err := preconfsigner.GetPreConfirmationHash(c); err == nil {
					o = Obs{Outcome: "ok", Digest: hx(c.Digest), Sig: hx(c.Signature)}
					if !bytes.Equal(d, c.Digest) {
						o.Outcome = "signed-digest-differs-from-hash-function"
					}
				}
			}
			out.Emit(in, o)
		case "bid":
			out.Emit(in, verifyBid(s, fromJ(in.Bid)))
		case "commit":
			out.Emit(in, verifyCommit(s, fromJC(in.Commit)))
		}
	}
	for _, raw := range vh.Corpus() {
		var in In
		if json.Unmarshal(raw, &in) == nil {
			runCase(in)
		}
	}
	if vh.OnlyReplay() {
		return
	}

	emitBid := func(tag string, b *preconfpb.Bid, perturbed bool, base string) {
		in := In{Tag: tag, Kind: "bid", Bid: toJ(b), Prims: bidPrims(b), Perturbed: perturbed, BaseAddr: base}
		out.Emit(in, verifyBid(s, b))
	}
	emitCommit := func(tag string, c *preconfpb.PreConfirmation, perturbed bool, base string) {
		prims := bidPrims(c.Bid)
		if c.Digest != nil && c.Signature != nil {
			prims = append(prims, prim(c.Digest, c.Signature))
		}
		in := In{Tag: tag, Kind: "commit", Commit: toJC(c), Prims: prims, Perturbed: perturbed, BaseAddr: base}
		out.Emit(in, verifyCommit(s, c))
	}

	if prop == "C03" {
		n := vh.Count(1500, 60000)
		for i := 0; i < n; i++ {
			tx := g.txHash()
			amt := g.amount(true)
			if i%9 == 4 { // decimal spellings with leading zeros (the schema member is the number)
				amt = []string{"010", "0644", "00012", "09", "0180", "0100", "01000000000000000000", "007"}[rng.Intn(8)]
			}
			blk, st, en := g.i63(true), g.i63(true), g.i63(true)
			refused := ""
			if i%7 == 3 {
				// a call the signer refuses (amount outside the domain), on the same long-lived signer
				// and goroutine, right before the measured one: it must leave nothing behind
				bad := []string{"not-a-number", "-5", "", "1e9", "115792089237316195423570985008687907853269984665640564039457584007913129639936"}[rng.Intn(5)]
				refused = []string{"construct:", "verify:"}[rng.Intn(2)] + bad
				refuse(refused)
			}
			b, err := s.ConstructSignedBid(tx, amt, blk, st, en)
			if err != nil {
				if i%9 == 4 && tx != "" && blk != 0 { // a spelling the node's own signing function refuses
					out.Emit(In{Tag: "hash-bid", Kind: "hash-bid", Bid: toJ(&preconfpb.Bid{TxHash: tx, BidAmount: amt, BlockNumber: blk, DecayStartTimestamp: st, DecayEndTimestamp: en}),
						Prims: []Prim{}}, Obs{Outcome: "err"})
				}
				continue
			}
			// the digest the signer put into the message it signed, which must also be what the
			// exported hashing function returns for that message
			d, err := preconfsigner.GetBidHash(b)
			o := Obs{Outcome: "ok", Digest: hx(b.Digest), Sig: hx(b.Signature)}
			if err != nil {
				o = Obs{Outcome: "err"}
			} else if !bytes.Equal(d, b.Digest) {
				o.Outcome = "signed-digest-differs-from-hash-function"
			}
			out.Emit(In{Tag: "hash-bid", Kind: "hash-bid", Bid: toJ(b), Prims: []Prim{}, APITypes: apitypesBid(b, false), AfterRefused: refused}, o)
			if refused != "" && i%2 == 0 {
				refuse(refused)
			} else {
				refused = ""
			}
			c, err := s.ConstructPreConfirmation(b)
			if err != nil {
				out.Emit(In{Tag: "hash-commit", Kind: "hash-commit", Bid: toJ(b), Prims: []Prim{}, Derived: true}, Obs{Outcome: "err"})
				continue
			}
			d2, err := preconfsigner.GetPreConfirmationHash(c)
			o = Obs{Outcome: "ok", Digest: hx(c.Digest), Sig: hx(c.Signature)}
			if err != nil {
				o = Obs{Outcome: "err"}
			} else if !bytes.Equal(d2, c.Digest) {
				o.Outcome = "signed-digest-differs-from-hash-function"
			}
			out.Emit(In{Tag: "hash-commit", Kind: "hash-commit", Bid: toJ(b), Prims: []Prim{}, APITypes: apitypesBid(b, true), AfterRefused: refused, Derived: true}, o)
			if i%6 != 0 {
				continue
			}
			// siblings through the same long-lived signer: the same bid with exactly one field
			// changed (a re-bid with a fresh decay window, another block, another amount ...)
			for k := 0; k < 5; k++ {
				amt, blk, st, en := b.BidAmount, b.BlockNumber, b.DecayStartTimestamp, b.DecayEndTimestamp
				tx2 := tx
				switch k {
				case 0:
					st = g.i63(true)
				case 1:
					en = g.i63(true)
				case 2:
					blk = g.i63(true)
				case 3:
					amt = g.amount(true)
				case 4:
					tx2 = g.txHash()
				}
				sb, err := s.ConstructSignedBid(tx2, amt, blk, st, en)
				if err != nil {
					continue
				}
				out.Emit(In{Tag: "hash-bid-sibling", Kind: "hash-bid", Bid: toJ(sb), Prims: []Prim{}, APITypes: apitypesBid(sb, false)},
					Obs{Outcome: "ok", Digest: hx(sb.Digest), Sig: hx(sb.Signature)})
			}
			// the same payload signed by another bidder, and the same bid with its recovery id
			// written 0/1: same bid digest, other signature bytes — the commitment must cover the
			// signature it is given
			for k := 0; k < 2; k++ {
				var ob *preconfpb.Bid
				if k == 0 {
					ob, err = other.ConstructSignedBid(tx, b.BidAmount, b.BlockNumber, b.DecayStartTimestamp, b.DecayEndTimestamp)
					if err != nil {
						continue
					}
				} else {
					ob = cloneBid(b)
					ob.Signature[64] -= 27
				}
				oc, err := s.ConstructPreConfirmation(ob)
				if err != nil {
					out.Emit(In{Tag: "hash-commit-same-digest", Kind: "hash-commit", Bid: toJ(ob), Prims: []Prim{}, Derived: true}, Obs{Outcome: "err"})
					continue
				}
				out.Emit(In{Tag: "hash-commit-same-digest", Kind: "hash-commit", Bid: toJ(ob), Prims: []Prim{}, APITypes: apitypesBid(ob, true), Derived: true},
					Obs{Outcome: "ok", Digest: hx(oc.Digest), Sig: hx(oc.Signature)})
			}
		}
		// many hashes computed at the same time (a provider handles every bid stream on its own
		// goroutine): each must be the digest of its own message
		{
			type pair struct {
				b *preconfpb.Bid
				c *preconfpb.PreConfirmation
			}
			var ps []pair
			for len(ps) < 48 {
				b, err := s.ConstructSignedBid(g.txHash(), g.amount(true), g.i63(true), g.i63(true), g.i63(true))
				if err != nil {
					continue
				}
				c, err := s.ConstructPreConfirmation(b)
				if err != nil {
					continue
				}
				ps = append(ps, pair{b, c})
			}
			wrongB := make([][]byte, len(ps))
			wrongC := make([][]byte, len(ps))
			var wmu sync.Mutex
			var wg sync.WaitGroup
			for w := 0; w < 16; w++ {
				wg.Add(1)
				go func(w int) {
					defer wg.Done()
					defer func() { recover() }()
					for it := 0; it < vh.Count(300, 3000); it++ {
						k := (w*7 + it*13) % len(ps)
						if d, err := preconfsigner.GetBidHash(ps[k].b); err != nil || !bytes.Equal(d, ps[k].b.Digest) {
							wmu.Lock()
							wrongB[k] = append([]byte{}, d...)
							wmu.Unlock()
						}
						if d, err := preconfsigner.GetPreConfirmationHash(ps[k].c); err != nil || !bytes.Equal(d, ps[k].c.Digest) {
							wmu.Lock()
							wrongC[k] = append([]byte{}, d...)
							wmu.Unlock()
						}
					}
				}(w)
			}
			wg.Wait()
			for k, p := range ps {
				ob := Obs{Outcome: "ok", Digest: hx(p.b.Digest), Sig: hx(p.b.Signature)}
				if wrongB[k] != nil {
					ob.Digest = hx(wrongB[k])
				}
				out.Emit(In{Tag: "hash-bid-concurrent", Kind: "hash-bid", Bid: toJ(p.b), Prims: []Prim{}, APITypes: apitypesBid(p.b, false), Derived: true}, ob)
				oc := Obs{Outcome: "ok", Digest: hx(p.c.Digest), Sig: hx(p.c.Signature)}
				if wrongC[k] != nil {
					oc.Digest = hx(wrongC[k])
				}
				out.Emit(In{Tag: "hash-commit-concurrent", Kind: "hash-commit", Bid: toJ(p.b), Prims: []Prim{}, APITypes: apitypesBid(p.b, true), Derived: true}, oc)
			}
		}
		// the two Solidity vectors of the repository's own TestHashing
		return
	}

	// ---- C02 (and C06's signer stream)
	n := vh.Count(250, 8000)
	for i := 0; i < n; i++ {
		signer := s
		ownAddr := own
		if rng.Chance(30) {
			signer = other
			ownAddr = ""
		}
		inDom := !rng.Chance(25)
		tx, amt, blk, st, en := g.txHash(), g.amount(inDom), g.i63(inDom), g.i63(inDom), g.i63(inDom)
		if rng.Chance(5) {
			blk = -blk
		}
		if blk == 0 {
			blk = 1
		}
		b, err := signer.ConstructSignedBid(tx, amt, blk, st, en)
		if err != nil {
			continue
		}
		if i%60 == 7 { // now and then a bid whose digest starts with a zero byte
			for t := 0; t < 4000 && b.Digest[0] != 0; t++ {
				if blk++; blk == 0 {
					blk = 1
				}
				if b2, err := signer.ConstructSignedBid(tx, amt, blk, st, en); err == nil {
					b = b2
				}
			}
		}
		// completeness: the node's own message verifies to its own address
		vo := verifyBid(s, b)
		base := vo.Addr
		bo := vo
		bo.SelfOutcome, bo.SelfAddr = vo.Outcome, vo.Addr
		out.Emit(In{Tag: "built-bid", Kind: "bid", Bid: toJ(b), Prims: bidPrims(b), OwnAddr: ownAddr}, bo)

		// value-changing single-field perturbations
		mut := func(tag string, f func(x *preconfpb.Bid)) {
			x := cloneBid(b)
			f(x)
			emitBid(tag, x, true, base)
		}
		mut("p-txhash", func(x *preconfpb.Bid) { x.TxHash = x.TxHash + "0" })
		mut("p-txhash-case", func(x *preconfpb.Bid) { x.TxHash = "F" + x.TxHash })
		if up := strings.ToUpper(b.TxHash); up != b.TxHash {
			mut("p-txhash-case-only", func(x *preconfpb.Bid) { x.TxHash = strings.ToUpper(x.TxHash) })
		} else if lo := strings.ToLower(b.TxHash); lo != b.TxHash {
			mut("p-txhash-case-only", func(x *preconfpb.Bid) { x.TxHash = strings.ToLower(x.TxHash) })
		}
		mut("p-amount", func(x *preconfpb.Bid) {
			v, _ := new(big.Int).SetString(x.BidAmount, 10)
			x.BidAmount = v.Add(v, big.NewInt(1)).String()
		})
		mut("p-amount-2^256", func(x *preconfpb.Bid) {
			v, _ := new(big.Int).SetString(x.BidAmount, 10)
			x.BidAmount = v.Add(v, two(256)).String()
		})
		mut("p-amount-neg", func(x *preconfpb.Bid) {
			v, _ := new(big.Int).SetString(x.BidAmount, 10)
			x.BidAmount = v.Sub(v, two(256)).String()
		})
		mut("p-amount-2^64", func(x *preconfpb.Bid) {
			v, _ := new(big.Int).SetString(x.BidAmount, 10)
			x.BidAmount = v.Add(v, two(64)).String()
		})
		mut("p-block", func(x *preconfpb.Bid) { x.BlockNumber++ })
		mut("p-start", func(x *preconfpb.Bid) { x.DecayStartTimestamp ^= 1 << uint(rng.Intn(63)) })
		mut("p-end", func(x *preconfpb.Bid) { x.DecayEndTimestamp-- })
		mut("p-swap-start-end", func(x *preconfpb.Bid) {
			if x.DecayStartTimestamp == x.DecayEndTimestamp {
				x.DecayEndTimestamp++
			} else {
				x.DecayStartTimestamp, x.DecayEndTimestamp = x.DecayEndTimestamp, x.DecayStartTimestamp
			}
		})
		mut("p-digest-bit", func(x *preconfpb.Bid) { x.Digest[rng.Intn(32)] ^= 1 << uint(rng.Intn(8)) })
		mut("p-digest-subst", func(x *preconfpb.Bid) {
			// digest of a different valid bid
			y, _ := signer.ConstructSignedBid(x.TxHash+"1", x.BidAmount, x.BlockNumber, x.DecayStartTimestamp, x.DecayEndTimestamp)
			x.Digest = y.Digest
		})
		// digests that are not 32 bytes but contain / extend to the real one
		mut("p-digest-junk-prefix", func(x *preconfpb.Bid) { x.Digest = append(rng.Bytes(1+rng.Intn(3)), x.Digest...) })
		mut("p-digest-junk-prefix", func(x *preconfpb.Bid) { x.Digest = append(rng.Bytes(32), x.Digest...) })
		mut("p-digest-junk-suffix", func(x *preconfpb.Bid) { x.Digest = append(append([]byte{}, x.Digest...), rng.Bytes(1+rng.Intn(32))...) })
		if b.Digest[0] == 0 {
			mut("p-digest-zero-stripped", func(x *preconfpb.Bid) { x.Digest = x.Digest[1:] })
		}
		mut("p-r-bit", func(x *preconfpb.Bid) { x.Signature[rng.Intn(32)] ^= 1 << uint(rng.Intn(8)) })
		mut("p-s-bit", func(x *preconfpb.Bid) { x.Signature[32+rng.Intn(32)] ^= 1 << uint(rng.Intn(8)) })
		mut("p-malleate", func(x *preconfpb.Bid) {
			sv := new(big.Int).SetBytes(x.Signature[32:64])
			sv.Sub(secpN, sv)
			copy(x.Signature[32:64], math.U256Bytes(sv))
			x.Signature[64] = 55 - x.Signature[64] // 27<->28
		})
		mut("p-v-flip", func(x *preconfpb.Bid) { x.Signature[64] = 55 - x.Signature[64] })
		// recovery bytes outside {0,1,27,28}: the same id plus a multiple of 27, plus 2, plus 4 ...
		for _, dv := range []int{27, 54, 81, 216, 2, 4, 35 - 27} {
			dv := dv
			mut("p-v-other", func(x *preconfpb.Bid) { x.Signature[64] = byte(int(x.Signature[64]) + dv) })
		}
		mut("p-multi", func(x *preconfpb.Bid) { x.BlockNumber += 7; x.TxHash += "ab"; x.DecayEndTimestamp += 3 })
		// a field changed, the digest recomputed for the new fields, the old signature kept
		for _, f := range []func(x *preconfpb.Bid){
			func(x *preconfpb.Bid) { x.BlockNumber++ },
			func(x *preconfpb.Bid) { x.TxHash = x.TxHash + "00" },
			func(x *preconfpb.Bid) { x.DecayEndTimestamp++ },
			func(x *preconfpb.Bid) {
				v, _ := new(big.Int).SetString(x.BidAmount, 10)
				x.BidAmount = v.Add(v, big.NewInt(999)).String()
			},
		} {
			f := f
			mut("p-field-redigest", func(x *preconfpb.Bid) {
				f(x)
				if d, err := preconfsigner.GetBidHash(x); err == nil {
					x.Digest = d
				}
			})
		}
		// value-preserving spellings (not perturbations of a value): only model agreement
		np := func(tag string, f func(x *preconfpb.Bid)) {
			x := cloneBid(b)
			f(x)
			emitBid(tag, x, false, "")
		}
		np("alias-leading-zero", func(x *preconfpb.Bid) { x.BidAmount = "0" + x.BidAmount })
		np("alias-plus", func(x *preconfpb.Bid) { x.BidAmount = "+" + x.BidAmount })
		np("alias-v", func(x *preconfpb.Bid) { x.Signature[64] -= 27 })
		np("amount-garbage", func(x *preconfpb.Bid) {
			x.BidAmount = []string{"", "abc", "1e3", " 1", "1 ", "0x10", "1_000", "-", "+", "١٢٣"}[rng.Intn(10)]
		})
		// length classes of digest and signature (every length 0..66 over the run), nil vs empty
		np("sig-len", func(x *preconfpb.Bid) {
			x.Signature = append([]byte{}, append(x.Signature, 1, 2)[:(i*7+rng.Intn(67))%67]...)
		})
		np("digest-len", func(x *preconfpb.Bid) { x.Digest = append([]byte{}, append(x.Digest, 1, 2)[:(i*5+rng.Intn(35))%35]...) })
		np("sig-nil", func(x *preconfpb.Bid) { x.Signature = nil })
		np("digest-nil", func(x *preconfpb.Bid) { x.Digest = nil })
		np("sig-empty", func(x *preconfpb.Bid) { x.Signature = []byte{} })

		// commitments
		if base == "" {
			continue
		}
		c, err := s.ConstructPreConfirmation(b)
		if err != nil {
			continue
		}
		co := verifyCommit(s, c)
		cbase := co.Addr
		co.SelfOutcome, co.SelfAddr = co.Outcome, co.Addr
		{
			prims := append(bidPrims(c.Bid), prim(c.Digest, c.Signature))
			out.Emit(In{Tag: "built-commit", Kind: "commit", Commit: toJC(c), Prims: prims, OwnAddr: own}, co)
		}
		cmut := func(tag string, perturbed bool, f func(x *preconfpb.PreConfirmation)) {
			x := &preconfpb.PreConfirmation{Bid: cloneBid(c.Bid), Digest: append([]byte{}, c.Digest...), Signature: append([]byte{}, c.Signature...)}
			f(x)
			emitCommit(tag, x, perturbed, cbase)
		}
		cmut("c-p-bid-block", true, func(x *preconfpb.PreConfirmation) { x.Bid.BlockNumber++ })
		cmut("c-p-bid-amount", true, func(x *preconfpb.PreConfirmation) {
			v, _ := new(big.Int).SetString(x.Bid.BidAmount, 10)
			x.Bid.BidAmount = v.Add(v, big.NewInt(1)).String()
		})
		cmut("c-p-bid-sig", true, func(x *preconfpb.PreConfirmation) { x.Bid.Signature[5] ^= 4 })
		cmut("c-p-bid-digest", true, func(x *preconfpb.PreConfirmation) { x.Bid.Digest[5] ^= 4 })
		cmut("c-p-digest", true, func(x *preconfpb.PreConfirmation) { x.Digest[rng.Intn(32)] ^= 1 })
		cmut("c-p-digest-junk-prefix", true, func(x *preconfpb.PreConfirmation) { x.Digest = append(rng.Bytes(1+rng.Intn(32)), x.Digest...) })
		cmut("c-p-digest-junk-suffix", true, func(x *preconfpb.PreConfirmation) {
			x.Digest = append(append([]byte{}, x.Digest...), rng.Bytes(1+rng.Intn(32))...)
		})
		cmut("c-p-bid-digest-junk-prefix", true, func(x *preconfpb.PreConfirmation) { x.Bid.Digest = append(rng.Bytes(1+rng.Intn(32)), x.Bid.Digest...) })
		if c.Digest[0] == 0 {
			cmut("c-p-digest-zero-stripped", true, func(x *preconfpb.PreConfirmation) { x.Digest = x.Digest[1:] })
		}
		cmut("c-p-sig-s", true, func(x *preconfpb.PreConfirmation) { x.Signature[40] ^= 2 })
		cmut("c-p-malleate", true, func(x *preconfpb.PreConfirmation) {
			sv := new(big.Int).SetBytes(x.Signature[32:64])
			sv.Sub(secpN, sv)
			copy(x.Signature[32:64], math.U256Bytes(sv))
			x.Signature[64] = 55 - x.Signature[64]
		})
		cmut("c-p-other-valid-bid", true, func(x *preconfpb.PreConfirmation) {
			// a different *valid* bid embedded under the old commitment digest/signature
			nb := b.BlockNumber + 1
			if nb == 0 {
				nb = 2
			}
			if y, err := signer.ConstructSignedBid(b.TxHash, b.BidAmount, nb, b.DecayStartTimestamp, b.DecayEndTimestamp); err == nil {
				x.Bid = y
			} else {
				x.Bid.BlockNumber = nb
			}
		})
		cmut("c-invalid-embedded-bid-resigned", false, func(x *preconfpb.PreConfirmation) {
			// commitment correctly hashed and signed over an embedded bid whose own signature is broken
			x.Bid.Signature[3] ^= 8
			d, err := preconfsigner.GetPreConfirmationHash(x)
			if err == nil {
				sg, _ := ks.SignHash(d)
				sg[64] += 27
				x.Digest, x.Signature = d, sg
			}
		})
		cmut("c-nil-bid", false, func(x *preconfpb.PreConfirmation) { x.Bid = nil })
		cmut("c-sig-len", false, func(x *preconfpb.PreConfirmation) { x.Signature = x.Signature[:rng.Intn(66)] })
		cmut("c-bid-sig-len", false, func(x *preconfpb.PreConfirmation) { x.Bid.Signature = x.Bid.Signature[:rng.Intn(66)] })
		cmut("c-nil-digest", false, func(x *preconfpb.PreConfirmation) { x.Digest = nil })
	}
	// messages with one digest and different signatures verified at the same time on the one
	// long-lived signer (a provider's bid streams, a bidder's fan-out): each gets its own verdict
	for round := 0; round < vh.Count(6, 60); round++ {
		b, err := s.ConstructSignedBid(g.txHash(), g.amount(true), g.i63(true), g.i63(true), g.i63(true))
		if err != nil || b.BlockNumber == 0 {
			continue
		}
		ob, err := other.ConstructSignedBid(b.TxHash, b.BidAmount, b.BlockNumber, b.DecayStartTimestamp, b.DecayEndTimestamp)
		if err != nil {
			continue
		}
		fv := cloneBid(b)
		fv.Signature[64] = 55 - fv.Signature[64]
		fr := cloneBid(b)
		fr.Signature[3] ^= 0x10
		msgs := []*preconfpb.Bid{b, ob, fv, fr}
		tags := []string{"own", "other-signer", "p-v-flip", "p-r-bit"}
		want := make([]Obs, len(msgs))
		for k, m := range msgs {
			want[k] = verifyBid(s, m)
		}
		wrong := make([]*Obs, len(msgs))
		var wmu sync.Mutex
		var wg sync.WaitGroup
		for w := 0; w < 12; w++ {
			wg.Add(1)
			go func(w int) {
				defer wg.Done()
				for it := 0; it < 150; it++ {
					k := (w + it) % len(msgs)
					if o := verifyBid(s, msgs[k]); o != want[k] {
						wmu.Lock()
						wrong[k] = &o
						wmu.Unlock()
					}
				}
			}(w)
		}
		wg.Wait()
		for k, m := range msgs {
			o := want[k]
			if wrong[k] != nil {
				o = *wrong[k]
			}
			out.Emit(In{Tag: "concurrent-same-digest-" + tags[k], Kind: "bid", Bid: toJ(m), Prims: bidPrims(m), Perturbed: k >= 2, BaseAddr: want[0].Addr}, o)
		}
	}
	_ = fmt.Sprint
}

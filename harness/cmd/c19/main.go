// C19 correspondence driver: the real bidder RPC Service.SendBid with the real protovalidate
// validator, a recording preconfirmation sender and a recording stream.
package main

import (
	"context"
	"encoding/hex"
	"encoding/json"
	"errors"
	"strings"
	"sync"

	"github.com/bufbuild/protovalidate-go"
	"github.com/ethereum/go-ethereum/common"
	bidderapiv1 "github.com/primevprotocol/mev-commit/gen/go/bidderapi/v1"
	preconfpb "github.com/primevprotocol/mev-commit/gen/go/preconfirmation/v1"
	bidderapi "github.com/primevprotocol/mev-commit/pkg/rpc/bidder"
	"google.golang.org/grpc"
	"google.golang.org/grpc/codes"
	"google.golang.org/grpc/status"
	"verif/harness/vh"
)

type Commit struct {
	TxHash    string `json:"txhash"` // hex of the raw string
	Amount    string `json:"amount"` // hex of the raw string
	Block     int64  `json:"block"`
	Start     int64  `json:"start"`
	End       int64  `json:"end"`
	BidDigest string `json:"bid_digest"`
	BidSig    string `json:"bid_sig"`
	Digest    string `json:"digest"`
	Sig       string `json:"sig"`
	Provider  string `json:"provider"`
}
type In struct {
	Tag      string   `json:"tag"`
	TxHashes []string `json:"txhashes"` // each: hex of the raw string
	Amount   string   `json:"amount"`   // hex of the raw string
	Block    int64    `json:"block"`
	Start    int64    `json:"start"`
	End      int64    `json:"end"`
	Commits  []Commit `json:"commits"` // what the network returns for this bid
	// the network layer refuses the bid (no provider connected, key store error): sender returns an error
	SenderFails bool `json:"sender_fails,omitempty"`
}
type Fwd struct {
	TxHash string `json:"txhash"`
	Amount string `json:"amount"`
	Block  int64  `json:"block"`
	Start  int64  `json:"start"`
	End    int64  `json:"end"`
}
type Rendered struct {
	TxHashes  []string `json:"txhashes"` // hex of each string
	Amount    string   `json:"amount"`
	Block     int64    `json:"block"`
	Start     int64    `json:"start"`
	End       int64    `json:"end"`
	BidDigest string   `json:"bid_digest"` // hex of the rendered string
	BidSig    string   `json:"bid_sig"`
	Digest    string   `json:"digest"`
	Sig       string   `json:"sig"`
	Provider  string   `json:"provider"`
}
type Obs struct {
	Status    string     `json:"status"` // ok | invalid | other
	Forwarded []Fwd      `json:"forwarded"`
	Streamed  []Rendered `json:"streamed"`
	Panic     bool       `json:"panic"`
}

func hs(s string) string { return hex.EncodeToString([]byte(s)) }
func uh(s string) string { b, _ := hex.DecodeString(s); return string(b) }
func ub(s string) []byte { b, _ := hex.DecodeString(s); return b }

type sender struct {
	in  In
	obs *Obs
}

// one API service for the whole run, as in the node: what it forwards to is switched per case
type router struct {
	mu  sync.Mutex
	cur *sender
}

func (r *router) SendBid(ctx context.Context, tx, amt string, blk, st, en int64) (chan *preconfpb.PreConfirmation, error) {
	r.mu.Lock()
	s := r.cur
	r.mu.Unlock()
	return s.SendBid(ctx, tx, amt, blk, st, en)
}

var (
	theRouter  = &router{}
	theService *bidderapi.Service
)

func (s *sender) SendBid(_ context.Context, tx, amt string, blk, st, en int64) (chan *preconfpb.PreConfirmation, error) {
	s.obs.Forwarded = append(s.obs.Forwarded, Fwd{hs(tx), hs(amt), blk, st, en})
	if s.in.SenderFails {
		return nil, errors.New("no providers available")
	}
	ch := make(chan *preconfpb.PreConfirmation, len(s.in.Commits))
	for _, c := range s.in.Commits {
		ch <- &preconfpb.PreConfirmation{
			Bid: &preconfpb.Bid{TxHash: uh(c.TxHash), BidAmount: uh(c.Amount), BlockNumber: c.Block, DecayStartTimestamp: c.Start,
				DecayEndTimestamp: c.End, Digest: ub(c.BidDigest), Signature: ub(c.BidSig)},
			Digest: ub(c.Digest), Signature: ub(c.Sig), ProviderAddress: ub(c.Provider)}
	}
	close(ch)
	return ch, nil
}

type stream struct {
	grpc.ServerStream
	obs *Obs
}

func (s *stream) Context() context.Context { return context.Background() }
func (s *stream) Send(c *bidderapiv1.Commitment) error {
	r := Rendered{Amount: hs(c.BidAmount), Block: c.BlockNumber, Start: c.DecayStartTimestamp, End: c.DecayEndTimestamp,
		BidDigest: hs(c.ReceivedBidDigest), BidSig: hs(c.ReceivedBidSignature), Digest: hs(c.CommitmentDigest),
		Sig: hs(c.CommitmentSignature), Provider: hs(c.ProviderAddress), TxHashes: []string{}}
	for _, h := range c.TxHashes {
		r.TxHashes = append(r.TxHashes, hs(h))
	}
	s.obs.Streamed = append(s.obs.Streamed, r)
	return nil
}

var validator, _ = protovalidate.New()

func run(in In) (obs Obs) {
	obs.Forwarded, obs.Streamed = []Fwd{}, []Rendered{}
	defer func() {
		if r := recover(); r != nil {
			obs.Panic = true
		}
	}()
	if theService == nil {
		theService = bidderapi.NewService(theRouter, common.HexToAddress("0xab"), nil, validator, vh.Quiet())
	}
	svc := theService
	theRouter.mu.Lock()
	theRouter.cur = &sender{in, &obs}
	theRouter.mu.Unlock()
	bid := &bidderapiv1.Bid{Amount: uh(in.Amount), BlockNumber: in.Block, DecayStartTimestamp: in.Start, DecayEndTimestamp: in.End}
	for _, h := range in.TxHashes {
		bid.TxHashes = append(bid.TxHashes, uh(h))
	}
	err := svc.SendBid(bid, &stream{obs: &obs})
	switch {
	case err == nil:
		obs.Status = "ok"
	case status.Code(err) == codes.InvalidArgument:
		obs.Status = "invalid"
	case status.Code(err) == codes.Internal:
		obs.Status = "internal"
	default:
		obs.Status = "other"
	}
	return obs
}

func main() {
	out := vh.NewOut("C19")
	defer out.Close()
	rng := vh.NewRng(19)
	for _, raw := range vh.Corpus() {
		var in In
		if json.Unmarshal(raw, &in) == nil {
			out.Emit(in, run(in))
		}
	}
	if vh.OnlyReplay() {
		return
	}
	goodHash := func() string {
		const hexd = "0123456789abcdefABCDEF"
		b := make([]byte, 64)
		for i := range b {
			b[i] = hexd[rng.Intn(len(hexd))]
		}
		return string(b)
	}
	commits := func(n int, tx string) []Commit {
		var cs []Commit
		for i := 0; i < n; i++ {
			c := Commit{TxHash: hs(tx), Amount: hs("1000"), Block: int64(rng.Intn(1000)), Start: int64(rng.Intn(99)), End: int64(rng.Intn(99)),
				BidDigest: hex.EncodeToString(rng.Bytes(32)), BidSig: hex.EncodeToString(rng.Bytes(65)),
				Digest: hex.EncodeToString(rng.Bytes(32)), Sig: hex.EncodeToString(rng.Bytes(65)), Provider: hex.EncodeToString(rng.Bytes(20))}
			if rng.Chance(20) { // commitments with arbitrary contents
				c.TxHash = hs(string(rng.Bytes(rng.Intn(40))) + "," + "zz")
				c.Amount = hs("not-a-number")
				c.BidDigest, c.Provider, c.Sig = "", hex.EncodeToString(rng.Bytes(3)), ""
				c.Block = -5
			}
			cs = append(cs, c)
		}
		return cs
	}
	sibling := false
	failNext := false
	var emitRef func(tag string, hashes []string, amount string, blk, st, en int64)
	emit := func(tag string, hashes []string, amount string, blk, st, en int64) {
		in := In{Tag: tag, TxHashes: []string{}, Amount: hs(amount), Block: blk, Start: st, End: en}
		for _, h := range hashes {
			in.TxHashes = append(in.TxHashes, hs(h))
		}
		in.Commits = commits(rng.Intn(4), strings.Join(hashes, ","))
		if failNext || rng.Chance(6) {
			// the hand-over to the network fails for this one; the requests after it go through the
			// same service and must be answered as if it had never happened
			in.SenderFails, in.Commits, failNext = true, nil, false
			in.Tag += "-sender-fails"
		}
		out.Emit(in, run(in))
		if sibling || !rng.Chance(12) {
			return
		}
		// the same request again with exactly one thing changed, back to back through the one service
		sibling = true
		defer func() { sibling = false }()
		if len(hashes) > 1 {
			rev := append([]string{}, hashes...)
			rev[0], rev[len(rev)-1] = rev[len(rev)-1], rev[0]
			emitRef(tag+"-sibling", rev, amount, blk, st, en)
		}
		emitRef(tag+"-sibling", hashes, amount+"0", blk, st, en)
		emitRef(tag+"-sibling", hashes, amount, blk+1, st, en)
		emitRef(tag+"-sibling", hashes, amount, blk, st+1, en)
		emitRef(tag+"-sibling", hashes, amount, blk, st, en+1)
		emitRef(tag+"-sibling", hashes, amount, blk, st, en)
	}
	emitRef = emit
	g := goodHash
	// boundary tables
	amounts := []string{"1", "2", "1000000000000000000", "18446744073709551615", "18446744073709551616", "99999999999999999999999999",
		"0", "00", "000000000000000000000", "01", "007", "+5", "-5", " 5", "5 ", "5\n", "\n5", "1e3", "0x10", "1_000", "", "abc", "٣", "１２", "1.0", "1,2"}
	for _, a := range amounts {
		emit("amount", []string{g()}, a, 10, 5, 9)
	}
	lists := [][]string{{}, {""}, {g()}, {g(), g()}, {g(), g(), g()}, {g()[:63]}, {g() + "a"}, {g()[:63] + "g"}, {g()[:63] + ","}, {"0x" + g()[:62]},
		{g()[:63] + " "}, {g()[:63] + "\n"}, {g() + "\n"}, {g(), ""}, {g(), g()[:10]}, {g() + "," + g()}, {strings.Repeat("é", 32)}, {strings.Repeat("０", 64)}}
	for _, l := range lists {
		emit("hashes", l, "1000", 10, 5, 9)
	}
	// the same hash more than once (same spelling, other case), order and multiplicity kept
	{
		a, b := g(), g()
		up, lo := strings.ToUpper(a), strings.ToLower(a)
		for _, l := range [][]string{{a, a}, {b, a, b}, {lo, up, b}, {up, lo}, {a, b, a, b, a}, {b, b, b}} {
			emit("hashes-duplicates", l, "1000", 10, 5, 9)
		}
	}
	// refused hand-overs of bundles of several sizes, each followed by accepted and by malformed requests
	for _, n := range []int{1, 2, 5, 40} {
		var big []string
		for i := 0; i < n; i++ {
			big = append(big, g())
		}
		failNext = true
		emit("handover", big, "1000", 10, 5, 9)
		emit("after-refused-handover", []string{g(), g()}, "2000", 50, 5, 9)
		failNext = true
		emit("handover", big, "1000", 10, 5, 9)
		failNext = true
		emit("handover", []string{g()}, "7", 11, 5, 9)
		emit("after-refused-handover", []string{g()[:63]}, "2000", 50, 5, 9)
		emit("after-refused-handover", []string{g()}, "2000", 50, 5, 9)
	}
	// an accepted bundle first; then requests that look like it to a careless key (entries fused by a
	// blank, a comma, nothing; the same text split differently) go through the same service
	for k := 0; k < 6; k++ {
		a, b, c := g(), g(), g()
		emit("bundle", []string{a, b, c}, "1000", 10, 5, 9)
		failNext = false
		for _, l := range [][]string{{a + " " + b, c}, {a + " " + b + " " + c}, {a, b + " " + c}, {a + "," + b, c}, {a + b, c}, {"[" + a, b, c + "]"}, {a, b}, {a, b, c, ""}} {
			failNext = false
			emit("bundle-look-alike", l, "1000", 10, 5, 9)
		}
		emit("bundle", []string{a, b, c}, "1000", 10, 5, 9)
	}
	nums := []int64{1, 2, 1<<63 - 1, 0, -1, -2, -1 << 63, 1 << 62}
	for _, b := range nums {
		for _, s := range nums {
			for _, e := range nums {
				if b == 1 || s == 1 || e == 1 {
					emit("numbers", []string{g()}, "1000", b, s, e)
				}
			}
		}
	}
	for i := 0; i < vh.Count(600, 12000); i++ {
		n := 1 + rng.Intn(5)
		var l []string
		for k := 0; k < n; k++ {
			h := g()
			if rng.Chance(8) {
				bb := []byte(h)
				bb[rng.Intn(64)] = "gG,;xz /\x00"[rng.Intn(9)]
				h = string(bb)
			}
			l = append(l, h)
		}
		if n > 1 && rng.Chance(15) { // a repeated entry
			l[rng.Intn(n)] = l[rng.Intn(n)]
		}
		a := amounts[rng.Intn(8)]
		if rng.Chance(60) {
			a = vh.BigStr(vh.Big("1").SetUint64(rng.U64() >> uint(rng.Intn(64))))
		}
		pick := func() int64 {
			if rng.Chance(85) {
				return int64(1 + rng.U64()>>uint(1+rng.Intn(62)))
			}
			return nums[rng.Intn(len(nums))]
		}
		emit("random", l, a, pick(), pick(), pick())
	}
}

// C11 correspondence driver: the real provider-registry and bidder-registry wrappers over the
// repository's mock evm client.  Check cases: every placement of a call failure / malformed
// return value among the two reads × boundary (amount, minimum) pairs.  Stake cases: send
// failure, wait failure (cancelled, closed), every receipt status.
package main

import (
	"context"
	"encoding/hex"
	"encoding/json"
	"math/big"
	"strings"
	"sync/atomic"

	"github.com/ethereum/go-ethereum/accounts/abi"
	"github.com/ethereum/go-ethereum/common"
	"github.com/ethereum/go-ethereum/core/types"
	bidderregistry "github.com/primevprotocol/contracts-abi/clients/BidderRegistry"
	providerregistry "github.com/primevprotocol/contracts-abi/clients/ProviderRegistry"
	bidderreg "github.com/primevprotocol/mev-commit/pkg/contracts/bidder_registry"
	providerreg "github.com/primevprotocol/mev-commit/pkg/contracts/provider_registry"
	"github.com/primevprotocol/mev-commit/pkg/evmclient"
	mockevmclient "github.com/primevprotocol/mev-commit/pkg/evmclient/mock"
	"time"
	"verif/harness/vh"

	"github.com/bufbuild/protovalidate-go"
	bidderapiv1 "github.com/primevprotocol/mev-commit/gen/go/bidderapi/v1"
	providerapiv1 "github.com/primevprotocol/mev-commit/gen/go/providerapi/v1"
	bidderapi "github.com/primevprotocol/mev-commit/pkg/rpc/bidder"
	providerapi "github.com/primevprotocol/mev-commit/pkg/rpc/provider"
)

var validator, _ = protovalidate.New()

type Ans struct {
	Err   bool   `json:"err"`
	Bytes string `json:"bytes"` // hex
}
type In struct {
	Tag     string `json:"tag"`
	Kind    string `json:"kind"`  // check | stake
	Which   string `json:"which"` // provider | bidder
	Min     Ans    `json:"min"`
	Amt     Ans    `json:"amt"`
	Amount  string `json:"amount"` // stake: decimal
	SendOK  bool   `json:"send_ok"`
	WaitErr bool   `json:"wait_err"`
	Status  uint64 `json:"status"`
	// earlier checks through the same wrapper instance, each with its own pair of answers (the
	// measured check is judged on the answers the chain gives at *its* moment)
	Prior []Prior `json:"prior,omitempty"`
	// stake/prepay: a second call for this other amount overlaps the measured one on the same
	// wrapper instance.  The call that reaches the client first is held inside Send until the other
	// one has returned; Measured says which of the two is reported (and Amount is always the
	// measured call's own amount).
	OverlapAmount string `json:"overlap_amount,omitempty"`
	Measured      string `json:"measured,omitempty"` // held | other
	// the two calls come in through the node's RPC service (RegisterStake / PrepayAllowance)
	ViaRPC bool `json:"via_rpc,omitempty"`
}
type Prior struct {
	Min Ans `json:"min"`
	Amt Ans `json:"amt"`
}
type Req struct {
	ToRegistry     bool   `json:"to_registry"`
	Value          string `json:"value"`
	DataIsSelector bool   `json:"data_is_selector"`
}
type Obs struct {
	Answer   bool  `json:"answer"`
	Calls    int   `json:"calls"`
	OK       bool  `json:"ok"`
	Requests []Req `json:"requests"`
	Waited   bool  `json:"waited"`
	Panic    bool  `json:"panic"`
	// how the two reads were addressed (selector of first and second call), informational
	Order []string `json:"order"`
}

var (
	provABI, _ = abi.JSON(strings.NewReader(providerregistry.ProviderregistryMetaData.ABI))
	bidABI, _  = abi.JSON(strings.NewReader(bidderregistry.BidderregistryMetaData.ABI))
	regAddr    = common.HexToAddress("0x00000000000000000000000000000000000000c1")
)

func run(in In) (obs Obs) {
	obs.Requests = []Req{}
	obs.Order = []string{}
	a := provABI
	minName, amtName, stakeName := "minStake", "checkStake", "registerAndStake"
	if in.Which == "bidder" {
		a = bidABI
		minName, amtName, stakeName = "minAllowance", "getAllowance", "prepay"
	}
	var sentHash = common.HexToHash("0xabc1")
	var arrivals atomic.Int32
	var obsHeld Obs
	heldIn, heldGo := make(chan struct{}), make(chan struct{})
	curMin, curAmt := in.Min, in.Amt
	cl := mockevmclient.New(
		mockevmclient.WithCallFunc(func(_ context.Context, req *evmclient.TxRequest) ([]byte, error) {
			obs.Calls++
			var ans Ans
			switch {
			case len(req.CallData) >= 4 && string(req.CallData[:4]) == string(a.Methods[minName].ID):
				ans = curMin
				obs.Order = append(obs.Order, "min")
			case len(req.CallData) >= 4 && string(req.CallData[:4]) == string(a.Methods[amtName].ID):
				ans = curAmt
				obs.Order = append(obs.Order, "amt")
			default:
				obs.Order = append(obs.Order, "other")
				return nil, vh.ErrInjected
			}
			if req.To == nil || *req.To != regAddr {
				obs.Order = append(obs.Order, "wrong-destination")
			}
			if ans.Err {
				return nil, vh.ErrInjected
			}
			b, _ := hex.DecodeString(ans.Bytes)
			return b, nil
		}),
		mockevmclient.WithSendFunc(func(_ context.Context, req *evmclient.TxRequest) (common.Hash, error) {
			if in.OverlapAmount != "" {
				if arrivals.Add(1) == 1 {
					close(heldIn)
					<-heldGo // the request is read by the client only now
					defer func() { obs.Requests, obsHeld.Requests = obsHeld.Requests, obs.Requests }()
					obs.Requests, obsHeld.Requests = obsHeld.Requests, obs.Requests
				}
			}
			r := Req{Value: vh.BigStr(req.Value)}
			r.ToRegistry = req.To != nil && *req.To == regAddr
			r.DataIsSelector = string(req.CallData) == string(a.Methods[stakeName].ID)
			obs.Requests = append(obs.Requests, r)
			if !in.SendOK {
				return common.Hash{}, vh.ErrInjected
			}
			return sentHash, nil
		}),
		mockevmclient.WithWaitForReceiptFunc(func(_ context.Context, h common.Hash) (*types.Receipt, error) {
			obs.Waited = true
			if h != sentHash {
				return nil, vh.ErrInjected
			}
			if in.WaitErr {
				return nil, evmclient.ErrTxnCancelled
			}
			return &types.Receipt{Status: in.Status, TxHash: h}, nil
		}),
	)
	defer func() {
		if r := recover(); r != nil {
			obs.Panic = true
		}
	}()
	addr := common.HexToAddress("0x1234567890123456789012345678901234567890")
	if in.OverlapAmount != "" {
		var op func(*big.Int) error
		if in.Which == "bidder" {
			c := bidderreg.New(regAddr, cl, vh.Quiet())
			op = func(v *big.Int) error { return c.PrepayAllowance(context.Background(), v) }
			if in.ViaRPC {
				svc := bidderapi.NewService(nil, addr, c, validator, vh.Quiet())
				op = func(v *big.Int) error {
					_, err := svc.PrepayAllowance(context.Background(), &bidderapiv1.PrepayRequest{Amount: v.String()})
					return err
				}
			}
		} else {
			c := providerreg.New(regAddr, cl, vh.Quiet())
			op = func(v *big.Int) error { return c.RegisterProvider(context.Background(), v) }
			if in.ViaRPC {
				svc := providerapi.NewService(vh.Quiet(), c, addr, nil, validator)
				op = func(v *big.Int) error {
					_, err := svc.RegisterStake(context.Background(), &providerapiv1.StakeRequest{Amount: v.String()})
					return err
				}
			}
		}
		if in.ViaRPC { // the services read the balance back after the operation
			curMin, curAmt = Ans{Bytes: strings.Repeat("00", 31) + "0a"}, Ans{Bytes: strings.Repeat("00", 31) + "14"}
		}
		heldAmt, otherAmt := in.Amount, in.OverlapAmount
		if in.Measured == "other" {
			heldAmt, otherAmt = in.OverlapAmount, in.Amount
		}
		heldDone := make(chan bool, 1)
		go func() {
			defer func() {
				if recover() != nil {
					heldDone <- false
				}
			}()
			heldDone <- op(vh.Big(heldAmt)) == nil
		}()
		select {
		case <-heldIn:
		case ok := <-heldDone: // never reached the client
			obsHeld.OK = ok
			heldDone <- ok
		}
		otherDone := make(chan bool, 1)
		go func() {
			defer func() {
				if recover() != nil {
					otherDone <- false
				}
			}()
			otherDone <- op(vh.Big(otherAmt)) == nil
		}()
		otherOK, got := false, false
		select {
		case otherOK = <-otherDone:
			got = true
		case <-time.After(5 * time.Second): // it waits for the held one instead of doing its own work
		}
		close(heldGo)
		obsHeld.OK = <-heldDone
		if !got {
			otherOK = <-otherDone
		}
		obsHeld.Waited = obs.Waited
		if in.Measured == "other" {
			obs.OK = otherOK
			return obs
		}
		obsHeld.Requests = append([]Req{}, obsHeld.Requests...)
		obsHeld.Order = []string{}
		return obsHeld
	}
	if in.Which == "bidder" {
		c := bidderreg.New(regAddr, cl, vh.Quiet())
		for _, pr := range in.Prior {
			curMin, curAmt = pr.Min, pr.Amt
			_ = c.CheckBidderAllowance(context.Background(), addr)
		}
		curMin, curAmt = in.Min, in.Amt
		obs.Calls, obs.Order = 0, []string{}
		if in.Kind == "check" {
			obs.Answer = c.CheckBidderAllowance(context.Background(), addr)
		} else {
			obs.OK = c.PrepayAllowance(context.Background(), vh.Big(in.Amount)) == nil
		}
	} else {
		c := providerreg.New(regAddr, cl, vh.Quiet())
		for _, pr := range in.Prior {
			curMin, curAmt = pr.Min, pr.Amt
			_ = c.CheckProviderRegistered(context.Background(), addr)
		}
		curMin, curAmt = in.Min, in.Amt
		obs.Calls, obs.Order = 0, []string{}
		if in.Kind == "check" {
			obs.Answer = c.CheckProviderRegistered(context.Background(), addr)
		} else {
			obs.OK = c.RegisterProvider(context.Background(), vh.Big(in.Amount)) == nil
		}
	}
	return obs
}

func main() {
	out := vh.NewOut("C11")
	defer out.Close()
	rng := vh.NewRng(11)
	for _, raw := range vh.Corpus() {
		var in In
		if json.Unmarshal(raw, &in) == nil {
			out.Emit(in, run(in))
		}
	}
	if vh.OnlyReplay() {
		return
	}
	two := func(k uint) *big.Int { return new(big.Int).Lsh(big.NewInt(1), k) }
	max256 := new(big.Int).Sub(two(256), big.NewInt(1))
	vals := []*big.Int{big.NewInt(0), big.NewInt(1), big.NewInt(2), new(big.Int).Sub(two(63), big.NewInt(1)), two(63), two(64),
		new(big.Int).Sub(two(255), big.NewInt(1)), two(255), new(big.Int).Sub(max256, big.NewInt(1)), max256}
	word := func(v *big.Int) string { return hex.EncodeToString(common.LeftPadBytes(v.Bytes(), 32)) }
	// answers: error, empty, 31 bytes, exact word, word + 1 byte, two words
	mal := func(v *big.Int) []Ans {
		w := word(v)
		return []Ans{{Err: true}, {Bytes: ""}, {Bytes: w[:62]}, {Bytes: w}, {Bytes: w + "ff"}, {Bytes: w + word(big.NewInt(7))}}
	}
	for _, which := range []string{"provider", "bidder"} {
		// exhaustive: placement of failures/malformed returns × boundary value pairs
		for _, mn := range vals {
			for _, am := range vals {
				for i, ma := range mal(mn) {
					for j, aa := range mal(am) {
						if (i != 3 || j != 3) && !(mn.Cmp(vals[1]) == 0 || am.Cmp(max256) == 0 || mn.Cmp(am) == 0) {
							continue // malformed shapes on a subset of the value pairs
						}
						tag := "check-wellformed"
						if i != 3 || j != 3 {
							tag = "check-fault"
						}
						in := In{Tag: tag, Kind: "check", Which: which, Min: ma, Amt: aa}
						out.Emit(in, run(in))
					}
				}
			}
		}
		for i := 0; i < vh.Count(300, 5000); i++ {
			mn := new(big.Int).SetBytes(rng.Bytes(1 + rng.Intn(32)))
			am := new(big.Int).Set(mn)
			switch rng.Intn(4) {
			case 0:
				am.Add(am, big.NewInt(1))
			case 1:
				if am.Sign() > 0 {
					am.Sub(am, big.NewInt(1))
				}
			case 2:
				am = new(big.Int).SetBytes(rng.Bytes(1 + rng.Intn(32)))
			}
			if am.Cmp(max256) > 0 {
				am = max256
			}
			in := In{Tag: "check-random", Kind: "check", Which: which, Min: Ans{Bytes: word(mn)}, Amt: Ans{Bytes: word(am)}}
			out.Emit(in, run(in))
		}
		// the same wrapper instance asked again after the chain's answers changed
		ok := Prior{Min: Ans{Bytes: word(big.NewInt(10))}, Amt: Ans{Bytes: word(big.NewInt(20))}}
		no := Prior{Min: Ans{Bytes: word(big.NewInt(10))}, Amt: Ans{Bytes: word(big.NewInt(9))}}
		for _, prior := range [][]Prior{{ok}, {ok, ok}, {no}, {no, ok}} {
			for _, now := range []Prior{ok, no, {Min: Ans{Err: true}, Amt: ok.Amt}, {Min: ok.Min, Amt: Ans{Err: true}}, {Min: Ans{Bytes: ""}, Amt: ok.Amt},
				{Min: Ans{Bytes: word(big.NewInt(21))}, Amt: ok.Amt}, {Min: Ans{Bytes: word(big.NewInt(20))}, Amt: ok.Amt}, {Min: ok.Min, Amt: Ans{Bytes: word(big.NewInt(0))}}} {
				in := In{Tag: "check-again-after-change", Kind: "check", Which: which, Min: now.Min, Amt: now.Amt, Prior: prior}
				out.Emit(in, run(in))
			}
		}
		for _, amt := range vals {
			for _, sendOK := range []bool{true, false} {
				for _, waitErr := range []bool{false, true} {
					for _, status := range []uint64{0, 1, 2} {
						tag := "stake"
						if sendOK && !waitErr && status != 1 {
							tag = "stake-reverted"
						}
						in := In{Tag: tag, Kind: "stake", Which: which, Amount: amt.String(), SendOK: sendOK, WaitErr: waitErr, Status: status}
						out.Emit(in, run(in))
						if amt.Sign() > 0 && amt.BitLen() < 200 {
							// two overlapping calls for different amounts: each sends its own
							for _, m := range []string{"held", "other"} {
								in2 := in
								in2.Tag, in2.Measured = tag+"-overlapping", m
								in2.OverlapAmount = new(big.Int).Add(new(big.Int).Mul(amt, big.NewInt(5)), big.NewInt(3)).String()
								out.Emit(in2, run(in2))
								if amt.BitLen() < 60 && status == 1 && !waitErr {
									// through the RPC services; also two requests for the very same amount
									in2.ViaRPC, in2.Tag = true, tag+"-overlapping-rpc"
									out.Emit(in2, run(in2))
									in2.OverlapAmount, in2.Tag = in2.Amount, tag+"-overlapping-rpc-same-amount"
									out.Emit(in2, run(in2))
								}
							}
						}
					}
				}
			}
		}
	}
}

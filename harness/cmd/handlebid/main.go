// C01 / C07 correspondence driver: the real Preconfirmation.handleBid wired to the real
// preconfsigner (counting key signer), the real bidder-registry wrapper (scripted contract
// reads), the real provider RPC Service with the real protovalidate validator (the harness
// plays the decision engine on both gRPC streams), the real preconf-contract wrapper (recording
// evm client) and a scripted stream.  One case = gate settings + a schedule of events.
// Observation = ordered effects (sign / store+calldata / write+commitment) and the result class.
package main

import (
	"bytes"
	"context"
	"encoding/hex"
	"encoding/json"
	"errors"
	"fmt"
	"io"
	"math/big"
	"net"
	"os"
	"strings"
	"sync"
	"time"

	"github.com/bufbuild/protovalidate-go"
	"github.com/ethereum/go-ethereum"
	"github.com/ethereum/go-ethereum/accounts/abi"
	"github.com/ethereum/go-ethereum/common"
	"github.com/ethereum/go-ethereum/core/types"
	"github.com/ethereum/go-ethereum/crypto"
	bidderregistry "github.com/primevprotocol/contracts-abi/clients/BidderRegistry"
	preconfcommitmentstore "github.com/primevprotocol/contracts-abi/clients/PreConfCommitmentStore"
	preconfpb "github.com/primevprotocol/mev-commit/gen/go/preconfirmation/v1"
	providerapiv1 "github.com/primevprotocol/mev-commit/gen/go/providerapi/v1"
	bidderreg "github.com/primevprotocol/mev-commit/pkg/contracts/bidder_registry"
	preconfcontract "github.com/primevprotocol/mev-commit/pkg/contracts/preconf"
	"github.com/primevprotocol/mev-commit/pkg/evmclient"
	mockevmclient "github.com/primevprotocol/mev-commit/pkg/evmclient/mock"
	"github.com/primevprotocol/mev-commit/pkg/evmclient/mockevm"
	"github.com/primevprotocol/mev-commit/pkg/p2p"
	"github.com/primevprotocol/mev-commit/pkg/preconfirmation"
	providerapi "github.com/primevprotocol/mev-commit/pkg/rpc/provider"
	"github.com/primevprotocol/mev-commit/pkg/signer/preconfsigner"
	"google.golang.org/grpc"
	"google.golang.org/grpc/codes"
	"google.golang.org/grpc/status"
	"google.golang.org/protobuf/proto"
	"verif/harness/vh"
)

type JBid struct {
	TxHash    string  `json:"txhash"`
	Amount    string  `json:"amount"`
	Block     int64   `json:"block"`
	Start     int64   `json:"start"`
	End       int64   `json:"end"`
	Digest    *string `json:"digest"`
	Signature *string `json:"signature"`
}
type Prim struct {
	Hash string  `json:"hash"`
	Sig  string  `json:"sig"`
	Pub  *string `json:"pub"`
	LowS bool    `json:"lows"`
	Addr string  `json:"addr"`
}
type Ans struct {
	Err   bool   `json:"err"`
	Bytes string `json:"bytes"`
	// err: what kind of failure the chain client reports ("" injected | canceled | deadline: the
	// caller's context ended while the call was in flight, wrapped as the client wraps it)
	ErrKind string `json:"err_kind,omitempty"`
}
type Event struct {
	T      string `json:"t"` // handoff | decision | deadline | cancel
	Mine   bool   `json:"mine,omitempty"`
	Status int    `json:"status,omitempty"`
	// decision (not mine): which other digest the engine names — "" an unrelated one | prefixed33 |
	// prefixed64 (byte strings that merely END with this bid's digest) | padded (a zero byte in front)
	Form string `json:"form,omitempty"`
}
type In struct {
	Tag      string  `json:"tag"`
	Role     int     `json:"role"`
	ReadOK   bool    `json:"read_ok"`
	Bid      *JBid   `json:"bid"`
	Prims    []Prim  `json:"prims"`
	MinAns   Ans     `json:"min_ans"`
	AmtAns   Ans     `json:"amt_ans"`
	Schedule []Event `json:"schedule"`
	SignOK   bool    `json:"sign_ok"`
	StoreOK  bool    `json:"store_ok"`
	WriteOK  bool    `json:"write_ok"`
	Selector string  `json:"selector"` // prim: 4-byte selector of storeCommitment from the contracts ABI
	// what the registry holds for every address other than the bid's signer (nil: nothing, i.e.
	// allowance 0); amt_ans is what it holds for the signer
	PeerAmt *Ans `json:"peer_amt_ans,omitempty"`
	// earlier attempts with the very same bid through the same component instances: store_ok of
	// each (the observation is that of the last attempt, whose flag is store_ok)
	Earlier []bool `json:"earlier,omitempty"`
	// what the registry held for the signer at each of those earlier attempts (default: amt_ans)
	EarlierAmt []Ans `json:"earlier_amt,omitempty"`
	// text of the error a failing settlement submission returns (store_ok = false)
	StoreErr string `json:"store_err,omitempty"`
	// the earlier attempts carried this other bid (an honest one whose digest and signature the
	// measured bid re-uses) instead of the measured bid itself
	EarlierBid *JBid `json:"earlier_bid,omitempty"`
}
type Effect struct {
	T        string `json:"t"` // sign | store | write
	Digest   string `json:"digest,omitempty"`
	To       string `json:"to,omitempty"`
	CallData string `json:"calldata,omitempty"`
	Commit   *JBid  `json:"commit_bid,omitempty"` // write: the embedded bid
	CDigest  string `json:"commit_digest,omitempty"`
	CSig     string `json:"commit_sig,omitempty"`
}
type Obs struct {
	Effects []Effect `json:"effects"`
	Result  string   `json:"result"` // ok | nothing | InvalidArgument | FailedPrecondition | Internal | context | other
	// the engine saw the bid with these fields equal to the bid's (when handed off)
	EngineFieldsOK bool     `json:"engine_fields_ok"`
	Stuck          bool     `json:"stuck"`
	Panic          bool     `json:"panic"`
	EarlierResults []string `json:"earlier_results,omitempty"`
}

func hx(b []byte) string { return hex.EncodeToString(b) }
func hp(b []byte) *string {
	if b == nil {
		return nil
	}
	s := hx(b)
	return &s
}
func unhex(s *string) []byte {
	if s == nil {
		return nil
	}
	b, _ := hex.DecodeString(*s)
	if b == nil {
		b = []byte{}
	}
	return b
}
func toJ(b *preconfpb.Bid) *JBid {
	if b == nil {
		return nil
	}
	return &JBid{hx([]byte(b.TxHash)), hx([]byte(b.BidAmount)), b.BlockNumber, b.DecayStartTimestamp, b.DecayEndTimestamp, hp(b.Digest), hp(b.Signature)}
}
func fromJ(j *JBid) *preconfpb.Bid {
	tx, _ := hex.DecodeString(j.TxHash)
	am, _ := hex.DecodeString(j.Amount)
	return &preconfpb.Bid{TxHash: string(tx), BidAmount: string(am), BlockNumber: j.Block, DecayStartTimestamp: j.Start,
		DecayEndTimestamp: j.End, Digest: unhex(j.Digest), Signature: unhex(j.Signature)}
}
func prim(hash, sig []byte) Prim {
	n := append([]byte(nil), sig...)
	if len(n) > 0 && n[len(n)-1] >= 27 && n[len(n)-1] <= 28 {
		n[len(n)-1] -= 27
	}
	p := Prim{Hash: hx(hash), Sig: hx(n)}
	func() {
		defer func() { recover() }()
		pub, err := crypto.SigToPub(hash, n)
		if err != nil {
			return
		}
		pb := crypto.FromECDSAPub(pub)
		s := hx(pb)
		p.Pub = &s
		p.Addr = hx(crypto.PubkeyToAddress(*pub).Bytes())
		if len(n) >= 64 {
			p.LowS = crypto.VerifySignature(pb, hash, n[:64])
		}
	}()
	return p
}

var (
	bidABI, _    = abi.JSON(strings.NewReader(bidderregistry.BidderregistryMetaData.ABI))
	storeABI, _  = abi.JSON(strings.NewReader(preconfcommitmentstore.PreconfcommitmentstoreMetaData.ABI))
	regAddr      = common.HexToAddress("0x00000000000000000000000000000000000000b1")
	daAddr       = common.HexToAddress("0x00000000000000000000000000000000000000da")
	validator, _ = protovalidate.New()
)

type scriptStream struct {
	in  In
	log func(Effect)
}

func (s *scriptStream) ReadMsg(_ context.Context, m proto.Message) error {
	if !s.in.ReadOK {
		return errors.New("stream reset")
	}
	proto.Merge(m, fromJ(s.in.Bid))
	return nil
}
func (s *scriptStream) WriteMsg(_ context.Context, m proto.Message) error {
	c, ok := m.(*preconfpb.PreConfirmation)
	if !ok {
		s.log(Effect{T: "write"})
		return nil
	}
	s.log(Effect{T: "write", Commit: toJ(c.Bid), CDigest: hx(c.Digest), CSig: hx(c.Signature)})
	if !s.in.WriteOK {
		return errors.New("write failed")
	}
	return nil
}
func (s *scriptStream) Reset() error { return nil }
func (s *scriptStream) Close() error { return nil }

type recvSrv struct {
	grpc.ServerStream
	ctx  context.Context
	bids chan *providerapiv1.Bid
}

func (r *recvSrv) Context() context.Context        { return r.ctx }
func (r *recvSrv) Send(b *providerapiv1.Bid) error { r.bids <- b; return nil }

type decSrv struct {
	grpc.ServerStream
	ctx     context.Context
	in      chan *providerapiv1.BidResponse
	entered chan struct{}
	ended   chan struct{}
}

func (d *decSrv) Context() context.Context                       { return d.ctx }
func (d *decSrv) SendAndClose(*providerapiv1.EmptyMessage) error { return nil }
func (d *decSrv) Recv() (*providerapiv1.BidResponse, error) {
	select {
	case d.entered <- struct{}{}:
	default:
	}
	select {
	case m := <-d.in:
		return m, nil
	case <-d.ctx.Done():
		return nil, d.ctx.Err()
	}
}

func run(in In) (obs Obs) {
	obs.Effects = []Effect{}
	obs.EngineFieldsOK = true
	var mu sync.Mutex
	logE := func(e Effect) { mu.Lock(); obs.Effects = append(obs.Effects, e); mu.Unlock() }
	storeOK := in.StoreOK
	curAmt := in.AmtAns
	rng := vh.NewRng(uint64(len(in.Tag)) + 77)
	ks := vh.NewKeySigner(rng)
	ks.FailHash.Store(!in.SignOK)
	signLog := &signSpy{KeySigner: ks, log: logE}
	sgn := preconfsigner.NewSigner(signLog)
	regClient := mockevmclient.New(mockevmclient.WithCallFunc(func(_ context.Context, req *evmclient.TxRequest) ([]byte, error) {
		var a Ans
		switch {
		case len(req.CallData) >= 4 && string(req.CallData[:4]) == string(bidABI.Methods["minAllowance"].ID):
			a = in.MinAns
		case len(req.CallData) >= 4 && string(req.CallData[:4]) == string(bidABI.Methods["getAllowance"].ID):
			mu.Lock()
			a = curAmt
			mu.Unlock()
			// the registry is keyed by address: only the bid's signer holds amt_ans
			if len(in.Prims) > 0 && len(req.CallData) >= 36 && hx(req.CallData[16:36]) != in.Prims[0].Addr {
				if in.PeerAmt != nil {
					a = *in.PeerAmt
				} else {
					a = Ans{Bytes: word(big.NewInt(0))}
				}
			}
		default:
			return nil, vh.ErrInjected
		}
		if a.Err {
			switch a.ErrKind {
			case "canceled":
				return nil, fmt.Errorf("failed to call contract: %w", context.Canceled)
			case "deadline":
				return nil, fmt.Errorf("failed to call contract: %w", context.DeadlineExceeded)
			}
			return nil, vh.ErrInjected
		}
		b, _ := hex.DecodeString(a.Bytes)
		return b, nil
	}))
	us := bidderreg.New(regAddr, regClient, vh.Quiet())
	daClient := mockevmclient.New(mockevmclient.WithSendFunc(func(_ context.Context, req *evmclient.TxRequest) (common.Hash, error) {
		e := Effect{T: "store", CallData: hx(req.CallData)}
		if req.To != nil {
			e.To = hx(req.To.Bytes())
		}
		logE(e)
		mu.Lock()
		ok := storeOK
		mu.Unlock()
		if !ok {
			if in.StoreErr != "" {
				return common.Hash{}, errors.New(in.StoreErr)
			}
			return common.Hash{}, vh.ErrInjected
		}
		return common.HexToHash("0x51"), nil
	}), mockevmclient.WithWaitForReceiptFunc(func(context.Context, common.Hash) (*types.Receipt, error) {
		return &types.Receipt{Status: 1}, nil
	}))
	da := preconfcontract.New(daAddr, daClient, vh.Quiet())
	svc := providerapi.NewService(vh.Quiet(), nil, common.Address{}, nil, validator)
	pc := preconfirmation.New(nil, nil, sgn, us, svc, da, vh.Quiet())
	handler := pc.Streams()[0].Handler

	useEarlierBid := false
	attempt := func() {
		root, cancelRoot := context.WithCancel(context.Background())
		defer cancelRoot()
		ctx, cancel := context.WithCancel(root)
		resC := make(chan error, 1)
		go func() {
			defer func() {
				if r := recover(); r != nil {
					mu.Lock()
					obs.Panic = true
					mu.Unlock()
					resC <- errors.New("panic")
				}
			}()
			sin := in
			if useEarlierBid && in.EarlierBid != nil {
				sin.Bid = in.EarlierBid
			}
			resC <- handler(ctx, p2p.Peer{EthAddress: common.HexToAddress("0xb1dde7"), Type: p2p.PeerType(in.Role)}, &scriptStream{sin, logE})
		}()
		var res error
		done := false
		waitRes := func(d time.Duration) bool {
			if done {
				return true
			}
			select {
			case res = <-resC:
				done = true
			case <-time.After(d):
			}
			return done
		}
		rs := &recvSrv{ctx: root, bids: make(chan *providerapiv1.Bid, 4)}
		recvStarted := false
		var ds *decSrv
		startDec := func() {
			ds = &decSrv{ctx: root, in: make(chan *providerapiv1.BidResponse), entered: make(chan struct{}, 1), ended: make(chan struct{})}
			d := ds
			go func() { defer close(d.ended); _ = svc.SendProcessedBids(d) }()
			<-d.entered
		}
		handed := false
		for _, ev := range in.Schedule {
			if done {
				break
			}
			switch ev.T {
			case "handoff":
				if !recvStarted {
					recvStarted = true
					go func() { _ = svc.ReceiveBids(&providerapiv1.EmptyMessage{}, rs) }()
				}
				if handed {
					continue
				}
				select {
				case b := <-rs.bids:
					handed = true
					want := fromJ(in.Bid)
					if useEarlierBid && in.EarlierBid != nil {
						want = fromJ(in.EarlierBid) // the bid this attempt carries
					}
					if strings.Join(b.TxHashes, ",") != want.TxHash || b.BidAmount != want.BidAmount || b.BlockNumber != want.BlockNumber ||
						string(b.BidDigest) != string(want.Digest) || b.DecayStartTimestamp != want.DecayStartTimestamp || b.DecayEndTimestamp != want.DecayEndTimestamp {
						obs.EngineFieldsOK = false
					}
				case res = <-resC:
					done = true
				case <-time.After(2 * time.Second):
					obs.Stuck = true
				}
			case "decision":
				if ds == nil {
					startDec()
				}
				dg := unhex(in.Bid.Digest)
				if !ev.Mine {
					switch ev.Form {
					case "prefixed33":
						dg = append([]byte{0x7f}, dg...)
					case "prefixed64":
						dg = append(bytes.Repeat([]byte{0xab}, 32), dg...)
					case "padded":
						dg = append([]byte{0}, dg...)
					default:
						dg = []byte("some-other-digest")
					}
				}
				select {
				case ds.in <- &providerapiv1.BidResponse{BidDigest: dg, Status: providerapiv1.BidResponse_Status(ev.Status)}:
				case <-time.After(2 * time.Second):
					obs.Stuck = true
					continue
				}
				select {
				case <-ds.entered:
				case <-ds.ended:
					startDec()
				case <-time.After(2 * time.Second):
					obs.Stuck = true
				}
				if ev.Mine && (ev.Status == 1 || ev.Status == 2) && handed {
					waitRes(2 * time.Second)
				}
			case "real-deadline":
				// let the handler's own deadline (context.WithTimeout in handleBid) expire in real time
				waitRes(5700 * time.Millisecond)
			case "deadline", "cancel":
				cancel()
				waitRes(2 * time.Second)
			}
		}
		if !waitRes(30 * time.Millisecond) {
			// silence: let the deadline fire (by cancelling the context the deadline derives from)
			cancel()
			if !waitRes(3 * time.Second) {
				obs.Stuck = true
			}
		}
		cancel()
		mu.Lock()
		defer mu.Unlock()
		wrote := false
		for _, e := range obs.Effects {
			if e.T == "write" {
				wrote = true
			}
		}
		switch {
		case obs.Panic:
			obs.Result = "panic"
		case res == nil && wrote:
			obs.Result = "ok"
		case res == nil:
			obs.Result = "nothing"
		case errors.Is(res, context.Canceled) || errors.Is(res, context.DeadlineExceeded):
			obs.Result = "context"
		default:
			if st, ok := status.FromError(res); ok {
				switch st.Code() {
				case codes.InvalidArgument:
					obs.Result = "InvalidArgument"
				case codes.FailedPrecondition:
					obs.Result = "FailedPrecondition"
				case codes.Internal:
					obs.Result = "Internal"
				default:
					obs.Result = "other"
				}
			} else {
				obs.Result = "other"
			}
		}
	}
	for i, ok := range in.Earlier {
		mu.Lock()
		storeOK = ok
		curAmt = in.AmtAns
		if i < len(in.EarlierAmt) {
			curAmt = in.EarlierAmt[i]
		}
		mu.Unlock()
		useEarlierBid = true
		attempt()
		useEarlierBid = false
		mu.Lock()
		obs.EarlierResults = append(obs.EarlierResults, obs.Result)
		obs.Effects = []Effect{}
		mu.Unlock()
	}
	mu.Lock()
	storeOK = in.StoreOK
	curAmt = in.AmtAns
	mu.Unlock()
	attempt()
	return obs
}

// runConcurrent: k accepted bids handled at the same time by ONE Preconfirmation / preconf-contract
// instance over the REAL EvmClient (scripted chain node).  The first Send is held inside the
// node call that fetches the pending nonce while the other handlers run up to the client's
// mutex; then everything is released.  Observation: every settlement transaction that reached
// the node (destination, calldata) and every commitment written.
func runConcurrent(ins []In) (obs Obs) {
	obs.Effects = []Effect{}
	obs.EngineFieldsOK = true
	var mu sync.Mutex
	logE := func(e Effect) { mu.Lock(); obs.Effects = append(obs.Effects, e); mu.Unlock() }
	rng := vh.NewRng(4242)
	ks := vh.NewKeySigner(rng)
	sgn := preconfsigner.NewSigner(ks)
	gate := make(chan struct{})
	first := make(chan struct{}, 1)
	var once sync.Once
	nonce := uint64(1)
	node := mockevm.NewMockEvm(31337,
		mockevm.WithPendingNonceAtFunc(func(context.Context, common.Address) (uint64, error) {
			held := false
			once.Do(func() { held = true })
			if held {
				first <- struct{}{}
				<-gate
			}
			mu.Lock()
			defer mu.Unlock()
			return nonce, nil
		}),
		mockevm.WithEstimateGasFunc(func(context.Context, ethereum.CallMsg) (uint64, error) { return 100000, nil }),
		mockevm.WithSuggestGasPriceFunc(func(context.Context) (*big.Int, error) { return big.NewInt(2000000000), nil }),
		mockevm.WithSuggestGasTipCapFunc(func(context.Context) (*big.Int, error) { return big.NewInt(1000000000), nil }),
		mockevm.WithSendTransactionFunc(func(_ context.Context, tx *types.Transaction) error {
			e := Effect{T: "store", CallData: hx(tx.Data())}
			if tx.To() != nil {
				e.To = hx(tx.To().Bytes())
			}
			logE(e)
			mu.Lock()
			nonce++
			mu.Unlock()
			return nil
		}),
	)
	client, err := evmclient.New(ks, node, vh.Quiet())
	if err != nil {
		panic(err)
	}
	defer client.Close()
	a := allowanceYes()
	regClient := mockevmclient.New(mockevmclient.WithCallFunc(func(_ context.Context, req *evmclient.TxRequest) ([]byte, error) {
		if len(req.CallData) >= 4 && string(req.CallData[:4]) == string(bidABI.Methods["minAllowance"].ID) {
			b, _ := hex.DecodeString(a[0].Bytes)
			return b, nil
		}
		b, _ := hex.DecodeString(a[1].Bytes)
		return b, nil
	}))
	us := bidderreg.New(regAddr, regClient, vh.Quiet())
	da := preconfcontract.New(daAddr, client, vh.Quiet())
	svc := providerapi.NewService(vh.Quiet(), nil, common.Address{}, nil, validator)
	pc := preconfirmation.New(nil, nil, sgn, us, svc, da, vh.Quiet())
	handler := pc.Streams()[0].Handler
	root, cancelRoot := context.WithCancel(context.Background())
	defer cancelRoot()
	// engine: accept everything it receives
	rs := &recvSrv{ctx: root, bids: make(chan *providerapiv1.Bid, 16)}
	go func() { _ = svc.ReceiveBids(&providerapiv1.EmptyMessage{}, rs) }()
	ds := &decSrv{ctx: root, in: make(chan *providerapiv1.BidResponse), entered: make(chan struct{}, 1), ended: make(chan struct{})}
	go func() { defer close(ds.ended); _ = svc.SendProcessedBids(ds) }()
	go func() {
		for {
			select {
			case b := <-rs.bids:
				select {
				case ds.in <- &providerapiv1.BidResponse{BidDigest: b.BidDigest, Status: 1}:
				case <-root.Done():
					return
				}
			case <-root.Done():
				return
			}
		}
	}()
	var wg sync.WaitGroup
	for i := range ins {
		in := ins[i]
		wg.Add(1)
		go func() {
			defer wg.Done()
			defer func() {
				if r := recover(); r != nil {
					mu.Lock()
					obs.Panic = true
					mu.Unlock()
				}
			}()
			_ = handler(root, p2p.Peer{Type: p2p.PeerTypeBidder}, &scriptStream{in, logE})
		}()
		if i == 0 {
			// wait until the first handler is inside the chain-node call of its settlement Send
			select {
			case <-first:
			case <-time.After(3 * time.Second):
				obs.Stuck = true
			}
		}
	}
	time.Sleep(30 * time.Millisecond) // the others run up to the client's mutex
	close(gate)
	fin := make(chan struct{})
	go func() { wg.Wait(); close(fin) }()
	select {
	case <-fin:
	case <-time.After(5 * time.Second):
		obs.Stuck = true
	}
	obs.Result = "concurrent"
	return obs
}

// attemptLogDA records that a settlement submission was attempted, then lets the real
// commitment-store wrapper (over the real EvmClient) do it
type attemptLogDA struct {
	preconfcontract.Interface
	log func(Effect)
}

func (d attemptLogDA) StoreCommitment(ctx context.Context, bid *big.Int, blk uint64, tx string, st, en uint64, bs, cs []byte) error {
	d.log(Effect{T: "store"})
	return d.Interface.StoreCommitment(ctx, bid, blk, tx, st, en, bs, cs)
}

// runWindow: one accepted bid handled over the REAL EvmClient while the account's pending nonce
// is more than the in-flight window ahead of its confirmed nonce: the client refuses to send.
// The bidder must get an error and no commitment.
func runWindow(in In) (obs Obs) {
	obs.Effects = []Effect{}
	obs.EngineFieldsOK = true
	var mu sync.Mutex
	logE := func(e Effect) { mu.Lock(); obs.Effects = append(obs.Effects, e); mu.Unlock() }
	rng := vh.NewRng(4343)
	ks := vh.NewKeySigner(rng)
	signLog := &signSpy{KeySigner: ks, log: logE}
	sgn := preconfsigner.NewSigner(signLog)
	node := mockevm.NewMockEvm(31337,
		mockevm.WithPendingNonceAtFunc(func(context.Context, common.Address) (uint64, error) {
			if in.Tag == "submission-fails" {
				return 4, nil
			}
			return 5000, nil
		}),
		mockevm.WithNonceAtFunc(func(context.Context, common.Address, *big.Int) (uint64, error) { return 3, nil }),
		mockevm.WithBlockNumFunc(func(context.Context) (uint64, error) { return 1, nil }),
		mockevm.WithEstimateGasFunc(func(context.Context, ethereum.CallMsg) (uint64, error) { return 100000, nil }),
		mockevm.WithSuggestGasPriceFunc(func(context.Context) (*big.Int, error) { return big.NewInt(2000000000), nil }),
		mockevm.WithSuggestGasTipCapFunc(func(context.Context) (*big.Int, error) { return big.NewInt(1000000000), nil }),
		mockevm.WithSendTransactionFunc(func(_ context.Context, tx *types.Transaction) error {
			mu.Lock()
			defer mu.Unlock()
			// what actually reached the node completes the attempt record
			for i := len(obs.Effects) - 1; i >= 0; i-- {
				if obs.Effects[i].T == "store" {
					obs.Effects[i].CallData = hx(tx.Data())
					if tx.To() != nil {
						obs.Effects[i].To = hx(tx.To().Bytes())
					}
					break
				}
			}
			if in.Tag == "submission-fails" {
				// the chain node never accepts the transaction: every hand-over fails this way
				switch in.StoreErr {
				case "transport":
					return &net.OpError{Op: "write", Net: "tcp", Err: errors.New("connection reset by peer")}
				case "timeout":
					return &net.DNSError{Err: "i/o timeout", IsTimeout: true}
				case "deadline":
					return fmt.Errorf("Post \"http://node\": %w", context.DeadlineExceeded)
				case "eof":
					return io.ErrUnexpectedEOF
				}
				return errors.New(in.StoreErr)
			}
			return nil
		}),
	)
	client, err := evmclient.New(ks, node, vh.Quiet())
	if err != nil {
		panic(err)
	}
	defer client.Close()
	regClient := mockevmclient.New(mockevmclient.WithCallFunc(func(_ context.Context, req *evmclient.TxRequest) ([]byte, error) {
		a := in.AmtAns
		if len(req.CallData) >= 4 && string(req.CallData[:4]) == string(bidABI.Methods["minAllowance"].ID) {
			a = in.MinAns
		}
		b, _ := hex.DecodeString(a.Bytes)
		return b, nil
	}))
	us := bidderreg.New(regAddr, regClient, vh.Quiet())
	da := attemptLogDA{preconfcontract.New(daAddr, client, vh.Quiet()), logE}
	svc := providerapi.NewService(vh.Quiet(), nil, common.Address{}, nil, validator)
	pc := preconfirmation.New(nil, nil, sgn, us, svc, da, vh.Quiet())
	handler := pc.Streams()[0].Handler
	root, cancelRoot := context.WithCancel(context.Background())
	defer cancelRoot()
	rs := &recvSrv{ctx: root, bids: make(chan *providerapiv1.Bid, 4)}
	go func() { _ = svc.ReceiveBids(&providerapiv1.EmptyMessage{}, rs) }()
	ds := &decSrv{ctx: root, in: make(chan *providerapiv1.BidResponse), entered: make(chan struct{}, 1), ended: make(chan struct{})}
	go func() { defer close(ds.ended); _ = svc.SendProcessedBids(ds) }()
	go func() {
		select {
		case b := <-rs.bids:
			select {
			case ds.in <- &providerapiv1.BidResponse{BidDigest: b.BidDigest, Status: 1}:
			case <-root.Done():
			}
		case <-root.Done():
		}
	}()
	resC := make(chan error, 1)
	go func() {
		defer func() {
			if r := recover(); r != nil {
				mu.Lock()
				obs.Panic = true
				mu.Unlock()
				resC <- errors.New("panic")
			}
		}()
		resC <- handler(root, p2p.Peer{EthAddress: common.HexToAddress("0xb1dde7"), Type: p2p.PeerTypeBidder}, &scriptStream{in, logE})
	}()
	var res error
	select {
	case res = <-resC:
	case <-time.After(4 * time.Second):
		obs.Stuck = true
	}
	mu.Lock()
	defer mu.Unlock()
	wrote := false
	for _, e := range obs.Effects {
		if e.T == "write" {
			wrote = true
		}
	}
	switch {
	case obs.Panic:
		obs.Result = "panic"
	case res == nil && wrote:
		obs.Result = "ok"
	case res == nil:
		obs.Result = "nothing"
	default:
		if st, ok := status.FromError(res); ok && st.Code() == codes.Internal {
			obs.Result = "Internal"
		} else {
			obs.Result = "other"
		}
	}
	return obs
}

func allowanceYes() [2]Ans {
	return [2]Ans{{Bytes: word(big.NewInt(10))}, {Bytes: word(big.NewInt(20))}}
}

type signSpy struct {
	*vh.KeySigner
	log func(Effect)
}

func (s *signSpy) SignHash(h []byte) ([]byte, error) {
	sig, err := s.KeySigner.SignHash(h)
	if err == nil {
		s.log(Effect{T: "sign", Digest: hx(h)})
	}
	return sig, err
}

func word(v *big.Int) string { return hex.EncodeToString(common.LeftPadBytes(v.Bytes(), 32)) }

func main() {
	prop := os.Getenv("VERIF_PROP")
	out := vh.NewOut(prop)
	defer out.Close()
	rng := vh.NewRng(1)
	sel := hx(storeABI.Methods["storeCommitment"].ID)
	for _, raw := range vh.Corpus() {
		var in In
		if json.Unmarshal(raw, &in) == nil {
			if in.Tag == "window-exceeded" || in.Tag == "submission-fails" {
				out.Emit(in, runWindow(in))
			} else {
				out.Emit(in, run(in))
			}
		}
	}
	if vh.OnlyReplay() {
		return
	}
	bidder := preconfsigner.NewSigner(vh.NewKeySigner(rng))
	yes := [2]Ans{{Bytes: word(big.NewInt(10))}, {Bytes: word(big.NewInt(20))}}
	allowances := map[string][2]Ans{"yes": yes, "equal": {{Bytes: word(big.NewInt(10))}, {Bytes: word(big.NewInt(10))}},
		"no": {{Bytes: word(big.NewInt(10))}, {Bytes: word(big.NewInt(9))}}, "call-error": {{Bytes: word(big.NewInt(10))}, {Err: true}},
		"min-error":     {{Err: true}, {Bytes: word(big.NewInt(20))}},
		"call-canceled": {{Bytes: word(big.NewInt(10))}, {Err: true, ErrKind: "canceled"}}, "min-canceled": {{Err: true, ErrKind: "canceled"}, {Bytes: word(big.NewInt(20))}},
		"call-deadline": {{Bytes: word(big.NewInt(10))}, {Err: true, ErrKind: "deadline"}}, "malformed": {{Bytes: word(big.NewInt(10))}, {Bytes: word(big.NewInt(20))[:62]}}}
	goodHash := func() string {
		h := hx(rng.Bytes(32))
		if rng.Chance(25) { // the format rule admits both cases: some digits in upper case
			b := []byte(h)
			for i := range b {
				if b[i] >= 'a' && b[i] <= 'f' && rng.Chance(50) {
					b[i] -= 32
				}
			}
			h = string(b)
		}
		return h
	}
	// decimal spellings with leading zeros (value-preserving in base 10; octal / invalid in base 0)
	spelled := []string{"08", "010", "0900", "019", "00012", "0100", "07", "0018446744073709551615"}
	mkBid := func(class string) *preconfpb.Bid {
		tx := goodHash()
		if rng.Chance(30) {
			tx = goodHash() + "," + goodHash()
		}
		amt := new(big.Int).SetUint64(1 + rng.U64()>>uint(rng.Intn(64))).String()
		if rng.Chance(15) {
			amt = []string{"1", "18446744073709551615", "9223372036854775808", "9223372036854775807"}[rng.Intn(4)]
		}
		pos := func() int64 {
			if rng.Chance(15) {
				return []int64{1, 1<<63 - 1}[rng.Intn(2)]
			}
			return int64(1 + rng.U64()>>uint(1+rng.Intn(62)))
		}
		blk, st, en := pos(), pos(), pos()
		switch class {
		case "fmt-hash":
			tx = "zz" + tx[2:]
		case "fmt-hash-empty-entry":
			tx = tx + ","
		case "amount-leading-zero":
			amt = spelled[rng.Intn(len(spelled))]
		case "alias-octal":
			amt = []string{"64", "8", "100", "4096", "511"}[rng.Intn(5)]
		case "alias-hex":
			amt = "64"
		case "alias-underscore":
			amt = "1000"
		case "alias-binary":
			amt = "5"
		case "fmt-amount-zero":
			amt = "0"
		case "fmt-amount-2^64":
			amt = "18446744073709551616"
		case "fmt-block":
			blk = -blk
		case "fmt-start":
			st = 0
		case "fmt-end":
			en = -1
		}
		b, err := bidder.ConstructSignedBid(tx, amt, blk, st, en)
		if err != nil {
			// the node's own signing function refuses a spelling the rules admit: sign the canonical
			// spelling of the same value and present the spelled one (same digest under the rules)
			v, ok := new(big.Int).SetString(amt, 10)
			if !ok {
				panic(err)
			}
			b, err = bidder.ConstructSignedBid(tx, v.String(), blk, st, en)
			if err != nil {
				panic(err)
			}
			b.BidAmount = amt
		}
		switch class {
		case "valid-raw-v": // the recovery id written 0/1, as plain crypto.Sign emits it
			if len(b.Signature) == 65 && b.Signature[64] >= 27 {
				b.Signature[64] -= 27
			}
		case "alias-octal":
			// another spelling whose base-8 reading is the signed value, digest and signature kept
			v, _ := new(big.Int).SetString(b.BidAmount, 10)
			b.BidAmount = "0" + v.Text(8)
		case "alias-hex":
			b.BidAmount = "0x40"
		case "alias-underscore":
			b.BidAmount = "1_000"
		case "alias-binary":
			b.BidAmount = "0b101"
		case "tamper-amount":
			b.BidAmount = b.BidAmount + "0"
		case "tamper-block":
			b.BlockNumber++
		case "bad-digest":
			b.Digest[3] ^= 1
		case "bad-sig-short":
			b.Signature = b.Signature[:rng.Intn(65)]
		case "bad-sig-long":
			b.Signature = append(b.Signature, 1)
		case "bad-sig-s":
			b.Signature[40] ^= 1 // recovers to some other address (or fails)
		case "no-digest":
			b.Digest = nil
		}
		return b
	}
	emit := func(tag string, role int, readOK bool, b *preconfpb.Bid, allow string, sched []Event, signOK, storeOK, writeOK bool) {
		a := allowances[allow]
		in := In{Tag: tag, Role: role, ReadOK: readOK, Bid: toJ(b), MinAns: a[0], AmtAns: a[1], Schedule: sched,
			SignOK: signOK, StoreOK: storeOK, WriteOK: writeOK, Selector: sel, Prims: []Prim{}}
		if b.Digest != nil && b.Signature != nil {
			in.Prims = append(in.Prims, prim(b.Digest, b.Signature))
		}
		out.Emit(in, run(in))
	}
	H := Event{T: "handoff"}
	D := func(mine bool, st int) Event { return Event{T: "decision", Mine: mine, Status: st} }
	accept := []Event{H, D(true, 1)}
	// an honest bid is handled first; then a bid with other contents that re-uses the honest
	// bid's digest and signature arrives at the same long-lived components
	for i := 0; i < vh.Count(8, 100); i++ {
		b := mkBid("valid")
		f := proto.Clone(b).(*preconfpb.Bid)
		switch i % 4 {
		case 0:
			f.BlockNumber++
		case 1:
			f.TxHash = goodHash()
		case 2:
			f.BidAmount = f.BidAmount + "0"
			if len(f.BidAmount) > 19 {
				f.BidAmount = "7"
			}
		case 3:
			f.DecayStartTimestamp, f.DecayEndTimestamp = f.DecayEndTimestamp, f.DecayStartTimestamp+1
		}
		in := In{Tag: "forged-after-honest", Role: 2, ReadOK: true, Bid: toJ(f), MinAns: yes[0], AmtAns: yes[1], Schedule: accept,
			SignOK: true, StoreOK: true, WriteOK: true, Selector: sel, Prims: []Prim{prim(b.Digest, b.Signature)}, Earlier: []bool{true}, EarlierBid: toJ(b)}
		out.Emit(in, run(in))
	}
	if prop == "C07" {
		for i := 0; i < vh.Count(150, 3000); i++ {
			emit("accept", 2, true, mkBid("valid"), "yes", accept, true, true, true)
		}
		for i := 0; i < vh.Count(20, 300); i++ {
			emit("store-fails", 2, true, mkBid("valid"), "yes", accept, true, false, true)
			emit("write-fails", 2, true, mkBid("valid"), "yes", accept, true, true, false)
			emit("accept-spelled-amount", 2, true, mkBid("amount-leading-zero"), "yes", accept, true, true, true)
			emit("accept-raw-v", 2, true, mkBid("valid-raw-v"), "yes", accept, true, true, true)
		}
		// a failing submission, whatever the chain client calls the failure
		for _, msg := range []string{"failed to estimate gas: execution reverted", "execution reverted: commitment exists", "nonce too low",
			"replacement transaction underpriced", "already known", "context deadline exceeded", "EOF"} {
			b := mkBid("valid")
			in := In{Tag: "store-fails-with", Role: 2, ReadOK: true, Bid: toJ(b), MinAns: yes[0], AmtAns: yes[1], Schedule: accept,
				SignOK: true, StoreOK: false, WriteOK: true, Selector: sel, Prims: []Prim{prim(b.Digest, b.Signature)}, StoreErr: msg}
			out.Emit(in, run(in))
		}
		// the very same bid again through the same instances, after attempts whose submission failed
		// (and after ones that succeeded)
		for i := 0; i < vh.Count(12, 200); i++ {
			b := mkBid("valid")
			earlier := [][]bool{{false}, {false, false}, {true}, {false, true}, {true, false}}[i%5]
			in := In{Tag: "retry", Role: 2, ReadOK: true, Bid: toJ(b), MinAns: yes[0], AmtAns: yes[1], Schedule: accept,
				SignOK: true, StoreOK: i%7 != 6, WriteOK: true, Selector: sel, Prims: []Prim{prim(b.Digest, b.Signature)}, Earlier: earlier}
			out.Emit(in, run(in))
		}
		// the account's in-flight window is exhausted: the real client refuses to send
		for i := 0; i < vh.Count(3, 30); i++ {
			b := mkBid("valid")
			in := In{Tag: "window-exceeded", Role: 2, ReadOK: true, Bid: toJ(b), MinAns: yes[0], AmtAns: yes[1], Schedule: accept,
				SignOK: true, StoreOK: false, WriteOK: true, Selector: sel, Prims: []Prim{prim(b.Digest, b.Signature)}}
			out.Emit(in, runWindow(in))
		}
		// the chain node refuses or drops the submission itself (real EvmClient underneath)
		for _, fe := range []string{"transport", "timeout", "deadline", "eof", "nonce too low", "replacement transaction underpriced", "already known"} {
			b := mkBid("valid")
			in := In{Tag: "submission-fails", Role: 2, ReadOK: true, Bid: toJ(b), MinAns: yes[0], AmtAns: yes[1], Schedule: accept,
				SignOK: true, StoreOK: false, WriteOK: true, Selector: sel, Prims: []Prim{prim(b.Digest, b.Signature)}, StoreErr: fe}
			out.Emit(in, runWindow(in))
		}
		// several bids in flight at once through one contract client (real EvmClient underneath)
		for i := 0; i < vh.Count(6, 60); i++ {
			k := 2 + rng.Intn(3)
			var ins []In
			for j := 0; j < k; j++ {
				b := mkBid("valid")
				in := In{Tag: "concurrent", Role: 2, ReadOK: true, Bid: toJ(b), MinAns: yes[0], AmtAns: yes[1], Schedule: accept,
					SignOK: true, StoreOK: true, WriteOK: true, Selector: sel, Prims: []Prim{prim(b.Digest, b.Signature)}}
				ins = append(ins, in)
			}
			out.Emit(map[string]any{"tag": "concurrent", "selector": sel, "bids": ins}, runConcurrent(ins))
		}
		return
	}
	// ---- C01: gate matrix (one gate failing at a time, and all pairs on a sample), engine behaviours
	roles := []int{2, 1, 0, -1, 7}
	bidClasses := []string{"valid", "valid-raw-v", "amount-leading-zero", "alias-octal", "alias-hex", "alias-underscore", "alias-binary", "tamper-amount", "tamper-block", "bad-digest", "bad-sig-short", "bad-sig-long", "bad-sig-s", "no-digest",
		"fmt-hash", "fmt-hash-empty-entry", "fmt-amount-zero", "fmt-amount-2^64", "fmt-block", "fmt-start", "fmt-end"}
	allows := []string{"yes", "equal", "no", "call-error", "min-error", "malformed", "call-canceled", "min-canceled", "call-deadline"}
	scheds := map[string][]Event{
		"accept":                accept,
		"reject":                {H, D(true, 2)},
		"status-0":              {H, D(true, 0), D(true, 1)},
		"status-3":              {H, D(true, 3)},
		"status-3-then-accept":  {H, D(true, 3), D(true, 1)},
		"wrong-digest-accept":   {H, D(false, 1)},
		"wrong-then-right":      {H, D(false, 1), D(false, 2), D(true, 1)},
		"duplicate-accept":      {H, D(true, 1), D(true, 1), D(true, 2)},
		"reject-then-accept":    {H, D(true, 2), D(true, 1)},
		"silence":               {H},
		"never-taken":           {},
		"cancel-before-handoff": {{T: "cancel"}, H, D(true, 1)},
		"accept-after-deadline": {H, {T: "deadline"}, D(true, 1)},
		"accept-after-cancel":   {H, {T: "cancel"}, D(true, 1)},
		"wrong-accept-deadline": {H, D(false, 1), {T: "deadline"}},
		"suffix33-accept":       {H, {T: "decision", Status: 1, Form: "prefixed33"}},
		"suffix64-accept":       {H, {T: "decision", Status: 1, Form: "prefixed64"}},
		"padded-accept":         {H, {T: "decision", Status: 1, Form: "padded"}},
		"suffix-then-reject":    {H, {T: "decision", Status: 1, Form: "prefixed64"}, D(true, 2)},
	}
	var snames []string
	for k := range scheds {
		snames = append(snames, k)
	}
	// deterministic order
	for i := 0; i < len(snames); i++ {
		for j := i + 1; j < len(snames); j++ {
			if snames[j] < snames[i] {
				snames[i], snames[j] = snames[j], snames[i]
			}
		}
	}
	// a real-time cell: the engine accepts 5.7 s after it took the bid (the handler's own 5 s
	// deadline, not an emulated one); runs in the background while the matrix executes
	var bg sync.WaitGroup
	realCells := [][]Event{{H, {T: "real-deadline"}, D(true, 1)}}
	if vh.Thorough() {
		realCells = append(realCells, []Event{{T: "real-deadline"}, H, D(true, 1)}, []Event{H, D(false, 1), {T: "real-deadline"}, D(true, 1)})
	}
	for _, sc := range realCells {
		sc := sc
		b := mkBid("valid")
		bg.Add(1)
		go func() {
			defer bg.Done()
			a := allowances["yes"]
			in := In{Tag: "engine:accept-after-real-deadline", Role: 2, ReadOK: true, Bid: toJ(b), MinAns: a[0], AmtAns: a[1], Schedule: sc,
				SignOK: true, StoreOK: true, WriteOK: true, Selector: sel, Prims: []Prim{prim(b.Digest, b.Signature)}}
			out.Emit(in, run(in))
		}()
	}
	defer bg.Wait()
	// (1) every single gate failure with an accepting engine; (2) every engine behaviour with all gates open
	for _, r := range roles {
		emit("role", r, true, mkBid("valid"), "yes", accept, true, true, true)
	}
	emit("read-fails", 2, false, mkBid("valid"), "yes", accept, true, true, true)
	for _, c := range bidClasses {
		for k := 0; k < vh.Count(2, 20); k++ {
			emit("bid:"+c, 2, true, mkBid(c), "yes", accept, true, true, true)
		}
	}
	for _, a := range allows {
		emit("allowance:"+a, 2, true, mkBid("valid"), a, accept, true, true, true)
	}
	// the registry is keyed by address: what it holds for the sending peer (or anybody else) is
	// immaterial, the bid's signer is who must be funded
	for k := 0; k < vh.Count(4, 40); k++ {
		for _, kc := range []struct {
			tag          string
			signer, peer string
		}{{"allowance-keyed:signer-no-peer-yes", "no", "yes"}, {"allowance-keyed:signer-yes-peer-no", "yes", "no"},
			{"allowance-keyed:signer-error-peer-yes", "call-error", "yes"}, {"allowance-keyed:both-yes", "yes", "yes"}} {
			b := mkBid("valid")
			a, pa := allowances[kc.signer], allowances[kc.peer][1]
			in := In{Tag: kc.tag, Role: 2, ReadOK: true, Bid: toJ(b), MinAns: a[0], AmtAns: a[1], PeerAmt: &pa, Schedule: accept,
				SignOK: true, StoreOK: true, WriteOK: true, Selector: sel, Prims: []Prim{prim(b.Digest, b.Signature)}}
			out.Emit(in, run(in))
		}
	}
	// the same signer bids again through the same instances after its allowance changed on chain
	for k := 0; k < vh.Count(3, 30); k++ {
		for _, ch := range []struct {
			tag         string
			before, now string
		}{{"allowance-changed:funded-then-withdrawn", "yes", "no"}, {"allowance-changed:unfunded-then-funded", "no", "yes"},
			{"allowance-changed:funded-then-read-fails", "yes", "call-error"}, {"allowance-changed:funded-then-minimum-unreadable", "yes", "min-error"}} {
			b := mkBid("valid")
			a := allowances[ch.now]
			in := In{Tag: ch.tag, Role: 2, ReadOK: true, Bid: toJ(b), MinAns: a[0], AmtAns: a[1], Schedule: accept,
				SignOK: true, StoreOK: true, WriteOK: true, Selector: sel, Prims: []Prim{prim(b.Digest, b.Signature)},
				Earlier: []bool{true}, EarlierAmt: []Ans{allowances[ch.before][1]}}
			out.Emit(in, run(in))
		}
	}
	for _, s := range snames {
		for k := 0; k < vh.Count(2, 10); k++ {
			emit("engine:"+s, 2, true, mkBid("valid"), "yes", scheds[s], true, true, true)
		}
	}
	for _, f := range [][3]bool{{false, true, true}, {true, false, true}, {true, true, false}, {false, false, false}} {
		emit("faults", 2, true, mkBid("valid"), "yes", accept, f[0], f[1], f[2])
	}
	// (3) random cells of the full matrix
	for i := 0; i < vh.Count(250, 5000); i++ {
		r := 2
		if rng.Chance(15) {
			r = roles[rng.Intn(len(roles))]
		}
		c := "valid"
		if rng.Chance(30) {
			c = bidClasses[rng.Intn(len(bidClasses))]
		}
		a := "yes"
		if rng.Chance(20) {
			a = allows[rng.Intn(len(allows))]
		}
		s := snames[rng.Intn(len(snames))]
		emit("matrix", r, !rng.Chance(5), mkBid(c), a, scheds[s], !rng.Chance(8), !rng.Chance(12), !rng.Chance(8))
	}
}

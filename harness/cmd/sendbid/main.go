// C05 correspondence driver: the real Preconfirmation.SendBid with the real preconfsigner, a
// scripted topology (0..8 providers) and a scripted streamer whose per-provider replies are
// honest, a commitment for a different valid bid (the provider's own or a replayed one of the
// same bidder), foreign / invalid / short signatures, missing parts, error frames, garbage,
// silence, resets, open and write failures — released in a forced arrival order, with or
// without the caller's deadline passing.
package main

import (
	"context"
	"encoding/hex"
	"encoding/json"
	"errors"
	"runtime"
	"sort"
	"sync"
	"time"

	"github.com/ethereum/go-ethereum/common"
	"github.com/ethereum/go-ethereum/crypto"
	preconfpb "github.com/primevprotocol/mev-commit/gen/go/preconfirmation/v1"
	"github.com/primevprotocol/mev-commit/pkg/p2p"
	"github.com/primevprotocol/mev-commit/pkg/preconfirmation"
	"github.com/primevprotocol/mev-commit/pkg/signer/preconfsigner"
	"github.com/primevprotocol/mev-commit/pkg/topology"
	"google.golang.org/grpc/codes"
	"google.golang.org/grpc/status"
	"google.golang.org/protobuf/proto"
	"verif/harness/vh"
)

type JBid struct {
	TxHash    string  `json:"txhash"`
	Amount    string  `json:"amount"`
	Block     int64   `json:"block"`
	Start     int64   `json:"start"`
	End       int64   `json:"end"`
	Digest    *string `json:"digest"`
	Signature *string `json:"signature"`
}
type JCommit struct {
	Bid       *JBid   `json:"bid"`
	Digest    *string `json:"digest"`
	Signature *string `json:"signature"`
}
type Prim struct {
	Hash string  `json:"hash"`
	Sig  string  `json:"sig"`
	Pub  *string `json:"pub"`
	LowS bool    `json:"lows"`
	Addr string  `json:"addr"`
}
type Provider struct {
	Class string   `json:"class"`
	Reply *JCommit `json:"reply,omitempty"` // what the provider answered (filled in after the run)
	Prims []Prim   `json:"prims"`
}
type In struct {
	Tag        string     `json:"tag"`
	Providers  []Provider `json:"providers"`
	Order      []int      `json:"order"`    // release order of the replies
	Deadline   bool       `json:"deadline"` // the caller's deadline passes while some provider is silent
	Sent       *JBid      `json:"sent"`     // the signed bid this call offered (captured)
	Req        JBid       `json:"req"`      // the request's fields
	BidderAddr string     `json:"bidder_addr"`
}
type JDelivered struct {
	Commit   JCommit `json:"commit"`
	Provider string  `json:"provider_address"`
}
type Obs struct {
	Offered   []*JBid      `json:"offered"`
	Delivered []JDelivered `json:"delivered"`
	Closed    bool         `json:"closed"`
	Leaked    int          `json:"leaked"`
	SendErr   bool         `json:"send_err"`
	Panic     bool         `json:"panic"`
}

func hx(b []byte) string { return hex.EncodeToString(b) }
func hp(b []byte) *string {
	if b == nil {
		return nil
	}
	s := hx(b)
	return &s
}
func toJ(b *preconfpb.Bid) *JBid {
	if b == nil {
		return nil
	}
	return &JBid{hx([]byte(b.TxHash)), hx([]byte(b.BidAmount)), b.BlockNumber, b.DecayStartTimestamp, b.DecayEndTimestamp, hp(b.Digest), hp(b.Signature)}
}
func toJC(c *preconfpb.PreConfirmation) *JCommit {
	return &JCommit{toJ(c.Bid), hp(c.Digest), hp(c.Signature)}
}
func prim(hash, sig []byte) Prim {
	n := append([]byte(nil), sig...)
	if len(n) > 0 && n[len(n)-1] >= 27 && n[len(n)-1] <= 28 {
		n[len(n)-1] -= 27
	}
	p := Prim{Hash: hx(hash), Sig: hx(n)}
	func() {
		defer func() { recover() }()
		pub, err := crypto.SigToPub(hash, n)
		if err != nil {
			return
		}
		pb := crypto.FromECDSAPub(pub)
		s := hx(pb)
		p.Pub = &s
		p.Addr = hx(crypto.PubkeyToAddress(*pub).Bytes())
		if len(n) >= 64 {
			p.LowS = crypto.VerifySignature(pb, hash, n[:64])
		}
	}()
	return p
}

type topo struct{ peers []p2p.Peer }

func (t *topo) GetPeers(topology.Query) []p2p.Peer { return t.peers }

type pstream struct {
	h   *harness
	idx int
}
type harness struct {
	mu       sync.Mutex
	in       *In
	obs      *Obs
	gates    []chan struct{}
	signers  []preconfsigner.Signer
	bidder   preconfsigner.Signer
	oldBid   *preconfpb.Bid
	captured []*preconfpb.Bid
	rng      *vh.Rng
	second   bool // the follow-up bid of the case: nothing it causes is recorded
}

func (s *pstream) WriteMsg(_ context.Context, m proto.Message) error {
	b, _ := m.(*preconfpb.Bid)
	s.h.mu.Lock()
	s.h.captured[s.idx] = proto.Clone(b).(*preconfpb.Bid)
	s.h.mu.Unlock()
	if s.h.in.Providers[s.idx].Class == "write-fails" {
		return errors.New("stream reset")
	}
	return nil
}
func (s *pstream) ReadMsg(ctx context.Context, m proto.Message) error {
	h := s.h
	class := h.in.Providers[s.idx].Class
	select {
	case <-h.gates[s.idx]:
	case <-ctx.Done():
		return ctx.Err()
	}
	h.mu.Lock()
	sent := h.captured[s.idx]
	h.mu.Unlock()
	ps := h.signers[s.idx]
	var c *preconfpb.PreConfirmation
	var err error
	switch class {
	case "error-frame":
		return status.Error(codes.Internal, "bid rejected")
	case "garbage", "reset":
		return errors.New("failed to unmarshal message")
	case "silence":
		<-ctx.Done()
		return ctx.Err()
	case "other-valid-bid":
		ob, e := ps.(interface {
			ConstructSignedBid(string, string, int64, int64, int64) (*preconfpb.Bid, error)
		}).ConstructSignedBid("deadbeef", "1", 999, 1, 2)
		if e != nil {
			return e
		}
		c, err = ps.ConstructPreConfirmation(ob)
	case "replayed-bid":
		c, err = ps.ConstructPreConfirmation(h.oldBid)
	default:
		c, err = ps.ConstructPreConfirmation(sent)
	}
	if err != nil {
		return err
	}
	switch class {
	case "foreign-sig":
		d := c.Digest
		other := vh.NewKeySigner(h.rng)
		sg, _ := other.SignHash(d)
		sg[64] += 27
		c.Signature = sg
	case "invalid-digest":
		c.Digest[4] ^= 1
	case "invalid-sig":
		c.Signature[10] ^= 1
	case "short-sig":
		c.Signature = c.Signature[:h.rng.Intn(65)]
	case "nil-bid":
		c.Bid = nil
	case "nil-digest":
		c.Digest = nil
	case "tampered-embedded-bid":
		c.Bid = proto.Clone(c.Bid).(*preconfpb.Bid)
		c.Bid.BlockNumber++
	case "claims-other-address":
		// a valid commitment over the bid that was sent, signed with the provider's own key, whose
		// (unsigned) provider_address field arrives pre-filled with somebody else's 20-byte address:
		// what the bidder reports must still be the address the signature proves
		c.ProviderAddress = h.rng.Bytes(20)
	case "embedded-bid-other-sig":
		// same fields and digest, but the bid's signature bytes are not the ones that were sent
		c.Bid = proto.Clone(c.Bid).(*preconfpb.Bid)
		c.Bid.Signature[7] ^= 1
		c2, e := resign(ps, c.Bid)
		if e == nil {
			c = c2
		}
	}
	h.mu.Lock()
	if h.second {
		h.mu.Unlock()
		proto.Merge(m, c)
		return nil
	}
	h.in.Providers[s.idx].Reply = toJC(c)
	prims := []Prim{}
	if c.Bid != nil && c.Bid.Digest != nil && c.Bid.Signature != nil {
		prims = append(prims, prim(c.Bid.Digest, c.Bid.Signature))
	}
	if c.Digest != nil && c.Signature != nil {
		prims = append(prims, prim(c.Digest, c.Signature))
	}
	h.in.Providers[s.idx].Prims = prims
	h.mu.Unlock()
	proto.Merge(m, c)
	return nil
}
func (s *pstream) Reset() error { return nil }
func (s *pstream) Close() error { return nil }

// commitment honestly hashed and signed over an arbitrary embedded bid (if that bid verifies)
func resign(ps preconfsigner.Signer, b *preconfpb.Bid) (*preconfpb.PreConfirmation, error) {
	return ps.ConstructPreConfirmation(b)
}

func (h *harness) NewStream(_ context.Context, p p2p.Peer, _ p2p.Header, _ p2p.StreamDesc) (p2p.Stream, error) {
	idx := int(new(common.Hash).Big().SetBytes(p.EthAddress.Bytes()).Uint64())
	if h.in.Providers[idx].Class == "open-fails" {
		return nil, errors.New("peer not found")
	}
	return &pstream{h, idx}, nil
}

func run(in *In, rng *vh.Rng) (obs Obs) {
	obs.Offered = []*JBid{}
	obs.Delivered = []JDelivered{}
	n := len(in.Providers)
	bks := vh.NewKeySigner(rng)
	bidder := preconfsigner.NewSigner(bks)
	in.BidderAddr = hx(bks.GetAddress().Bytes())
	h := &harness{in: in, obs: &obs, rng: rng, bidder: bidder, captured: make([]*preconfpb.Bid, n)}
	h.oldBid, _ = bidder.ConstructSignedBid("0ldb1d", "7", 42, 1, 2)
	t := &topo{}
	for i := 0; i < n; i++ {
		t.peers = append(t.peers, p2p.Peer{EthAddress: common.BigToAddress(new(common.Hash).Big().SetUint64(uint64(i))), Type: p2p.PeerTypeProvider})
		h.gates = append(h.gates, make(chan struct{}))
		h.signers = append(h.signers, preconfsigner.NewSigner(vh.NewKeySigner(rng)))
		in.Providers[i].Prims = []Prim{}
	}
	pc := preconfirmation.New(t, h, bidder, nil, nil, nil, vh.Quiet())
	before := runtime.NumGoroutine()
	ctx, cancel := context.WithCancel(context.Background())
	defer cancel()
	tx, _ := hex.DecodeString(in.Req.TxHash)
	am, _ := hex.DecodeString(in.Req.Amount)
	defer func() {
		if r := recover(); r != nil {
			obs.Panic = true
		}
	}()
	ch, err := pc.SendBid(ctx, string(tx), string(am), in.Req.Block, in.Req.Start, in.Req.End)
	if err != nil {
		obs.SendErr = true
		obs.Closed = true
		return obs
	}
	var held []*preconfpb.PreConfirmation   // what the caller was given, and keeps
	collect := func(d time.Duration) bool { // false when the channel is closed
		select {
		case c, ok := <-ch:
			if !ok {
				return false
			}
			pa := c.ProviderAddress
			c.ProviderAddress = nil
			obs.Delivered = append(obs.Delivered, JDelivered{*toJC(c), hx(pa)})
			held = append(held, c)
		case <-time.After(d):
		}
		return true
	}
	open := true
	for _, i := range in.Order {
		close(h.gates[i])
		if open {
			open = collect(15 * time.Millisecond)
		}
	}
	if in.Deadline {
		cancel()
	}
	deadline := time.Now().Add(3 * time.Second)
	for open && time.Now().Before(deadline) {
		open = collect(50 * time.Millisecond)
	}
	obs.Closed = !open
	cancel()
	time.Sleep(5 * time.Millisecond)
	for k := 0; k < 50 && runtime.NumGoroutine() > before; k++ {
		time.Sleep(2 * time.Millisecond)
	}
	if g := runtime.NumGoroutine() - before; g > 0 {
		obs.Leaked = g
	}
	// the caller still holds what it was given while the node's next bid goes out through the same
	// instance: what it holds must stay what it was given
	if len(held) > 0 && !in.Deadline {
		h.mu.Lock()
		saved := append([]*preconfpb.Bid{}, h.captured...)
		h.second = true
		h.mu.Unlock()
		ctx2, cancel2 := context.WithTimeout(context.Background(), time.Second)
		if ch2, err := pc.SendBid(ctx2, hx(rng.Bytes(32)), "2000", in.Req.Block+1, in.Req.Start, in.Req.End); err == nil {
			for open2 := true; open2; {
				select {
				case _, ok := <-ch2:
					open2 = ok
				case <-ctx2.Done():
					open2 = false
				}
			}
		}
		cancel2()
		time.Sleep(2 * time.Millisecond)
		h.mu.Lock()
		copy(h.captured, saved)
		h.mu.Unlock()
		for k, c := range held {
			if k < len(obs.Delivered) {
				obs.Delivered[k].Commit = *toJC(c)
			}
		}
	}
	h.mu.Lock()
	defer h.mu.Unlock()
	for i := 0; i < n; i++ {
		obs.Offered = append(obs.Offered, toJ(h.captured[i]))
		if h.captured[i] != nil && in.Sent == nil {
			in.Sent = toJ(h.captured[i])
		}
	}
	sort.Slice(obs.Delivered, func(a, b int) bool { return obs.Delivered[a].Provider < obs.Delivered[b].Provider })
	return obs
}

func main() {
	out := vh.NewOut("C05")
	defer out.Close()
	rng := vh.NewRng(5)
	for _, raw := range vh.Corpus() {
		var in In
		if json.Unmarshal(raw, &in) == nil {
			for i := range in.Providers {
				in.Providers[i].Reply = nil
			}
			in.Sent = nil
			out.EmitGuarded(in, Obs{Panic: true}, func() (any, any) { o := run(&in, rng); return in, o })
		}
	}
	if vh.OnlyReplay() {
		return
	}
	classes := []string{"honest", "honest", "honest", "other-valid-bid", "replayed-bid", "foreign-sig", "invalid-digest", "invalid-sig", "short-sig",
		"nil-bid", "nil-digest", "tampered-embedded-bid", "embedded-bid-other-sig", "claims-other-address", "error-frame", "garbage", "reset", "silence", "open-fails", "write-fails"}
	req := func() JBid {
		return JBid{TxHash: hx([]byte(hx(rng.Bytes(32)))), Amount: hx([]byte("1000")), Block: int64(1 + rng.Intn(1<<30)), Start: 5, End: 9}
	}
	mk := func(tag string, cls []string, deadline bool) {
		in := In{Tag: tag, Deadline: deadline, Req: req()}
		for _, c := range cls {
			in.Providers = append(in.Providers, Provider{Class: c})
		}
		perm := make([]int, len(cls))
		for i := range perm {
			perm[i] = i
		}
		for i := len(perm) - 1; i > 0; i-- {
			j := rng.Intn(i + 1)
			perm[i], perm[j] = perm[j], perm[i]
		}
		in.Order = perm
		out.EmitGuarded(in, Obs{Panic: true}, func() (any, any) { o := run(&in, rng); return in, o })
	}
	// every class alone and next to an honest provider
	for _, c := range classes[2:] {
		mk("single:"+c, []string{c}, c == "silence")
		mk("pair:"+c, []string{"honest", c}, c == "silence")
		mk("pair-rev:"+c, []string{c, "honest"}, c == "silence")
	}
	for i := 0; i < vh.Count(150, 3000); i++ {
		n := rng.Intn(9)
		if n == 0 && rng.Chance(80) {
			n = 1 + rng.Intn(8)
		}
		var cls []string
		silent := false
		for k := 0; k < n; k++ {
			c := classes[rng.Intn(len(classes))]
			silent = silent || c == "silence"
			cls = append(cls, c)
		}
		mk("random", cls, silent)
	}
}

module verif/harness

go 1.21.1

require (
	github.com/bufbuild/protovalidate-go v0.6.0
	github.com/ethereum/go-ethereum v1.13.14
	github.com/libp2p/go-libp2p v0.31.0
	github.com/primevprotocol/contracts-abi v0.2.3
	github.com/primevprotocol/mev-commit v0.0.0
	google.golang.org/grpc v1.62.1
	google.golang.org/protobuf v1.33.0
)

require (
	buf.build/gen/go/bufbuild/protovalidate/protocolbuffers/go v1.32.0-20240221180331-f05a6f4403ce.1 // indirect
	github.com/Masterminds/semver/v3 v3.2.1 // indirect
	github.com/antlr4-go/antlr/v4 v4.13.0 // indirect
	github.com/benbjohnson/clock v1.3.5 // indirect
	github.com/beorn7/perks v1.0.1 // indirect
	github.com/bits-and-blooms/bitset v1.10.0 // indirect
	github.com/cespare/xxhash/v2 v2.2.0 // indirect
	github.com/consensys/bavard v0.1.13 // indirect
	github.com/consensys/gnark-crypto v0.12.1 // indirect
	github.com/containerd/cgroups v1.1.0 // indirect
	github.com/coreos/go-systemd/v22 v22.5.0 // indirect
	github.com/crate-crypto/go-kzg-4844 v0.7.0 // indirect
	github.com/davidlazar/go-crypto v0.0.0-20200604182044-b73af7476f6c // indirect
	github.com/deckarep/golang-set/v2 v2.1.0 // indirect
	github.com/decred/dcrd/dcrec/secp256k1/v4 v4.2.0 // indirect
	github.com/docker/go-units v0.5.0 // indirect
	github.com/elastic/gosigar v0.14.2 // indirect
	github.com/flynn/noise v1.0.0 // indirect
	github.com/francoispqt/gojay v1.2.13 // indirect
	github.com/fsnotify/fsnotify v1.6.0 // indirect
	github.com/godbus/dbus/v5 v5.1.0 // indirect
	github.com/gogo/protobuf v1.3.2 // indirect
	github.com/golang/protobuf v1.5.3 // indirect
	github.com/google/cel-go v0.20.0 // indirect
	github.com/google/gopacket v1.1.19 // indirect
	github.com/google/uuid v1.6.0 // indirect
	github.com/gorilla/websocket v1.5.0 // indirect
	github.com/grpc-ecosystem/grpc-gateway/v2 v2.19.1 // indirect
	github.com/hashicorp/golang-lru/v2 v2.0.7 // indirect
	github.com/holiman/uint256 v1.2.4 // indirect
	github.com/huin/goupnp v1.3.0 // indirect
	github.com/ipfs/go-cid v0.4.1 // indirect
	github.com/ipfs/go-log/v2 v2.5.1 // indirect
	github.com/jackpal/go-nat-pmp v1.0.2 // indirect
	github.com/jbenet/go-temp-err-catcher v0.1.0 // indirect
	github.com/klauspost/compress v1.16.7 // indirect
	github.com/klauspost/cpuid/v2 v2.2.6 // indirect
	github.com/koron/go-ssdp v0.0.4 // indirect
	github.com/libp2p/go-buffer-pool v0.1.0 // indirect
	github.com/libp2p/go-cidranger v1.1.0 // indirect
	github.com/libp2p/go-flow-metrics v0.1.0 // indirect
	github.com/libp2p/go-libp2p-asn-util v0.3.0 // indirect
	github.com/libp2p/go-msgio v0.3.0 // indirect
	github.com/libp2p/go-nat v0.2.0 // indirect
	github.com/libp2p/go-netroute v0.2.1 // indirect
	github.com/libp2p/go-reuseport v0.4.0 // indirect
	github.com/libp2p/go-yamux/v4 v4.0.1 // indirect
	github.com/marten-seemann/tcp v0.0.0-20210406111302-dfbc87cc63fd // indirect
	github.com/mattn/go-isatty v0.0.19 // indirect
	github.com/matttproud/golang_protobuf_extensions/v2 v2.0.0 // indirect
	github.com/miekg/dns v1.1.55 // indirect
	github.com/mikioh/tcpinfo v0.0.0-20190314235526-30a79bb1804b // indirect
	github.com/mikioh/tcpopt v0.0.0-20190314235656-172688c1accc // indirect
	github.com/mmcloughlin/addchain v0.4.0 // indirect
	github.com/mr-tron/base58 v1.2.0 // indirect
	github.com/multiformats/go-base32 v0.1.0 // indirect
	github.com/multiformats/go-base36 v0.2.0 // indirect
	github.com/multiformats/go-multiaddr v0.12.2 // indirect
	github.com/multiformats/go-multiaddr-dns v0.3.1 // indirect
	github.com/multiformats/go-multiaddr-fmt v0.1.0 // indirect
	github.com/multiformats/go-multibase v0.2.0 // indirect
	github.com/multiformats/go-multicodec v0.9.0 // indirect
	github.com/multiformats/go-multihash v0.2.3 // indirect
	github.com/multiformats/go-multistream v0.4.1 // indirect
	github.com/multiformats/go-varint v0.0.7 // indirect
	github.com/opencontainers/runtime-spec v1.1.0 // indirect
	github.com/pbnjay/memory v0.0.0-20210728143218-7b4eea64cf58 // indirect
	github.com/prometheus/client_golang v1.18.0 // indirect
	github.com/prometheus/client_model v0.5.0 // indirect
	github.com/prometheus/common v0.45.0 // indirect
	github.com/prometheus/procfs v0.12.0 // indirect
	github.com/quic-go/qpack v0.4.0 // indirect
	github.com/quic-go/quic-go v0.38.2 // indirect
	github.com/quic-go/webtransport-go v0.5.3 // indirect
	github.com/raulk/go-watchdog v1.3.0 // indirect
	github.com/shirou/gopsutil v3.21.4-0.20210419000835-c7a38de76ee5+incompatible // indirect
	github.com/spaolacci/murmur3 v1.1.0 // indirect
	github.com/stoewer/go-strcase v1.3.0 // indirect
	github.com/tklauser/go-sysconf v0.3.12 // indirect
	github.com/tklauser/numcpus v0.6.1 // indirect
	go.uber.org/dig v1.17.0 // indirect
	go.uber.org/fx v1.20.0 // indirect
	go.uber.org/multierr v1.11.0 // indirect
	go.uber.org/zap v1.25.0 // indirect
	golang.org/x/crypto v0.21.0 // indirect
	golang.org/x/exp v0.0.0-20240119083558-1b970713d09a // indirect
	golang.org/x/net v0.21.0 // indirect
	golang.org/x/sync v0.6.0 // indirect
	golang.org/x/sys v0.18.0 // indirect
	golang.org/x/text v0.14.0 // indirect
	golang.org/x/time v0.5.0 // indirect
	google.golang.org/genproto/googleapis/api v0.0.0-20240125205218-1f4bbc51befe // indirect
	google.golang.org/genproto/googleapis/rpc v0.0.0-20240125205218-1f4bbc51befe // indirect
	lukechampine.com/blake3 v1.2.1 // indirect
	rsc.io/tmplfunc v0.0.3 // indirect
)

replace github.com/primevprotocol/mev-commit => /repo

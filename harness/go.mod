module verif/harness

go 1.21.1

require (
	github.com/bufbuild/protovalidate-go v0.6.0
	github.com/ethereum/go-ethereum v1.13.14
	github.com/primevprotocol/contracts-abi v0.2.3
	github.com/primevprotocol/mev-commit v0.0.0
	google.golang.org/grpc v1.62.1
	google.golang.org/protobuf v1.33.0
)

require (
	buf.build/gen/go/bufbuild/protovalidate/protocolbuffers/go v1.32.0-20240221180331-f05a6f4403ce.1 // indirect
	github.com/antlr4-go/antlr/v4 v4.13.0 // indirect
	github.com/beorn7/perks v1.0.1 // indirect
	github.com/bits-and-blooms/bitset v1.10.0 // indirect
	github.com/cespare/xxhash/v2 v2.2.0 // indirect
	github.com/consensys/bavard v0.1.13 // indirect
	github.com/consensys/gnark-crypto v0.12.1 // indirect
	github.com/crate-crypto/go-kzg-4844 v0.7.0 // indirect
	github.com/deckarep/golang-set/v2 v2.1.0 // indirect
	github.com/fsnotify/fsnotify v1.6.0 // indirect
	github.com/golang/protobuf v1.5.3 // indirect
	github.com/google/cel-go v0.20.0 // indirect
	github.com/google/uuid v1.6.0 // indirect
	github.com/gorilla/websocket v1.5.0 // indirect
	github.com/grpc-ecosystem/grpc-gateway/v2 v2.19.1 // indirect
	github.com/holiman/uint256 v1.2.4 // indirect
	github.com/matttproud/golang_protobuf_extensions/v2 v2.0.0 // indirect
	github.com/mmcloughlin/addchain v0.4.0 // indirect
	github.com/prometheus/client_golang v1.18.0 // indirect
	github.com/prometheus/client_model v0.5.0 // indirect
	github.com/prometheus/common v0.45.0 // indirect
	github.com/prometheus/procfs v0.12.0 // indirect
	github.com/shirou/gopsutil v3.21.4-0.20210419000835-c7a38de76ee5+incompatible // indirect
	github.com/stoewer/go-strcase v1.3.0 // indirect
	github.com/tklauser/go-sysconf v0.3.12 // indirect
	github.com/tklauser/numcpus v0.6.1 // indirect
	golang.org/x/crypto v0.21.0 // indirect
	golang.org/x/exp v0.0.0-20240119083558-1b970713d09a // indirect
	golang.org/x/net v0.21.0 // indirect
	golang.org/x/sync v0.6.0 // indirect
	golang.org/x/sys v0.18.0 // indirect
	golang.org/x/text v0.14.0 // indirect
	google.golang.org/genproto/googleapis/api v0.0.0-20240125205218-1f4bbc51befe // indirect
	google.golang.org/genproto/googleapis/rpc v0.0.0-20240125205218-1f4bbc51befe // indirect
	rsc.io/tmplfunc v0.0.3 // indirect
)

replace github.com/primevprotocol/mev-commit => /repo

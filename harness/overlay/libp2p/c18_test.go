package libp2p

// C18 correspondence driver: the real identity pipeline
//   util.PadKeyTo32Bytes -> UnmarshalSecp256k1PrivateKey -> peer id -> GetEthAddressFromPeerID
// against crypto.PubkeyToAddress / the key signer's GetAddress, for keys with exactly 0..31
// leading zero bytes, the boundary scalars 1 and n-1, keys whose public coordinates have
// leading zero bytes, and random keys; a sample goes through the real libp2p.New.

import (
	"crypto/ecdsa"
	"encoding/hex"
	"encoding/json"
	"math/big"
	"testing"

	"github.com/ethereum/go-ethereum/crypto"
	libp2pcrypto "github.com/libp2p/go-libp2p/core/crypto"
	"github.com/libp2p/go-libp2p/core/peer"
	mockkeysigner "github.com/primevprotocol/mev-commit/pkg/keysigner/mock"
	"github.com/primevprotocol/mev-commit/pkg/p2p"
	"github.com/primevprotocol/mev-commit/pkg/util"
)

type c18In struct {
	Tag          string `json:"tag"`
	D            string `json:"d"`            // scalar, hex
	Compressed   string `json:"compressed"`   // prim: 33-byte public key
	Uncompressed string `json:"uncompressed"` // prim: 65-byte public key
	ViaNew       bool   `json:"via_new"`      // also started a real Service with this key
}
type c18Obs struct {
	Pad      string `json:"pad"`
	PeerID   string `json:"peerid"`
	AddrPeer string `json:"addr_peer"` // address via the peer id ("" on error)
	AddrKey  string `json:"addr_key"`  // address the key signs with
	Err      string `json:"err,omitempty"`
	NewAddr  string `json:"new_addr,omitempty"` // Service.ethAddress when started through New
	NewID    string `json:"new_id,omitempty"`
	Panic    bool   `json:"panic"`
}

type c18Registry struct{}

func c18Run(in c18In) (obs c18Obs) {
	defer func() {
		if r := recover(); r != nil {
			obs.Panic = true
		}
	}()
	db, _ := hex.DecodeString(in.D)
	d := new(big.Int).SetBytes(db)
	priv := new(ecdsa.PrivateKey)
	priv.D = d
	priv.PublicKey.Curve = crypto.S256()
	priv.PublicKey.X, priv.PublicKey.Y = crypto.S256().ScalarBaseMult(d.Bytes())
	obs.AddrKey = hex.EncodeToString(crypto.PubkeyToAddress(priv.PublicKey).Bytes())
	pad := util.PadKeyTo32Bytes(priv.D)
	obs.Pad = hex.EncodeToString(pad)
	lk, err := libp2pcrypto.UnmarshalSecp256k1PrivateKey(pad)
	if err != nil {
		obs.Err = "unmarshal"
		return obs
	}
	id, err := peer.IDFromPrivateKey(lk)
	if err != nil {
		obs.Err = "id"
		return obs
	}
	obs.PeerID = hex.EncodeToString([]byte(id))
	a, err := GetEthAddressFromPeerID(id)
	if err != nil {
		obs.Err = "addr"
		return obs
	}
	obs.AddrPeer = hex.EncodeToString(a.Bytes())
	if in.ViaNew {
		ks := mockkeysigner.NewMockKeySigner(priv, crypto.PubkeyToAddress(priv.PublicKey))
		svc, err := New(&Options{KeySigner: ks, Secret: "verif", ListenPort: 0, ListenAddr: "127.0.0.1", PeerType: p2p.PeerTypeBidder,
			Logger: util.NewTestLogger(discard{})})
		if err != nil {
			obs.Err = "new"
			return obs
		}
		obs.NewAddr = hex.EncodeToString(svc.ethAddress.Bytes())
		obs.NewID = hex.EncodeToString([]byte(svc.host.ID()))
		svc.Close()
	}
	return obs
}

func TestVerifC18(t *testing.T) {
	out := newVout(t, "C18")
	defer out.close()
	mk := func(tag string, d *big.Int, viaNew bool) c18In {
		x, y := crypto.S256().ScalarBaseMult(d.Bytes())
		pub := ecdsa.PublicKey{Curve: crypto.S256(), X: x, Y: y}
		return c18In{Tag: tag, D: hex.EncodeToString(d.Bytes()), Compressed: hex.EncodeToString(crypto.CompressPubkey(&pub)),
			Uncompressed: hex.EncodeToString(crypto.FromECDSAPub(&pub)), ViaNew: viaNew}
	}
	for _, raw := range vcorpus() {
		var in c18In
		if json.Unmarshal(raw, &in) == nil {
			out.emit(in, c18Run(in))
		}
	}
	if vonlyReplay() {
		return
	}
	rng := newVrng(vseed(), 18)
	n := crypto.S256().Params().N
	out.emit(mk("one", big.NewInt(1), true), c18Run(mk("one", big.NewInt(1), true)))
	nm1 := new(big.Int).Sub(n, big.NewInt(1))
	out.emit(mk("n-1", nm1, true), c18Run(mk("n-1", nm1, true)))
	per := vcount(6, 60)
	for k := 0; k <= 31; k++ {
		for j := 0; j < per; j++ {
			b := rng.bytes(32 - k)
			if b[0] == 0 {
				b[0] = 1
			}
			d := new(big.Int).SetBytes(b)
			if d.Cmp(n) >= 0 {
				d.Rsh(d, 1)
				if k > 0 || d.BitLen() <= 248 {
					j--
					continue
				}
			}
			in := mk("leading-zeros", d, j == 0 && (k%4 == int(vseed()%4) || vthorough()))
			out.emit(in, c18Run(in))
		}
	}
	// public keys whose X or Y has a leading zero byte (about 1 key in 128)
	found, tries := 0, 0
	for found < vcount(6, 60) && tries < 200000 {
		tries++
		d := new(big.Int).SetBytes(rng.bytes(32))
		if d.Sign() == 0 || d.Cmp(n) >= 0 {
			continue
		}
		x, y := crypto.S256().ScalarBaseMult(d.Bytes())
		if len(x.Bytes()) < 32 || len(y.Bytes()) < 32 {
			in := mk("pub-coordinate-leading-zero", d, found == 0)
			out.emit(in, c18Run(in))
			found++
		}
	}
	for i := 0; i < vcount(300, 5000); i++ {
		d := new(big.Int).SetBytes(rng.bytes(32))
		if d.Sign() == 0 || d.Cmp(n) >= 0 {
			continue
		}
		in := mk("random", d, false)
		out.emit(in, c18Run(in))
	}
}

package libp2p

// C18 correspondence driver: the real identity pipeline
//   util.PadKeyTo32Bytes -> UnmarshalSecp256k1PrivateKey -> peer id -> GetEthAddressFromPeerID
// against crypto.PubkeyToAddress / the key signer's GetAddress, for keys with exactly 0..31
// leading zero bytes, the boundary scalars 1 and n-1, keys whose public coordinates have
// leading zero bytes, and random keys; a sample goes through the real libp2p.New.

import (
	"bytes"
	"context"
	"crypto/ecdsa"
	"encoding/hex"
	"encoding/json"
	"io"
	"math/big"
	"sync"
	"testing"
	"os"
	"path/filepath"
	"github.com/primevprotocol/mev-commit/pkg/keysigner"
	"time"

	"github.com/ethereum/go-ethereum/accounts/keystore"
	"github.com/ethereum/go-ethereum/crypto"
	libp2pcrypto "github.com/libp2p/go-libp2p/core/crypto"
	"github.com/libp2p/go-libp2p/core/peer"
	mockkeysigner "github.com/primevprotocol/mev-commit/pkg/keysigner/mock"
	"github.com/primevprotocol/mev-commit/pkg/p2p"
	"github.com/primevprotocol/mev-commit/pkg/p2p/libp2p/internal/handshake"
	"github.com/primevprotocol/mev-commit/pkg/signer"
	"github.com/primevprotocol/mev-commit/pkg/util"
)

// the peers' side of the statement: a verifying node (real handshake service, real signer, real
// GetEthAddressFromPeerID) runs its inbound handshake against an honest node started with the
// key.  Returns the address it admitted the peer with ("" when it refused).
func c18Admit(hs *handshake.Service, own *ecdsa.PrivateKey, priv *ecdsa.PrivateKey) string {
	lk, err := libp2pcrypto.UnmarshalSecp256k1PrivateKey(util.PadKeyTo32Bytes(priv.D))
	if err != nil {
		return ""
	}
	pid, err := peer.IDFromPrivateKey(lk)
	if err != nil {
		return ""
	}
	sig, err := crypto.Sign(crypto.Keccak256([]byte("bidder"+"tok")), priv)
	if err != nil {
		return ""
	}
	hx := hex.EncodeToString
	req := c04Frame{T: "req", Role: hx([]byte("bidder")), Token: hx([]byte("tok")), Sig: hx(sig)}
	echo := c04Frame{T: "resp", Observed: hx(crypto.PubkeyToAddress(own.PublicKey).Bytes()), Role: hx([]byte("provider"))}
	wire := append(c04FrameBytes(req), c04FrameBytes(echo)...)
	ls := &c04Stream{rd: bytes.NewReader(wire), conn: &c04Conn{pid: pid}, writeFail: -1}
	var p *p2p.Peer
	func() {
		defer func() { recover() }()
		p, err = hs.Handle(context.Background(), newStream(ls, nil, nil), pid)
	}()
	if err != nil || p == nil {
		return ""
	}
	return hx(p.EthAddress.Bytes())
}

// an in-memory duplex stream between two handshake services
type c18PipeEnd struct {
	r *io.PipeReader
	w *io.PipeWriter
}

func (e *c18PipeEnd) Read(p []byte) (int, error)  { return e.r.Read(p) }
func (e *c18PipeEnd) Write(p []byte) (int, error) { return e.w.Write(p) }
func (e *c18PipeEnd) Close() error                { e.w.Close(); return nil }
func (e *c18PipeEnd) Reset() error                { e.w.CloseWithError(io.ErrClosedPipe); e.r.CloseWithError(io.ErrClosedPipe); return nil }

func c18Pipe() (*c18PipeEnd, *c18PipeEnd) {
	r1, w1 := io.Pipe()
	r2, w2 := io.Pipe()
	return &c18PipeEnd{r1, w2}, &c18PipeEnd{r2, w1}
}

// c18TwoServices: two honest nodes — each a real handshake service built the way libp2p.New builds
// it, with its own key and its own configured secret — handshake with each other.  Returns the
// address each side admitted the other with ("" when it refused).
func c18TwoServices(kA, kB *ecdsa.PrivateKey, secretA, secretB string, roleA, roleB p2p.PeerType) (aSeenByB, bSeenByA string) {
	mkID := func(k *ecdsa.PrivateKey) peer.ID {
		lk, _ := libp2pcrypto.UnmarshalSecp256k1PrivateKey(util.PadKeyTo32Bytes(k.D))
		id, _ := peer.IDFromPrivateKey(lk)
		return id
	}
	mk := func(k *ecdsa.PrivateKey, secret string, role p2p.PeerType) *handshake.Service {
		hs, err := handshake.New(mockkeysigner.NewMockKeySigner(k, crypto.PubkeyToAddress(k.PublicKey)), role, secret, signer.New(),
			&c04Reg{answer: true}, GetEthAddressFromPeerID)
		if err != nil {
			return nil
		}
		return hs
	}
	hsA, hsB := mk(kA, secretA, roleA), mk(kB, secretB, roleB)
	if hsA == nil || hsB == nil {
		return "", ""
	}
	ea, eb := c18Pipe()
	ctx, cancel := context.WithTimeout(context.Background(), 3*time.Second)
	defer cancel()
	type res struct {
		p   *p2p.Peer
		err error
	}
	rb := make(chan res, 1)
	go func() {
		defer func() {
			if r := recover(); r != nil {
				rb <- res{nil, io.ErrUnexpectedEOF}
			}
		}()
		p, err := hsB.Handle(ctx, newStream(eb, nil, nil), mkID(kA))
		if err != nil {
			eb.Reset()
		}
		rb <- res{p, err}
	}()
	var pa *p2p.Peer
	var errA error
	func() {
		defer func() {
			if r := recover(); r != nil {
				errA = io.ErrUnexpectedEOF
			}
		}()
		pa, errA = hsA.Handshake(ctx, mkID(kB), newStream(ea, nil, nil))
	}()
	if errA != nil {
		ea.Reset()
	}
	b := <-rb
	if b.err == nil && b.p != nil {
		aSeenByB = hex.EncodeToString(b.p.EthAddress.Bytes())
	}
	if errA == nil && pa != nil {
		bSeenByA = hex.EncodeToString(pa.EthAddress.Bytes())
	}
	return
}

func c18Key(d *big.Int) *ecdsa.PrivateKey {
	priv := new(ecdsa.PrivateKey)
	priv.D = d
	priv.PublicKey.Curve = crypto.S256()
	priv.PublicKey.X, priv.PublicKey.Y = crypto.S256().ScalarBaseMult(d.Bytes())
	return priv
}

type c18In struct {
	Tag          string `json:"tag"`
	D            string `json:"d"`            // scalar, hex
	Compressed   string `json:"compressed"`   // prim: 33-byte public key
	Uncompressed string `json:"uncompressed"` // prim: 65-byte public key
	ViaNew       bool   `json:"via_new"`      // also started a real Service with this key
	// via_new: the key comes from the node's own file-backed signer, and the key file is replaced
	// by another key after the signer was created and before the Service is started (the node keeps
	// signing with the key it loaded; its transport identity must be that key's too)
	FileSigner bool `json:"file_signer,omitempty"`
	// via_new: the key lives in an encrypted keystore (the node's other signer); the signer is long-
	// lived: the p2p service is built from it, closed, and built from it again (restart of the
	// service inside the process, a retry after a failed start) — what is reported is the second one
	Keystore bool `json:"keystore,omitempty"`
}
type c18Obs struct {
	Pad      string `json:"pad"`
	PeerID   string `json:"peerid"`
	AddrPeer string `json:"addr_peer"` // address via the peer id ("" on error)
	AddrKey  string `json:"addr_key"`  // address the key signs with
	Err      string `json:"err,omitempty"`
	NewAddr  string `json:"new_addr,omitempty"` // Service.ethAddress when started through New
	NewID    string `json:"new_id,omitempty"`
	Panic    bool   `json:"panic"`
}

type c18Registry struct{}

func c18Run(in c18In) (obs c18Obs) {
	defer func() {
		if r := recover(); r != nil {
			obs.Panic = true
		}
	}()
	db, _ := hex.DecodeString(in.D)
	d := new(big.Int).SetBytes(db)
	priv := new(ecdsa.PrivateKey)
	priv.D = d
	priv.PublicKey.Curve = crypto.S256()
	priv.PublicKey.X, priv.PublicKey.Y = crypto.S256().ScalarBaseMult(d.Bytes())
	obs.AddrKey = hex.EncodeToString(crypto.PubkeyToAddress(priv.PublicKey).Bytes())
	pad := util.PadKeyTo32Bytes(priv.D)
	obs.Pad = hex.EncodeToString(pad)
	lk, err := libp2pcrypto.UnmarshalSecp256k1PrivateKey(pad)
	if err != nil {
		obs.Err = "unmarshal"
		return obs
	}
	id, err := peer.IDFromPrivateKey(lk)
	if err != nil {
		obs.Err = "id"
		return obs
	}
	obs.PeerID = hex.EncodeToString([]byte(id))
	a, err := GetEthAddressFromPeerID(id)
	if err != nil {
		obs.Err = "addr"
		return obs
	}
	obs.AddrPeer = hex.EncodeToString(a.Bytes())
	if in.ViaNew {
		var ks keysigner.KeySigner = mockkeysigner.NewMockKeySigner(priv, crypto.PubkeyToAddress(priv.PublicKey))
		if in.FileSigner {
			dir, err := os.MkdirTemp("", "verif-c18-")
			if err != nil {
				obs.Err = "tmp"
				return obs
			}
			defer os.RemoveAll(dir)
			path := filepath.Join(dir, "key")
			if err := os.WriteFile(path, []byte(hex.EncodeToString(pad)), 0o600); err != nil {
				obs.Err = "tmp"
				return obs
			}
			pks, err := keysigner.NewPrivateKeySigner(path)
			if err != nil {
				obs.Err = "filesigner"
				return obs
			}
			other, _ := crypto.GenerateKey()
			_ = os.WriteFile(path, []byte(hex.EncodeToString(crypto.FromECDSA(other))), 0o600)
			if pks.GetAddress() != crypto.PubkeyToAddress(priv.PublicKey) {
				obs.Err = "filesigner-address"
				return obs
			}
			ks = pks
		}
		if in.Keystore {
			dir, err := os.MkdirTemp("", "verif-c18ks-")
			if err != nil {
				obs.Err = "tmp"
				return obs
			}
			defer os.RemoveAll(dir)
			cp := c18Key(new(big.Int).Set(d))
			if _, err := keystore.NewKeyStore(dir, keystore.LightScryptN, keystore.LightScryptP).ImportECDSA(cp, "pw"); err != nil {
				obs.Err = "keystore-import"
				return obs
			}
			kss, err := keysigner.NewKeystoreSigner(dir, "pw")
			if err != nil {
				obs.Err = "keystore"
				return obs
			}
			if kss.GetAddress() != crypto.PubkeyToAddress(priv.PublicKey) {
				obs.Err = "keystore-address"
				return obs
			}
			ks = kss
			first, err := New(&Options{KeySigner: ks, Secret: "verif", ListenPort: 0, ListenAddr: "127.0.0.1", PeerType: p2p.PeerTypeBidder,
				Logger: util.NewTestLogger(discard{})})
			if err != nil {
				obs.Err = "new-first"
				return obs
			}
			firstID := first.host.ID()
			first.Close()
			defer func() {
				if obs.Err == "" && obs.NewID != hex.EncodeToString([]byte(firstID)) {
					obs.Err = "second-service-has-another-identity"
				}
			}()
		}
		svc, err := New(&Options{KeySigner: ks, Secret: "verif", ListenPort: 0, ListenAddr: "127.0.0.1", PeerType: p2p.PeerTypeBidder,
			Logger: util.NewTestLogger(discard{})})
		if err != nil {
			obs.Err = "new"
			return obs
		}
		obs.NewAddr = hex.EncodeToString(svc.ethAddress.Bytes())
		obs.NewID = hex.EncodeToString([]byte(svc.host.ID()))
		svc.Close()
	}
	return obs
}

func TestVerifC18(t *testing.T) {
	out := newVout(t, "C18")
	defer out.close()
	mk := func(tag string, d *big.Int, viaNew bool) c18In {
		x, y := crypto.S256().ScalarBaseMult(d.Bytes())
		pub := ecdsa.PublicKey{Curve: crypto.S256(), X: x, Y: y}
		return c18In{Tag: tag, D: hex.EncodeToString(d.Bytes()), Compressed: hex.EncodeToString(crypto.CompressPubkey(&pub)),
			Uncompressed: hex.EncodeToString(crypto.FromECDSAPub(&pub)), ViaNew: viaNew}
	}
	for _, raw := range vcorpus() {
		var in c18In
		if json.Unmarshal(raw, &in) == nil {
			out.emit(in, c18Run(in))
		}
	}
	if vonlyReplay() {
		return
	}
	rng := newVrng(vseed(), 18)
	n := crypto.S256().Params().N
	out.emit(mk("one", big.NewInt(1), true), c18Run(mk("one", big.NewInt(1), true)))
	nm1 := new(big.Int).Sub(n, big.NewInt(1))
	out.emit(mk("n-1", nm1, true), c18Run(mk("n-1", nm1, true)))
	for k := 0; k < vcount(4, 40); k++ {
		b := rng.bytes(32 - k%3)
		if b[0] == 0 {
			b[0] = 1
		}
		d := new(big.Int).SetBytes(b)
		if d.Cmp(n) >= 0 {
			continue
		}
		in := mk("file-signer-key-file-replaced", d, true)
		in.FileSigner = true
		out.emit(in, c18Run(in))
	}
	for k := 0; k < vcount(2, 12); k++ {
		b := rng.bytes(32 - k%4)
		if b[0] == 0 {
			b[0] = 1
		}
		d := new(big.Int).SetBytes(b)
		if d.Cmp(n) >= 0 {
			continue
		}
		in := mk("keystore-signer-second-service", d, true)
		in.Keystore = true
		out.emit(in, c18Run(in))
	}
	per := vcount(6, 60)
	for k := 0; k <= 31; k++ {
		for j := 0; j < per; j++ {
			b := rng.bytes(32 - k)
			if b[0] == 0 {
				b[0] = 1
			}
			d := new(big.Int).SetBytes(b)
			if d.Cmp(n) >= 0 {
				d.Rsh(d, 1)
				if k > 0 || d.BitLen() <= 248 {
					j--
					continue
				}
			}
			in := mk("leading-zeros", d, j == 0 && (k%4 == int(vseed()%4) || vthorough()))
			out.emit(in, c18Run(in))
		}
	}
	// public keys whose X or Y has a leading zero byte (about 1 key in 128)
	found, tries := 0, 0
	for found < vcount(6, 60) && tries < 200000 {
		tries++
		d := new(big.Int).SetBytes(rng.bytes(32))
		if d.Sign() == 0 || d.Cmp(n) >= 0 {
			continue
		}
		x, y := crypto.S256().ScalarBaseMult(d.Bytes())
		if len(x.Bytes()) < 32 || len(y.Bytes()) < 32 {
			in := mk("pub-coordinate-leading-zero", d, found == 0)
			out.emit(in, c18Run(in))
			found++
		}
	}
	for i := 0; i < vcount(300, 5000); i++ {
		d := new(big.Int).SetBytes(rng.bytes(32))
		if d.Sign() == 0 || d.Cmp(n) >= 0 {
			continue
		}
		in := mk("random", d, false)
		out.emit(in, c18Run(in))
	}
	// honest nodes handshaking with one verifying node: one after the other, a key and its
	// negation (same X coordinate) in both orders, and many at the same instant
	ownKey := c18Key(new(big.Int).SetBytes(append([]byte{1}, rng.bytes(31)...)))
	hs, err := handshake.New(mockkeysigner.NewMockKeySigner(ownKey, crypto.PubkeyToAddress(ownKey.PublicKey)), p2p.PeerTypeProvider,
		"token-local", signer.New(), &c04Reg{answer: true}, GetEthAddressFromPeerID)
	if err != nil {
		t.Fatal(err)
	}
	judge := func(tag string, d *big.Int, admitted string) {
		in := mk(tag, d, false)
		obs := c18Run(in)
		if obs.Err == "" {
			obs.AddrPeer = admitted
			if admitted == "" {
				obs.Err = "honest-peer-refused"
			}
		}
		out.emit(in, obs)
	}
	var ds []*big.Int
	for i := 0; i < vcount(12, 60); i++ {
		d := new(big.Int).SetBytes(rng.bytes(32 - i%5))
		if d.Sign() == 0 || d.Cmp(n) >= 0 {
			continue
		}
		ds = append(ds, d, new(big.Int).Sub(n, d))
	}
	for _, d := range ds {
		judge("honest-handshake", d, c18Admit(hs, ownKey, c18Key(d)))
	}
	// two honest nodes with their own secrets (plain, with blanks or a newline around them, empty,
	// different from each other), in both directions and role pairs
	secrets := []string{"test", "hello\n", " padded ", "\tkey", "", "two words", "ends with blank "}
	for i, d := range ds {
		if i >= vcount(14, 60) {
			break
		}
		kA, kB := c18Key(d), c18Key(ds[(i+3)%len(ds)])
		sA, sB := secrets[i%len(secrets)], secrets[(i/2)%len(secrets)]
		rolesAB := [][2]p2p.PeerType{{p2p.PeerTypeBidder, p2p.PeerTypeProvider}, {p2p.PeerTypeProvider, p2p.PeerTypeBidder}, {p2p.PeerTypeProvider, p2p.PeerTypeBootnode}}[i%3]
		a, b := c18TwoServices(kA, kB, sA, sB, rolesAB[0], rolesAB[1])
		judge("honest-two-services-initiator", d, a)
		judge("honest-two-services-responder", ds[(i+3)%len(ds)], b)
	}
	keys := make([]*ecdsa.PrivateKey, len(ds))
	for i, d := range ds {
		keys[i] = c18Key(d)
	}
	want := make([]string, len(ds))
	for i := range ds {
		want[i] = hex.EncodeToString(crypto.PubkeyToAddress(keys[i].PublicKey).Bytes())
	}
	bad := make([]int, len(ds))
	var mu sync.Mutex
	var wg sync.WaitGroup
	for g := 0; g < 8; g++ {
		wg.Add(1)
		go func(g int) {
			defer wg.Done()
			for r := 0; r < vcount(150, 1500); r++ {
				i := (g*7 + r) % len(keys)
				if c18Admit(hs, ownKey, keys[i]) != want[i] {
					mu.Lock()
					bad[i]++
					mu.Unlock()
				}
			}
		}(g)
	}
	wg.Wait()
	for i, d := range ds {
		a := want[i]
		if bad[i] > 0 {
			a = ""
		}
		judge("honest-handshake-concurrent", d, a)
	}
}

package libp2p

// C13 correspondence driver: the real stream / metadataStream over an in-memory byte stream
// delivered in adversarial chunkings.  Case = list of writes (messages of the protocols' types,
// status errors, raw frames) + chunking; observation = the wire bytes produced and the list of
// read results.  Header maps: written and read back through the real metadataStream.

import (
	"sync"
	"bytes"
	"context"
	"encoding/binary"
	"encoding/hex"
	"encoding/json"
	"errors"
	"fmt"
	"io"
	"strings"
	"testing"
	"time"

	"github.com/libp2p/go-libp2p/core/host"
	"github.com/libp2p/go-libp2p/core/network"
	"github.com/libp2p/go-libp2p/core/peer"
	"github.com/libp2p/go-libp2p/core/protocol"
	"github.com/libp2p/go-msgio"
	discoverypb "github.com/primevprotocol/mev-commit/gen/go/discovery/v1"
	handshakepb "github.com/primevprotocol/mev-commit/gen/go/handshake/v1"
	preconfpb "github.com/primevprotocol/mev-commit/gen/go/preconfirmation/v1"
	"github.com/primevprotocol/mev-commit/pkg/p2p"
	"github.com/primevprotocol/mev-commit/pkg/util"
	"github.com/prometheus/client_golang/prometheus"
	"google.golang.org/grpc/codes"
	"google.golang.org/grpc/status"
	"google.golang.org/protobuf/proto"
	"google.golang.org/protobuf/types/known/emptypb"
	"google.golang.org/protobuf/types/known/structpb"
	"google.golang.org/protobuf/types/known/wrapperspb"
)

type c13Write struct {
	T    string `json:"t"`              // msg | error | raw
	Ty   string `json:"ty,omitempty"`   // message type
	P    string `json:"p,omitempty"`    // msg: marshalled inner message (hex); raw: frame payload (hex)
	Fill int    `json:"fill,omitempty"` // msg of type bytes whose value is `fill` bytes of 0x61 (large payloads)
	Code int    `json:"code,omitempty"`
	Msg  string `json:"msg,omitempty"`  // error message (hex)
	Len  *int64 `json:"len,omitempty"`  // raw: explicit length prefix (may lie)
	// error: produced not by WriteError directly but by a protocol handler returning it through the
	// node's real stream wrapper (AddStreamHandlers); kind of error the handler returned
	Via string `json:"via,omitempty"` // "" | status | plain | wrapped-cancel | late-read
	// via the wrapper: the handler has been running for this long when it returns the error (or,
	// late-read, when it reads the message the remote peer wrote to it)
	HoldMs int `json:"hold_ms,omitempty"`
}
type c13In struct {
	Tag    string     `json:"tag"`
	Writes []c13Write `json:"writes"`
	Chunk  int        `json:"chunk"` // 0 = all at once, n>0 = n bytes at a time, -1 = random splits
	Header   string   `json:"header,omitempty"`
	IsHeader bool     `json:"is_header,omitempty"`
	// the writes (all of type msg) are issued at the same time on one stream whose transport is
	// not taking bytes yet: the first is inside the transport's Write, the others queue behind it,
	// then the transport drains.  Order among them is not defined; the harness lists what was read
	// in the order of the writes it equals (anything left over last).
	Concurrent bool `json:"concurrent,omitempty"`
}

// a transport that takes no bytes until released
type c13GateW struct {
	c13Buf
	mu      sync.Mutex
	gate    chan struct{}
	entered chan struct{}
}

func (g *c13GateW) Write(p []byte) (int, error) {
	select {
	case g.entered <- struct{}{}:
	default:
	}
	<-g.gate
	g.mu.Lock()
	defer g.mu.Unlock()
	return g.c13Buf.Write(p)
}
type c13Read struct {
	T     string `json:"t"` // data | status | oknodata | nodata | malformed | toolarge | truncated | inner-err
	P     string `json:"p,omitempty"`
	PLen  int    `json:"plen"`
	Code  int    `json:"code,omitempty"`
	Msg   string `json:"msg,omitempty"`
}
type c13Obs struct {
	Wire     string    `json:"wire,omitempty"` // concatenated bytes produced by the writes (when small)
	WireLen  int       `json:"wirelen"`
	WriteErr []string  `json:"write_err"`
	Reads    []c13Read `json:"reads"`
	HeaderEq *bool     `json:"header_eq,omitempty"`
	Panic    bool      `json:"panic"`
}

type c13Buf struct{ bytes.Buffer }

func (*c13Buf) Close() error { return nil }
func (*c13Buf) Reset() error { return nil }

type c13Chunked struct {
	data  []byte
	chunk int
	rng   *vrng
}

func (c *c13Chunked) Read(p []byte) (int, error) {
	if len(c.data) == 0 {
		return 0, io.EOF
	}
	n := len(p)
	switch {
	case c.chunk > 0 && n > c.chunk:
		n = c.chunk
	case c.chunk < 0:
		if k := 1 + c.rng.intn(7); n > k && c.rng.chance(70) {
			n = k
		}
	}
	if n > len(c.data) {
		n = len(c.data)
	}
	copy(p, c.data[:n])
	c.data = c.data[n:]
	return n, nil
}
func (c *c13Chunked) Write(p []byte) (int, error) { return len(p), nil }
func (*c13Chunked) Close() error                  { return nil }
func (*c13Chunked) Reset() error                  { return nil }

func c13New(ty string) proto.Message {
	switch ty {
	case "bid":
		return new(preconfpb.Bid)
	case "commit":
		return new(preconfpb.PreConfirmation)
	case "peerlist":
		return new(discoverypb.PeerList)
	case "hsreq":
		return new(handshakepb.HandshakeReq)
	case "hsresp":
		return new(handshakepb.HandshakeResp)
	case "empty":
		return new(emptypb.Empty)
	case "string":
		return new(wrapperspb.StringValue)
	case "value":
		return new(structpb.Value)
	default:
		return new(wrapperspb.BytesValue)
	}
}

type c13Host struct {
	host.Host
	handler network.StreamHandler
}

func (h *c13Host) SetStreamHandlerMatch(_ protocol.ID, _ func(protocol.ID) bool, hd network.StreamHandler) {
	h.handler = hd
}

// c13ViaWrapper: a registered peer opens a stream; the protocol handler behind the node's real
// wrapper returns an error; returns the frames the wrapper wrote after its response header
func c13ViaWrapper(kind string, code codes.Code, msg string, holdMs int, late proto.Message) ([]byte, bool) {
	fh := &c13Host{}
	svc := &Service{baseCtx: context.Background(), host: fh, peers: newPeerRegistry(), logger: util.NewTestLogger(io.Discard),
		metrics: newMetrics(prometheus.NewRegistry(), "verif"), blockMap: make(map[peer.ID]blockInfo)}
	pid := peer.ID("c13-remote")
	conn := &c04Conn{pid: pid}
	svc.peers.addPeer(conn, &p2p.Peer{Type: p2p.PeerTypeBidder})
	var lateRead []byte
	svc.AddStreamHandlers(p2p.StreamDesc{Name: "verif", Version: "1.0.0", Handler: func(ctx context.Context, _ p2p.Peer, st p2p.Stream) error {
		time.Sleep(time.Duration(holdMs) * time.Millisecond)
		switch kind {
		case "late-read":
			// what the handler reads of the peer's message is handed back as a frame of its own
			m := late.ProtoReflect().New().Interface()
			if err := st.ReadMsg(ctx, m); err != nil {
				return nil
			}
			var b c13Buf
			if newStream(&b, nil, nil).WriteMsg(context.Background(), m) == nil {
				lateRead = b.Bytes()
			}
			return nil
		case "plain":
			return errors.New(msg)
		case "wrapped-cancel":
			return fmt.Errorf("%s: %w", strings.TrimSuffix(msg, ": context canceled"), context.Canceled)
		}
		return status.Error(code, msg)
	}})
	var hdr c13Buf
	_ = newMetadataStream(&hdr).WriteHeader(context.Background(), p2p.Header{})
	if late != nil {
		_ = newStream(&hdr, nil, nil).WriteMsg(context.Background(), late)
	}
	ls := &c04Stream{rd: bytes.NewReader(hdr.Bytes()), conn: conn, writeFail: -1}
	fh.handler(ls)
	if kind == "late-read" {
		return lateRead, len(lateRead) > 0
	}
	if holdMs > 0 {
		time.Sleep(20 * time.Millisecond)
	}
	if ls.reset {
		return nil, false // a reset stream delivers nothing more to its reader
	}
	out := ls.wr.Bytes()
	// skip the response header frame
	if len(out) < 4 {
		return nil, false
	}
	n := int(binary.BigEndian.Uint32(out[:4]))
	if len(out) < 4+n {
		return nil, false
	}
	rest := out[4+n:]
	return rest, len(rest) > 0
}

func c13HeaderViaWrapper(wire []byte) (p2p.Header, bool) {
	fh := &c13Host{}
	svc := &Service{baseCtx: context.Background(), host: fh, peers: newPeerRegistry(), logger: util.NewTestLogger(io.Discard),
		metrics: newMetrics(prometheus.NewRegistry(), "verif"), blockMap: make(map[peer.ID]blockInfo)}
	pid := peer.ID("c13-remote")
	conn := &c04Conn{pid: pid}
	svc.peers.addPeer(conn, &p2p.Peer{Type: p2p.PeerTypeBidder})
	var seen p2p.Header
	called := false
	svc.AddStreamHandlers(p2p.StreamDesc{Name: "verif", Version: "1.0.0",
		Header: func(_ context.Context, _ p2p.Peer, h p2p.Header) p2p.Header { seen, called = h, true; return p2p.Header{} },
		Handler: func(context.Context, p2p.Peer, p2p.Stream) error { return nil }})
	ls := &c04Stream{rd: bytes.NewReader(wire), conn: conn, writeFail: -1}
	fh.handler(ls)
	return seen, called
}

func c13Run(in c13In, rng *vrng) (obs c13Obs) {
	inWrites := in.Writes
	obs.Reads = []c13Read{}
	obs.WriteErr = []string{}
	defer func() {
		if r := recover(); r != nil {
			obs.Panic = true
		}
	}()
	ctx := context.Background()
	if in.IsHeader {
		// header round trip
		hb, _ := hex.DecodeString(in.Header)
		st := new(structpb.Struct)
		_ = proto.Unmarshal(hb, st)
		hdr := p2p.Header(st.Fields)
		w := &c13Buf{}
		if err := newMetadataStream(w).WriteHeader(ctx, hdr); err != nil {
			obs.WriteErr = append(obs.WriteErr, err.Error())
			return obs
		}
		obs.WireLen = w.Len()
		if in.Tag == "header-via-wrapper" {
			// the headers as the protocol's header function is handed them by the node's stream wrapper
			got, ok := c13HeaderViaWrapper(w.Bytes())
			eq := ok && proto.Equal(&structpb.Struct{Fields: got}, &structpb.Struct{Fields: hdr})
			obs.HeaderEq = &eq
			return obs
		}
		r := &c13Chunked{data: w.Bytes(), chunk: in.Chunk, rng: rng}
		got, err := newMetadataStream(r).ReadHeader(ctx)
		eq := err == nil && proto.Equal(&structpb.Struct{Fields: got}, &structpb.Struct{Fields: hdr})
		obs.HeaderEq = &eq
		return obs
	}
	w := &c13Buf{}
	ws := newStream(w, nil, nil)
	ms := newMetadataStream(w)
	var types []string
	if in.Concurrent {
		gw := &c13GateW{gate: make(chan struct{}), entered: make(chan struct{}, 1)}
		cs := newStream(gw, nil, nil)
		errs := make([]error, len(in.Writes))
		var wg sync.WaitGroup
		for i, wr := range in.Writes {
			m := c13New(wr.Ty)
			pb, _ := hex.DecodeString(wr.P)
			_ = proto.Unmarshal(pb, m)
			types = append(types, wr.Ty)
			wg.Add(1)
			go func(i int, m proto.Message) {
				defer wg.Done()
				errs[i] = cs.WriteMsg(ctx, m)
			}(i, m)
			if i == 0 {
				select {
				case <-gw.entered:
				case <-time.After(2 * time.Second):
				}
			} else {
				time.Sleep(5 * time.Millisecond)
			}
		}
		time.Sleep(20 * time.Millisecond)
		close(gw.gate)
		wg.Wait()
		time.Sleep(10 * time.Millisecond)
		for _, e := range errs {
			if e != nil {
				obs.WriteErr = append(obs.WriteErr, e.Error())
			}
		}
		gw.mu.Lock()
		w.Write(gw.c13Buf.Bytes())
		gw.mu.Unlock()
		in.Writes = nil
	}
	nWrites := len(types)
	for _, wr := range in.Writes {
		switch wr.T {
		case "msg":
			m := c13New(wr.Ty)
			if wr.Fill > 0 {
				m = wrapperspb.Bytes(bytes.Repeat([]byte{0x61}, wr.Fill))
			} else {
				pb, _ := hex.DecodeString(wr.P)
				if err := proto.Unmarshal(pb, m); err != nil {
					obs.WriteErr = append(obs.WriteErr, "harness: bad inner message")
					continue
				}
			}
			if wr.Via == "late-read" {
				frame, ok := c13ViaWrapper(wr.Via, 0, "", wr.HoldMs, m)
				if !ok {
					obs.WriteErr = append(obs.WriteErr, "handler could not read the message written to it")
				}
				w.Write(frame)
				types = append(types, wr.Ty)
				continue
			}
			if err := ws.WriteMsg(ctx, m); err != nil {
				obs.WriteErr = append(obs.WriteErr, err.Error())
			}
			types = append(types, wr.Ty)
		case "error":
			mb, _ := hex.DecodeString(wr.Msg)
			if wr.Via != "" {
				frame, ok := c13ViaWrapper(wr.Via, codes.Code(wr.Code), string(mb), wr.HoldMs, nil)
				if !ok {
					obs.WriteErr = append(obs.WriteErr, "wrapper wrote no error frame")
				}
				w.Write(frame)
				types = append(types, "bytes")
				continue
			}
			if err := ms.WriteError(ctx, status.New(codes.Code(wr.Code), string(mb))); err != nil {
				obs.WriteErr = append(obs.WriteErr, err.Error())
			}
			types = append(types, "bytes")
		case "raw":
			pb, _ := hex.DecodeString(wr.P)
			l := int64(len(pb))
			if wr.Len != nil {
				l = *wr.Len
			}
			var pre [4]byte
			binary.BigEndian.PutUint32(pre[:], uint32(l))
			w.Write(pre[:])
			w.Write(pb)
			types = append(types, "bytes")
		}
	}
	obs.WireLen = w.Len()
	if w.Len() <= 4096 {
		obs.Wire = hex.EncodeToString(w.Bytes())
	}
	r := &c13Chunked{data: append([]byte{}, w.Bytes()...), chunk: in.Chunk, rng: rng}
	rs := newStream(r, nil, nil)
	if !in.Concurrent {
		nWrites = len(in.Writes)
	}
	wireAll := append([]byte{}, w.Bytes()...)
	defer func() {
		if !in.Concurrent {
			return
		}
		// list the reads (and the frames they came from) in the order of the writes they equal
		var frames [][]byte
		for b := wireAll; len(b) >= 4; {
			n := int(binary.BigEndian.Uint32(b[:4]))
			if len(b) < 4+n {
				break
			}
			frames = append(frames, b[:4+n])
			b = b[4+n:]
		}
		type rf struct {
			r c13Read
			f []byte
		}
		var pend, ordered []rf
		for i, r := range obs.Reads {
			x := rf{r: r}
			if i < len(frames) {
				x.f = frames[i]
			}
			pend = append(pend, x)
		}
		for _, wr := range inWrites {
			for k, x := range pend {
				if x.r.T == "data" && x.r.P == wr.P {
					ordered = append(ordered, x)
					pend = append(pend[:k], pend[k+1:]...)
					break
				}
			}
		}
		ordered = append(ordered, pend...)
		obs.Reads = obs.Reads[:0]
		var wire []byte
		for _, x := range ordered {
			obs.Reads = append(obs.Reads, x.r)
			wire = append(wire, x.f...)
		}
		if len(frames) == len(ordered) && len(wire) <= 4096 {
			obs.Wire = hex.EncodeToString(wire)
		}
	}()
	for i := 0; i < nWrites+3; i++ {
		ty := "bytes"
		if i < len(types) {
			ty = types[i]
		}
		m := c13New(ty)
		// sentinel (unknown field 127): Unmarshal resets the target, so a nil error with the
		// sentinel still in place means "success without data" (error frame with code OK)
		sentinel := []byte{0xf8, 0x07, 0x01}
		m.ProtoReflect().SetUnknown(sentinel)
		err := rs.ReadMsg(ctx, m)
		if err == nil {
			if bytes.Equal(m.ProtoReflect().GetUnknown(), sentinel) {
				obs.Reads = append(obs.Reads, c13Read{T: "oknodata"})
				continue
			}
			pb, _ := proto.MarshalOptions{Deterministic: true}.Marshal(m)
			rd := c13Read{T: "data", PLen: len(pb)}
			if len(pb) <= 4096 {
				rd.P = hex.EncodeToString(pb)
			}
			obs.Reads = append(obs.Reads, rd)
			continue
		}
		if errors.Is(err, io.EOF) && !errors.Is(err, io.ErrUnexpectedEOF) {
			break
		}
		if st, ok := status.FromError(err); ok {
			obs.Reads = append(obs.Reads, c13Read{T: "status", Code: int(st.Code()), Msg: hex.EncodeToString([]byte(st.Message()))})
			continue
		}
		switch {
		case errors.Is(err, io.ErrUnexpectedEOF):
			obs.Reads = append(obs.Reads, c13Read{T: "truncated"})
			return obs
		case errors.Is(err, msgio.ErrMsgTooLarge):
			obs.Reads = append(obs.Reads, c13Read{T: "toolarge"})
			return obs
		case strings.Contains(err.Error(), "message has no data"):
			obs.Reads = append(obs.Reads, c13Read{T: "nodata"})
		case strings.Contains(err.Error(), "failed to unmarshal message"):
			obs.Reads = append(obs.Reads, c13Read{T: "malformed"})
		default:
			obs.Reads = append(obs.Reads, c13Read{T: "inner-err"})
		}
	}
	return obs
}

func TestVerifC13(t *testing.T) {
	out := newVout(t, "C13")
	defer out.close()
	rng := newVrng(vseed(), 13)
	for _, raw := range vcorpus() {
		var in c13In
		if json.Unmarshal(raw, &in) == nil {
			out.emit(in, c13Run(in, rng))
		}
	}
	if vonlyReplay() {
		return
	}
	mar := func(m proto.Message) string {
		b, err := proto.MarshalOptions{Deterministic: true}.Marshal(m)
		if err != nil {
			t.Fatal(err)
		}
		return hex.EncodeToString(b)
	}
	msg := func(ty string, m proto.Message) c13Write { return c13Write{T: "msg", Ty: ty, P: mar(m)} }
	// a message carrying fields this build does not know (a peer on a newer compatible version)
	unknown := func(m proto.Message) proto.Message {
		u := []byte{0xc0, 0x3e, 0x2a} // field 1000, varint 42
		if rng.chance(50) {
			u = append(u, 0xca, 0x3e, 0x03, 'n', 'e', 'w') // field 1001, bytes "new"
		}
		m.ProtoReflect().SetUnknown(u)
		return m
	}
	sample := func() c13Write {
		if rng.chance(12) {
			if rng.chance(50) {
				return msg("bytes", unknown(wrapperspb.Bytes(rng.bytes(rng.intn(40)))))
			}
			return msg("bid", unknown(&preconfpb.Bid{TxHash: "ab", BidAmount: "7", BlockNumber: 3, Digest: rng.bytes(32), Signature: rng.bytes(65)}))
		}
		switch rng.intn(9) {
		case 0:
			return msg("empty", &emptypb.Empty{})
		case 1:
			return msg("string", wrapperspb.String(""))
		case 2:
			return msg("bytes", wrapperspb.Bytes(rng.bytes(rng.intn(300))))
		case 3:
			return msg("bid", &preconfpb.Bid{TxHash: hex.EncodeToString(rng.bytes(32)), BidAmount: "1000", BlockNumber: int64(rng.intn(1 << 30)),
				DecayStartTimestamp: 5, DecayEndTimestamp: 9, Digest: rng.bytes(32), Signature: rng.bytes(65)})
		case 4:
			return msg("commit", &preconfpb.PreConfirmation{Bid: &preconfpb.Bid{TxHash: "ab", BidAmount: "1"}, Digest: rng.bytes(32), Signature: rng.bytes(65)})
		case 5:
			pl := &discoverypb.PeerList{}
			for k := 0; k < rng.intn(4); k++ {
				pl.Peers = append(pl.Peers, &discoverypb.PeerInfo{EthAddress: rng.bytes(20), Underlay: rng.bytes(rng.intn(60))})
			}
			return msg("peerlist", pl)
		case 6:
			return msg("hsreq", &handshakepb.HandshakeReq{PeerType: "provider", Token: "tok", Sig: rng.bytes(65)})
		case 7:
			return msg("hsresp", &handshakepb.HandshakeResp{ObservedAddress: rng.bytes(20), PeerType: "bidder"})
		default:
			return msg("bid", &preconfpb.Bid{})
		}
	}
	hexs := func(s string) string { return hex.EncodeToString([]byte(s)) }
	chunks := []int{0, 1, 2, 3, 5, 64, -1}
	// all 17 status codes x a few messages
	for code := 0; code <= 16; code++ {
		for _, m := range []string{"", "x", "bid rejected", "ünïcödé ☃", strings.Repeat("m", 300)} {
			in := c13In{Tag: "status", Writes: []c13Write{{T: "error", Code: code, Msg: hexs(m)}, sample()}, Chunk: chunks[rng.intn(len(chunks))]}
			out.emit(in, c13Run(in, rng))
		}
	}
	// sizes around varint and frame boundaries
	sizes := []int{1, 125, 126, 127, 128, 129, 16381, 16382, 16383, 16384, 16385, 1 << 20}
	if vthorough() {
		sizes = append(sizes, 2097149, 2097150, 2097151, 2097152)
	}
	for _, n := range sizes {
		in := c13In{Tag: "size", Writes: []c13Write{{T: "msg", Ty: "bytes", Fill: n}, sample()}, Chunk: []int{0, 4096, -1}[rng.intn(3)]}
		out.emit(in, c13Run(in, rng))
	}
	// exactly at, just below and just above the 8 MiB frame limit: the envelope of a BytesValue
	// of n bytes is n + 10 bytes here (tag+len of the value 5, tag+len of data 5)
	for _, n := range []int{8388608 - 11, 8388608 - 10, 8388608 - 9} {
		in := c13In{Tag: "limit", Writes: []c13Write{{T: "msg", Ty: "bytes", Fill: n}}, Chunk: 0}
		out.emit(in, c13Run(in, rng))
	}
	// messages that nest: whatever the writer accepted and framed, the reader gets back equal —
	// lists in lists (two message levels per list) and structs in structs, shallow to very deep
	nestedList := func(d int) *structpb.Value {
		v := structpb.NewNumberValue(7)
		for k := 0; k < d; k++ {
			v = structpb.NewListValue(&structpb.ListValue{Values: []*structpb.Value{v}})
		}
		return v
	}
	nestedStruct := func(d int) *structpb.Value {
		v := structpb.NewStringValue("leaf")
		for k := 0; k < d; k++ {
			v = structpb.NewStructValue(&structpb.Struct{Fields: map[string]*structpb.Value{"k": v}})
		}
		return v
	}
	for _, d := range []int{1, 8, 30, 49, 50, 51, 64, 100, 127, 128, 333, 1000, 2400} {
		in := c13In{Tag: "nested", Writes: []c13Write{msg("value", nestedList(d)), sample()}, Chunk: chunks[rng.intn(len(chunks))]}
		out.emit(in, c13Run(in, rng))
		if d <= 1000 {
			in = c13In{Tag: "nested", Writes: []c13Write{sample(), msg("value", nestedStruct(d))}, Chunk: 0}
			out.emit(in, c13Run(in, rng))
		}
	}
	// sequences
	for i := 0; i < vcount(400, 6000); i++ {
		var ws []c13Write
		for k := 0; k < 1+rng.intn(8); k++ {
			if rng.chance(15) {
				ws = append(ws, c13Write{T: "error", Code: rng.intn(17), Msg: hexs([]string{"", "boom", "failed to store commitment: x"}[rng.intn(3)])})
			} else {
				ws = append(ws, sample())
			}
		}
		in := c13In{Tag: "sequence", Writes: ws, Chunk: chunks[rng.intn(len(chunks))]}
		out.emit(in, c13Run(in, rng))
	}
	// errors returned by a protocol handler through the node's stream wrapper: every non-OK code,
	// plain errors (code Unknown, the error text), errors wrapping context.Canceled
	for code := 1; code <= 16; code++ {
		for _, m := range []string{"", "handler says no", "peer %s not found", "100% of %d bids", "%!x(MISSING) %v %%"} {
			in := c13In{Tag: "handler-error", Writes: []c13Write{{T: "error", Code: code, Msg: hexs(m), Via: "status"}, sample()}, Chunk: chunks[rng.intn(len(chunks))]}
			out.emit(in, c13Run(in, rng))
		}
	}
	for _, m := range []string{"boom", "x"} {
		in := c13In{Tag: "handler-error", Writes: []c13Write{{T: "error", Code: 2, Msg: hexs(m), Via: "plain"}}, Chunk: 0}
		out.emit(in, c13Run(in, rng))
		in = c13In{Tag: "handler-error", Writes: []c13Write{{T: "error", Code: 2, Msg: hexs(m + ": context canceled"), Via: "wrapped-cancel"}}, Chunk: 0}
		out.emit(in, c13Run(in, rng))
	}
	// several writers on one stream while the transport is not draining
	for i := 0; i < vcount(12, 200); i++ {
		var ws []c13Write
		for k := 0; k < 2+rng.intn(4); k++ {
			ws = append(ws, msg("bytes", wrapperspb.Bytes(append([]byte{byte('A' + k)}, rng.bytes(1+rng.intn(200))...))))
		}
		in := c13In{Tag: "concurrent-writers", Writes: ws, Chunk: 0, Concurrent: true}
		out.emit(in, c13Run(in, rng))
	}
	// slow handlers: the verdict comes, or the peer's message is read, after the handler has been
	// running for a while — longer than every real-time bound the package's sources mention
	holds := []int{300}
	for _, ms := range c20Timers() {
		d := ms + 800
		if ms == 0 {
			d = 6000
		}
		if d <= 25000 {
			holds = append(holds, d)
		}
	}
	for _, d := range holds {
		for k := 0; k < 3; k++ {
			in := c13In{Tag: "slow-handler", Writes: []c13Write{{T: "error", Code: 9, Msg: hexs("late verdict"), Via: "status", HoldMs: d}}, Chunk: 0}
			out.emit(in, c13Run(in, rng))
		}
		lw := msg("bytes", wrapperspb.Bytes([]byte("written early, read late")))
		lw.Via, lw.HoldMs = "late-read", d
		in := c13In{Tag: "slow-handler", Writes: []c13Write{lw}, Chunk: 0}
		out.emit(in, c13Run(in, rng))
	}
	// malformed streams
	i64 := func(x int64) *int64 { return &x }
	raws := [][]c13Write{
		{{T: "raw", P: ""}},                                     // empty envelope: neither data nor error
		{{T: "raw", P: "0a00"}},                                 // data present, empty
		{{T: "raw", P: "1200"}},                                 // error present, empty status (code OK)
		{{T: "raw", P: "0a"}},                                   // truncated field
		{{T: "raw", P: "0a05aabb"}},                             // length beyond buffer
		{{T: "raw", P: "ff"}},                                   // bad tag
		{{T: "raw", P: "1a0161"}},                               // unknown field 3 only
		{{T: "raw", P: "1a01610a0161"}},                         // unknown field then data
		{{T: "raw", P: "0801"}},                                 // field 1 with wrong wire type
		{{T: "raw", P: "0a0161", Len: i64(2)}},                  // length prefix shorter than payload
		{{T: "raw", P: "0a0161", Len: i64(9)}},                  // longer: truncated
		{{T: "raw", P: "", Len: i64(8388609)}},                  // oversize prefix
		{{T: "raw", P: "", Len: i64(4294967295)}},               // huge prefix
		{{T: "raw", P: "0a0161"}, {T: "raw", P: ""}, sample()},  // good, empty, good
		{{T: "raw", P: "12040803" + "1200"}},                    // status code 3, empty message field
		{{T: "raw", P: "1206080d1202" + "6f6b"}},                // status 13 "ok"
		{{T: "raw", P: "0a01611202080d"}},                       // both members present (outside the model)
	}
	for _, ws := range raws {
		for _, ch := range []int{0, 1, -1} {
			in := c13In{Tag: "malformed", Writes: ws, Chunk: ch}
			out.emit(in, c13Run(in, rng))
		}
	}
	for i := 0; i < vcount(300, 5000); i++ {
		n := rng.intn(12)
		b := make([]byte, n)
		for j := range b {
			b[j] = []byte{0x0a, 0x12, 0x08, 0x10, 0x1a, 0x00, 0x01, 0x02, 0x61, 0xff, 0x80}[rng.intn(11)]
		}
		in := c13In{Tag: "malformed-random", Writes: []c13Write{{T: "raw", P: hex.EncodeToString(b)}, sample()}, Chunk: chunks[rng.intn(len(chunks))]}
		out.emit(in, c13Run(in, rng))
	}
	// headers
	hdrs := []map[string]any{{}, {"a": "b"}, {"n": 1.5, "t": true, "z": nil}, {"list": []any{"x", 2.0, map[string]any{"k": "v"}}},
		{"": ""}, {"ünï": "☃", "long": strings.Repeat("h", 5000)}}
	for _, h := range hdrs {
		st, err := structpb.NewStruct(h)
		if err != nil {
			t.Fatal(err)
		}
		for _, ch := range []int{0, 1, -1} {
			in := c13In{Tag: "header", Header: mar(st), IsHeader: true, Chunk: ch}
			out.emit(in, c13Run(in, rng))
		}
		in := c13In{Tag: "header-via-wrapper", Header: mar(st), IsHeader: true, Chunk: 0}
		out.emit(in, c13Run(in, rng))
	}
}

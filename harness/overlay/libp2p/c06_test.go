package libp2p

// C06 correspondence driver: hostile frames through the real entry points a remote peer can
// reach — the handshake handler (inbound) and Connect (outbound), the stream-handler wrapper of
// AddStreamHandlers with the real preconfirmation (provider side) and discovery handlers behind
// it, the bidder's SendBid reading provider replies through the real stream decoder, and raw
// ReadMsg / ReadHeader.  Handlers are invoked the way libp2p invokes them (no recover in
// between); the harness recovers only to record the panic.  A case that kills the process from
// another goroutine leaves its marker line behind.

import (
	"sync"
	"bytes"
	"math/big"
	"context"
	"encoding/binary"
	"encoding/hex"
	"encoding/json"
	"fmt"
	"io"
	"testing"
	"time"

	"github.com/ethereum/go-ethereum/common"
	"github.com/ethereum/go-ethereum/crypto"
	"github.com/libp2p/go-libp2p/core/network"
	"github.com/libp2p/go-libp2p/core/peer"
	"github.com/libp2p/go-libp2p/core/protocol"
	ma "github.com/multiformats/go-multiaddr"
	discoverypb "github.com/primevprotocol/mev-commit/gen/go/discovery/v1"
	handshakepb "github.com/primevprotocol/mev-commit/gen/go/handshake/v1"
	preconfpb "github.com/primevprotocol/mev-commit/gen/go/preconfirmation/v1"
	providerapiv1 "github.com/primevprotocol/mev-commit/gen/go/providerapi/v1"
	streammsgv1 "github.com/primevprotocol/mev-commit/gen/go/streammsg/v1"
	preconfcontract "github.com/primevprotocol/mev-commit/pkg/contracts/preconf"
	"github.com/primevprotocol/mev-commit/pkg/discovery"
	"github.com/primevprotocol/mev-commit/pkg/evmclient"
	mockevmclient "github.com/primevprotocol/mev-commit/pkg/evmclient/mock"
	mockkeysigner "github.com/primevprotocol/mev-commit/pkg/keysigner/mock"
	"github.com/primevprotocol/mev-commit/pkg/p2p"
	"github.com/primevprotocol/mev-commit/pkg/p2p/libp2p/internal/handshake"
	"github.com/primevprotocol/mev-commit/pkg/preconfirmation"
	"github.com/primevprotocol/mev-commit/pkg/signer"
	"github.com/primevprotocol/mev-commit/pkg/signer/preconfsigner"
	"github.com/primevprotocol/mev-commit/pkg/topology"
	"github.com/primevprotocol/mev-commit/pkg/util"
	"github.com/prometheus/client_golang/prometheus"
	"google.golang.org/protobuf/proto"
)

type c06In struct {
	Tag   string `json:"tag"`
	Parallel int   `json:"parallel,omitempty"` // preconf-provider / discovery: this many goroutines open streams at once
	Entry string `json:"entry"` // hs-in | hs-out | preconf-provider | discovery | preconf-bidder | readmsg | readheader
	Ed    bool   `json:"ed25519_peer"`
	Wire  string `json:"wire"` // bytes the remote puts on the stream (hex)
}
type c06Obs struct {
	Panic   bool   `json:"panic"`
	Crashed bool   `json:"crashed"`
	Note    string `json:"note,omitempty"`
}

type c06Host struct {
	c04Host
	handlers map[string]network.StreamHandler
}

func (h *c06Host) SetStreamHandlerMatch(id protocol.ID, _ func(protocol.ID) bool, hd network.StreamHandler) {
	h.handlers[string(id)] = hd
}

type c06Allow struct{}

func (c06Allow) CheckBidderAllowance(context.Context, common.Address) bool { return true }

type c06Proc struct{}

func (c06Proc) ProcessBid(context.Context, *preconfpb.Bid) (chan providerapiv1.BidResponse_Status, error) {
	ch := make(chan providerapiv1.BidResponse_Status, 1)
	ch <- providerapiv1.BidResponse_STATUS_ACCEPTED
	return ch, nil
}

type c06DA struct{}

func (c06DA) StoreCommitment(context.Context, *big.Int, uint64, string, uint64, uint64, []byte, []byte) error {
	return nil
}

type c06Topo struct{ peers []p2p.Peer }

func (t c06Topo) GetPeers(topology.Query) []p2p.Peer { return t.peers }
func (t c06Topo) AddPeers(...p2p.Peer)               {}
func (t c06Topo) IsConnected(common.Address) bool    { return false }

type c06Streamer struct {
	wire []byte
	svc  *Service
}

func (s c06Streamer) NewStream(context.Context, p2p.Peer, p2p.Header, p2p.StreamDesc) (p2p.Stream, error) {
	return newStream(&c04Stream{rd: bytes.NewReader(s.wire), conn: &c04Conn{}, writeFail: -1}, nil, nil), nil
}
func (s c06Streamer) Connect(ctx context.Context, info []byte) (p2p.Peer, error) {
	return s.svc.Connect(ctx, info)
}

func c06Frame(payload []byte) []byte {
	var pre [4]byte
	binary.BigEndian.PutUint32(pre[:], uint32(len(payload)))
	return append(pre[:], payload...)
}
func c06Msg(m proto.Message) []byte {
	b, _ := proto.Marshal(m)
	e, _ := proto.Marshal(&streammsgv1.StreamMsg{Body: &streammsgv1.StreamMsg_Data{Data: b}})
	return c06Frame(e)
}
func c06Header() []byte {
	b, _ := proto.Marshal(&streammsgv1.Header{})
	return c06Frame(b)
}

func c06Run(t *testing.T, in c06In, w *c04World) (obs c06Obs) {
	wire, _ := hex.DecodeString(in.Wire)
	defer func() {
		if r := recover(); r != nil {
			obs.Panic = true
			obs.Note = fmt.Sprint(r)
		}
	}()
	ks := mockkeysigner.NewMockKeySigner(w.localKey, crypto.PubkeyToAddress(w.localKey.PublicKey))
	reg := &c04Reg{answer: true}
	hs, err := handshake.New(ks, p2p.PeerTypeProvider, "tok", signer.New(), reg, GetEthAddressFromPeerID)
	if err != nil {
		t.Fatal(err)
	}
	pid := w.remoteID
	if in.Ed {
		pid = w.edID
	}
	ls := &c04Stream{rd: bytes.NewReader(wire), conn: &c04Conn{pid: pid}, writeFail: -1}
	fh := &c06Host{c04Host: c04Host{stream: ls}, handlers: map[string]network.StreamHandler{}}
	svc := &Service{baseCtx: context.Background(), peerType: p2p.PeerTypeProvider, host: fh, peers: newPeerRegistry(),
		logger: util.NewTestLogger(io.Discard), hsSvc: hs, metrics: newMetrics(prometheus.NewRegistry(), "verif"),
		blockMap: make(map[peer.ID]blockInfo)}
	svc.peers.setDisconnector(svc)
	ctx, cancel := context.WithTimeout(context.Background(), 2*time.Second)
	defer cancel()
	switch in.Entry {
	case "hs-in":
		svc.handleConnectReq(ls)
	case "hs-in-twice":
		// the same remote identity handshakes again with the same node (a redial after a dropped
		// exchange, a restart under the same key): a second exchange on a fresh stream
		svc.handleConnectReq(ls)
		svc.handleConnectReq(&c04Stream{rd: bytes.NewReader(wire), conn: &c04Conn{pid: pid}, writeFail: -1})
		svc.handleConnectReq(&c04Stream{rd: bytes.NewReader(wire), conn: &c04Conn{pid: pid}, writeFail: -1})
	case "hs-out":
		info, _ := (&peer.AddrInfo{ID: pid, Addrs: []ma.Multiaddr{ma.StringCast("/ip4/127.0.0.1/tcp/1")}}).MarshalJSON()
		_, _ = svc.Connect(ctx, info)
	case "preconf-provider", "discovery":
		// the remote is an admitted peer; its stream goes through the real wrapper
		role := p2p.PeerTypeBidder
		if in.Entry == "discovery" {
			role = p2p.PeerTypeBootnode
		}
		svc.peers.addPeer(ls.conn, &p2p.Peer{EthAddress: crypto.PubkeyToAddress(w.remoteKey.PublicKey), Type: role})
		sgn := preconfsigner.NewSigner(ks)
		// the real commitment-store wrapper (over a chain client that accepts everything): what it
		// does with the amount it is handed is part of the path a hostile bid can reach
		da := preconfcontract.New(common.HexToAddress("0xda"), mockevmclient.New(mockevmclient.WithSendFunc(
			func(context.Context, *evmclient.TxRequest) (common.Hash, error) { return common.HexToHash("0x51"), nil })), util.NewTestLogger(io.Discard))
		pc := preconfirmation.New(c06Topo{}, nil, sgn, c06Allow{}, c06Proc{}, da, util.NewTestLogger(io.Discard))
		svc.AddStreamHandlers(pc.Streams()...)
		disc := discovery.New(c06Topo{}, c06Streamer{svc: svc}, util.NewTestLogger(io.Discard))
		defer disc.Close()
		svc.AddStreamHandlers(disc.Streams()...)
		name := preconfirmation.ProtocolName
		if in.Entry == "discovery" {
			name = discovery.ProtocolName
		}
		if in.Parallel > 0 {
			// the admitted peer opens many streams at once, each carrying the same bytes
			var wg sync.WaitGroup
			var pmu sync.Mutex
			for g := 0; g < in.Parallel; g++ {
				wg.Add(1)
				go func() {
					defer wg.Done()
					defer func() {
						if r := recover(); r != nil {
							pmu.Lock()
							obs.Panic = true
							obs.Note = fmt.Sprint(r)
							pmu.Unlock()
						}
					}()
					for k := 0; k < 40; k++ {
						fh.handlers[name](&c04Stream{rd: bytes.NewReader(wire), conn: ls.conn, writeFail: -1})
					}
				}()
			}
			wg.Wait()
			break
		}
		fh.handlers[name](ls)
		time.Sleep(time.Millisecond) // discovery dials asynchronously
	case "preconf-bidder":
		sgn := preconfsigner.NewSigner(ks)
		prov := p2p.Peer{EthAddress: crypto.PubkeyToAddress(w.remoteKey.PublicKey), Type: p2p.PeerTypeProvider}
		pc := preconfirmation.New(c06Topo{peers: []p2p.Peer{prov}}, c06Streamer{wire: wire}, sgn, nil, nil, nil, util.NewTestLogger(io.Discard))
		ch, err := pc.SendBid(ctx, hex.EncodeToString(make([]byte, 32)), "1000", 10, 1, 2)
		if err == nil {
			for range ch {
			}
		}
	case "readmsg":
		st := newStream(ls, nil, nil)
		for i := 0; i < 3; i++ {
			if st.ReadMsg(ctx, new(preconfpb.Bid)) != nil {
				break
			}
		}
	case "readheader":
		_, _ = newMetadataStream(ls).ReadHeader(ctx)
	}
	return obs
}

func TestVerifC06(t *testing.T) {
	out := newVout(t, "C06")
	defer out.close()
	rng := newVrng(vseed(), 6)
	w := c04MkWorld(rng)
	emit := func(in c06In) {
		caseNo := out.n
		out.mu.Lock()
		b, _ := json.Marshal(map[string]any{"p": "C06", "case": caseNo, "in": in, "impl": c06Obs{Crashed: true}})
		out.w.Write(b)
		out.w.WriteByte('\n')
		out.w.Flush()
		out.mu.Unlock()
		obs := c06Run(t, in, w)
		out.mu.Lock()
		b, _ = json.Marshal(map[string]any{"p": "C06", "case": caseNo, "in": in, "impl": obs})
		out.w.Write(b)
		out.w.WriteByte('\n')
		out.n++
		out.mu.Unlock()
	}
	for _, raw := range vcorpus() {
		var in c06In
		if json.Unmarshal(raw, &in) == nil {
			emit(in)
		}
	}
	if vonlyReplay() {
		return
	}
	hx := hex.EncodeToString
	sign := func(msg string) []byte {
		s, _ := crypto.Sign(crypto.Keccak256([]byte(msg)), w.remoteKey)
		return s
	}
	bidder := preconfsigner.NewSigner(mockkeysigner.NewMockKeySigner(w.remoteKey, crypto.PubkeyToAddress(w.remoteKey.PublicKey)))
	provider := preconfsigner.NewSigner(mockkeysigner.NewMockKeySigner(w.foreign, crypto.PubkeyToAddress(w.foreign.PublicKey)))
	cut := func(b []byte, n int) []byte {
		if n > len(b) {
			return append(append([]byte{}, b...), make([]byte, n-len(b))...)
		}
		return append([]byte{}, b[:n]...)
	}
	mutate := func(b []byte) []byte {
		c := append([]byte{}, b...)
		if len(c) == 0 {
			return c
		}
		switch rng.intn(4) {
		case 0:
			c[rng.intn(len(c))] ^= byte(1 << uint(rng.intn(8)))
		case 1:
			c = c[:rng.intn(len(c))]
		case 2:
			c = append(c, rng.bytes(1+rng.intn(8))...)
		case 3:
			i := rng.intn(len(c))
			c = append(append(append([]byte{}, c[:i]...), rng.bytes(1+rng.intn(4))...), c[i:]...)
		}
		return c
	}
	// ---- handshake, both directions: every signature length 0..70, role strings, tokens, identities
	roles := []string{"bidder", "provider", "bootnode", "", "Provider", "\x00", "junk"}
	for l := 0; l <= 70; l++ {
		for _, ed := range []bool{false, true} {
			role := roles[l%len(roles)]
			sg := cut(sign(role+"tok"), l)
			req := c06Msg(&handshakepb.HandshakeReq{PeerType: role, Token: "tok", Sig: sg})
			ack := c06Msg(&handshakepb.HandshakeResp{ObservedAddress: crypto.PubkeyToAddress(w.localKey.PublicKey).Bytes(), PeerType: "provider"})
			emit(c06In{Tag: "hs-siglen", Entry: "hs-in", Ed: ed, Wire: hx(append(append([]byte{}, req...), ack...))})
			emit(c06In{Tag: "hs-siglen", Entry: "hs-out", Ed: ed, Wire: hx(append(append([]byte{}, ack...), req...))})
		}
	}
	for _, ed := range []bool{false, true} {
		// a valid, recoverable signature from an identity without secp256k1 key, and echo shapes
		req := c06Msg(&handshakepb.HandshakeReq{PeerType: "provider", Token: "tok", Sig: sign("providertok")})
		for _, obsv := range [][]byte{nil, {}, {1}, make([]byte, 19), make([]byte, 21), make([]byte, 64)} {
			ack := c06Msg(&handshakepb.HandshakeResp{ObservedAddress: obsv, PeerType: "provider"})
			emit(c06In{Tag: "hs-echo", Entry: "hs-in", Ed: ed, Wire: hx(append(append([]byte{}, req...), ack...))})
			emit(c06In{Tag: "hs-echo", Entry: "hs-out", Ed: ed, Wire: hx(append(append([]byte{}, ack...), req...))})
		}
	}
	// the same remote identity handshaking more than once with one node: garbage, refusals, honest
	for _, role := range []string{"bidder", "provider"} {
		good := c06Msg(&handshakepb.HandshakeReq{PeerType: role, Token: "tok", Sig: sign(role + "tok")})
		ack := c06Msg(&handshakepb.HandshakeResp{ObservedAddress: crypto.PubkeyToAddress(w.localKey.PublicKey).Bytes(), PeerType: "provider"})
		emit(c06In{Tag: "hs-repeat", Entry: "hs-in-twice", Wire: hx(append(append([]byte{}, good...), ack...))})
		emit(c06In{Tag: "hs-repeat", Entry: "hs-in-twice", Wire: hx(good)})
		emit(c06In{Tag: "hs-repeat", Entry: "hs-in-twice", Wire: hx(c06Frame([]byte{0xff, 0xff, 0x01}))})
		emit(c06In{Tag: "hs-repeat", Entry: "hs-in-twice", Wire: hx(c06Msg(&handshakepb.HandshakeReq{PeerType: role, Token: "tok", Sig: cut(sign(role+"tok"), 64)}))})
		emit(c06In{Tag: "hs-repeat", Entry: "hs-in-twice", Wire: ""})
	}
	// signatures that recover but are not canonical (s replaced by n-s, recovery id flipped), in the
	// 27/28 and the 0/1 form: on a bid to the provider, on a commitment and its embedded bid to the bidder
	malleate := func(sig []byte, raw bool) []byte {
		c := append([]byte{}, sig...)
		if len(c) != 65 {
			return c
		}
		sv := new(big.Int).SetBytes(c[32:64])
		sv.Sub(crypto.S256().Params().N, sv)
		copy(c[32:64], common.LeftPadBytes(sv.Bytes(), 32))
		if c[64] >= 27 {
			c[64] = 55 - c[64]
			if raw {
				c[64] -= 27
			}
		} else {
			c[64] ^= 1
		}
		return c
	}
	{
		hb, _ := bidder.ConstructSignedBid(hex.EncodeToString(rng.bytes(32)), "1000", 10, 1, 2)
		hc, _ := provider.ConstructPreConfirmation(hb)
		for _, raw := range []bool{false, true} {
			b := proto.Clone(hb).(*preconfpb.Bid)
			b.Signature = malleate(hb.Signature, raw)
			emit(c06In{Tag: "bid-sig-high-s", Entry: "preconf-provider", Wire: hx(append(c06Header(), c06Msg(b)...))})
			c := proto.Clone(hc).(*preconfpb.PreConfirmation)
			c.Signature = malleate(hc.Signature, raw)
			emit(c06In{Tag: "commit-sig-high-s", Entry: "preconf-bidder", Wire: hx(c06Msg(c))})
			c = proto.Clone(hc).(*preconfpb.PreConfirmation)
			c.Bid.Signature = malleate(hc.Bid.Signature, raw)
			emit(c06In{Tag: "commit-bidsig-high-s", Entry: "preconf-bidder", Wire: hx(c06Msg(c))})
		}
	}
	// ---- bids to the provider handler: digest / signature length classes, amounts, numbers
	base, _ := bidder.ConstructSignedBid(hex.EncodeToString(make([]byte, 32)), "1000", 10, 1, 2)
	{
		// one admitted peer, many streams in parallel (well-formed and not)
		bad := proto.Clone(base).(*preconfpb.Bid)
		bad.Signature = cut(base.Signature, 64)
		emit(c06In{Tag: "parallel-streams", Entry: "preconf-provider", Parallel: 64, Wire: hx(append(c06Header(), c06Msg(bad)...))})
		emit(c06In{Tag: "parallel-streams", Entry: "preconf-provider", Parallel: 32, Wire: hx(append(c06Header(), c06Msg(base)...))})
		emit(c06In{Tag: "parallel-streams", Entry: "discovery", Parallel: 32, Wire: hx(append(c06Header(), c06Msg(&discoverypb.PeerList{})...))})
	}
	amounts := []string{"", "abc", "-5", "+5", "1e9", "0x10", "99999999999999999999999999999999999999999999999999999999999999999999999999999999999", "١٢٣", "1 ", "\x00"}
	for l := 0; l <= 66; l++ {
		b := proto.Clone(base).(*preconfpb.Bid)
		b.Signature = cut(base.Signature, l)
		emit(c06In{Tag: "bid-siglen", Entry: "preconf-provider", Wire: hx(append(c06Header(), c06Msg(b)...))})
		b = proto.Clone(base).(*preconfpb.Bid)
		b.Digest = cut(base.Digest, l)
		emit(c06In{Tag: "bid-digestlen", Entry: "preconf-provider", Wire: hx(append(c06Header(), c06Msg(b)...))})
	}
	for _, a := range amounts {
		b := proto.Clone(base).(*preconfpb.Bid)
		b.BidAmount = a
		emit(c06In{Tag: "bid-amount", Entry: "preconf-provider", Wire: hx(append(c06Header(), c06Msg(b)...))})
		rb, err := bidder.ConstructSignedBid("ab", "7", 1, 1, 1)
		if err == nil {
			rb.BidAmount = a
			emit(c06In{Tag: "bid-amount", Entry: "preconf-provider", Wire: hx(append(c06Header(), c06Msg(rb)...))})
		}
	}
	// correctly signed bids whose amount is spelled unusually (leading zeros, digits 8/9 after a
	// zero, signs, huge values): accepted ones travel all the way to the commitment store
	for _, a := range []string{"08", "0900", "019", "010", "00", "0", "000000000000000000000000000000000000001", "+7", "18446744073709551615",
		"18446744073709551616", "340282366920938463463374607431768211456", "115792089237316195423570985008687907853269984665640564039457584007913129639935"} {
		if sb, err := bidder.ConstructSignedBid(hex.EncodeToString(rng.bytes(32)), a, 10, 1, 2); err == nil {
			emit(c06In{Tag: "bid-amount-signed", Entry: "preconf-provider", Wire: hx(append(c06Header(), c06Msg(sb)...))})
		}
	}
	for _, n := range []int64{0, -1, -1 << 63, 1<<63 - 1} {
		b := proto.Clone(base).(*preconfpb.Bid)
		b.BlockNumber, b.DecayStartTimestamp, b.DecayEndTimestamp = n, n, n
		emit(c06In{Tag: "bid-numbers", Entry: "preconf-provider", Wire: hx(append(c06Header(), c06Msg(b)...))})
	}
	emit(c06In{Tag: "bid-empty", Entry: "preconf-provider", Wire: hx(append(c06Header(), c06Msg(&preconfpb.Bid{})...))})
	// ---- commitments to the bidder: absent embedded bid, length classes
	cm, _ := provider.ConstructPreConfirmation(base)
	for l := 0; l <= 66; l += 1 {
		c := proto.Clone(cm).(*preconfpb.PreConfirmation)
		c.Signature = cut(cm.Signature, l)
		emit(c06In{Tag: "commit-siglen", Entry: "preconf-bidder", Wire: hx(c06Msg(c))})
		c = proto.Clone(cm).(*preconfpb.PreConfirmation)
		c.Bid.Signature = cut(cm.Bid.Signature, l)
		emit(c06In{Tag: "commit-bidsiglen", Entry: "preconf-bidder", Wire: hx(c06Msg(c))})
	}
	for _, f := range []func(c *preconfpb.PreConfirmation){
		func(c *preconfpb.PreConfirmation) { c.Bid = nil },
		func(c *preconfpb.PreConfirmation) { c.Bid = &preconfpb.Bid{} },
		func(c *preconfpb.PreConfirmation) { c.Digest = nil },
		func(c *preconfpb.PreConfirmation) { c.Signature = nil },
		func(c *preconfpb.PreConfirmation) { c.Bid.BidAmount = "zz" },
		func(c *preconfpb.PreConfirmation) { c.Bid.Digest = nil },
		func(c *preconfpb.PreConfirmation) { c.ProviderAddress = make([]byte, 3) },
	} {
		c := proto.Clone(cm).(*preconfpb.PreConfirmation)
		f(c)
		emit(c06In{Tag: "commit-parts", Entry: "preconf-bidder", Wire: hx(c06Msg(c))})
	}
	// ---- gossip: address lengths 0..40, underlay shapes
	goodInfo, _ := (&peer.AddrInfo{ID: w.remoteID, Addrs: []ma.Multiaddr{ma.StringCast("/ip4/127.0.0.1/tcp/1")}}).MarshalJSON()
	underlays := [][]byte{nil, {}, []byte("{"), []byte("null"), []byte(`{"ID":"x","Addrs":["/ip4/1.2.3.4/tcp/1"]}`), []byte(`{"ID":"","Addrs":[]}`),
		goodInfo, []byte(`{"ID":"` + w.remoteID.String() + `","Addrs":null}`), []byte(`{"ID":"` + w.remoteID.String() + `","Addrs":["garbage"]}`), rng.bytes(40)}
	for l := 0; l <= 40; l++ {
		pl := &discoverypb.PeerList{Peers: []*discoverypb.PeerInfo{{EthAddress: make([]byte, l), Underlay: underlays[l%len(underlays)]}}}
		emit(c06In{Tag: "gossip-addrlen", Entry: "discovery", Wire: hx(append(c06Header(), c06Msg(pl)...))})
	}
	emit(c06In{Tag: "gossip-nil-entry", Entry: "discovery", Wire: hx(append(c06Header(), c06Msg(&discoverypb.PeerList{Peers: []*discoverypb.PeerInfo{{}, {}}})...))})
	// ---- frames: oversize, truncated, empty, error frames with OK status, garbage headers
	frames := [][]byte{{}, {0, 0}, {0, 0, 0, 0}, {0xff, 0xff, 0xff, 0xff}, {0, 0x80, 0, 1}, c06Frame([]byte{0x12, 0x00}), c06Frame([]byte{0x0a}),
		c06Frame([]byte{0x0a, 0x05, 1}), c06Frame(bytes.Repeat([]byte{0xff}, 64)), c06Frame([]byte{0x12, 0x04, 0x08, 0x03, 0x12, 0x00})}
	for _, f := range frames {
		for _, e := range []string{"hs-in", "hs-out", "preconf-provider", "discovery", "preconf-bidder", "readmsg", "readheader"} {
			emit(c06In{Tag: "frames", Entry: e, Wire: hx(f)})
			emit(c06In{Tag: "frames", Entry: e, Wire: hx(append(c06Header(), f...))})
		}
	}
	// ---- byte-level mutations of well-formed exchanges
	seeds := map[string][]byte{
		"hs-in":            append(c06Msg(&handshakepb.HandshakeReq{PeerType: "bidder", Token: "tok", Sig: sign("biddertok")}), c06Msg(&handshakepb.HandshakeResp{ObservedAddress: crypto.PubkeyToAddress(w.localKey.PublicKey).Bytes(), PeerType: "provider"})...),
		"hs-out":           append(c06Msg(&handshakepb.HandshakeResp{ObservedAddress: crypto.PubkeyToAddress(w.localKey.PublicKey).Bytes(), PeerType: "provider"}), c06Msg(&handshakepb.HandshakeReq{PeerType: "bidder", Token: "tok", Sig: sign("biddertok")})...),
		"preconf-provider": append(c06Header(), c06Msg(base)...),
		"preconf-bidder":   c06Msg(cm),
		"discovery":        append(c06Header(), c06Msg(&discoverypb.PeerList{Peers: []*discoverypb.PeerInfo{{EthAddress: make([]byte, 20), Underlay: goodInfo}}})...),
		"readmsg":          c06Msg(base),
		"readheader":       c06Header(),
	}
	entries := []string{"hs-in", "hs-out", "preconf-provider", "preconf-bidder", "discovery", "readmsg", "readheader"}
	for i := 0; i < vcount(1200, 40000); i++ {
		e := entries[rng.intn(len(entries))]
		b := seeds[e]
		for k := 0; k < 1+rng.intn(3); k++ {
			b = mutate(b)
		}
		emit(c06In{Tag: "mutated", Entry: e, Ed: rng.chance(15), Wire: hx(b)})
	}
	for i := 0; i < vcount(300, 10000); i++ {
		emit(c06In{Tag: "random-bytes", Entry: entries[rng.intn(len(entries))], Ed: rng.chance(15), Wire: hx(rng.bytes(rng.intn(80)))})
	}
}

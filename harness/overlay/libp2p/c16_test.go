package libp2p

// C16 correspondence driver: real matchProtocolIDWithSemver on (a) the exhaustive table of
// strict MAJOR.MINOR.PATCH triples over a small range on both sides × name relations and
// (b) malformed identifiers.  Observation: (match, err!=nil, panicked).

import (
	"encoding/hex"
	"encoding/json"
	"fmt"
	"testing"
)

type c16Claim struct {
	Iname string `json:"iname"`
	IM    uint64 `json:"iM"`
	Im    uint64 `json:"im"`
	Ip    uint64 `json:"ip"`
	HM    uint64 `json:"hM"`
	Hm    uint64 `json:"hm"`
	Hp    uint64 `json:"hp"`
}
type c16In struct {
	Incoming string    `json:"incoming"`
	Name     string    `json:"name"`
	Version  string    `json:"version"`
	Claim    *c16Claim `json:"claim,omitempty"`
}
type c16Obs struct {
	Match bool `json:"match"`
	Err   bool `json:"err"`
	Panic bool `json:"panic"`
}

func c16Run(in c16In) (obs c16Obs) {
	inc, _ := hex.DecodeString(in.Incoming)
	name, _ := hex.DecodeString(in.Name)
	ver, _ := hex.DecodeString(in.Version)
	defer func() {
		if r := recover(); r != nil {
			obs = c16Obs{Panic: true}
		}
	}()
	m, err := matchProtocolIDWithSemver(string(inc), string(name), string(ver))
	return c16Obs{Match: m, Err: err != nil}
}

func TestVerifC16(t *testing.T) {
	out := newVout(t, "C16")
	defer out.close()
	hx := func(s string) string { return hex.EncodeToString([]byte(s)) }
	for _, raw := range vcorpus() {
		var in c16In
		if json.Unmarshal(raw, &in) == nil {
			out.emit(in, c16Run(in))
		}
	}
	if vonlyReplay() {
		return
	}
	rng := newVrng(vseed(), 16)
	claim := func(iname, hname string, iM, im, ip, hM, hm, hp uint64) {
		in := c16In{
			Incoming: hx(fmt.Sprintf("/%s/%d.%d.%d", iname, iM, im, ip)),
			Name:     hx(hname),
			Version:  hx(fmt.Sprintf("%d.%d.%d", hM, hm, hp)),
			Claim:    &c16Claim{hx(iname), iM, im, ip, hM, hm, hp},
		}
		out.emit(in, c16Run(in))
	}
	names := [][2]string{{"preconfirmation", "preconfirmation"}, {"preconfirmation", "discovery"},
		{"", "discovery"}, {"disc", "discovery"}, {"discovery", "disc"}, {"", ""}, {"a.b", "a.b"}}
	top := uint64(vcount(3, 5))
	for _, nm := range names {
		for iM := uint64(0); iM < top; iM++ {
			for im := uint64(0); im < top; im++ {
				for ip := uint64(0); ip < 2; ip++ {
					for hM := uint64(0); hM < top; hM++ {
						for hm := uint64(0); hm < top; hm++ {
							claim(nm[0], nm[1], iM, im, ip, hM, hm, ip^1)
						}
					}
				}
			}
		}
	}
	// boundary and random 64-bit components
	edge := []uint64{0, 1, 9, 10, 99, 100, 1<<31 - 1, 1 << 32, 1<<63 - 1, 1 << 63, 1<<64 - 1}
	for i := 0; i < vcount(2000, 40000); i++ {
		pick := func() uint64 {
			if rng.chance(60) {
				return edge[rng.intn(len(edge))]
			}
			return rng.u64() >> uint(rng.intn(64))
		}
		iM, im, hM, hm := pick(), pick(), pick(), pick()
		if rng.chance(50) {
			hM = iM
		}
		if rng.chance(30) {
			hm = im
		}
		nm := names[rng.intn(len(names))]
		claim(nm[0], nm[1], iM, im, pick(), hM, hm, pick())
	}
	// malformed identifiers (raw)
	raws := []string{"", "/", "//", "///", "a", "/a", "/a/", "a/b/c", "/discovery/1.0.0/x", "/discovery",
		"discovery/1.0.0", "/discovery/", "/discovery/abc", "/discovery/1.2.3.4", "/discovery/-1.0.0",
		"/discovery/99999999999999999999.0.0", "/discovery/1.0.0-rc1", "/discovery/v1.0.0", "/discovery/1",
		"/discovery/1.0", "/discovery/ 1.0.0", "/discovery/1.0.0 ", "/discovery/\x00", "/discovery/1..0",
		"/discovery/01.0.0", "/other/1.0.0", "/discovery/1.0.0+meta", "/discovery/1.0.0-", "/discovery/.."}
	vers := []string{"1.0.0", "2.0.0", "", "x", "1", "v1.0.0", "1.0.0-rc1", "99999999999999999999.0.0"}
	for _, r := range raws {
		for _, v := range vers {
			in := c16In{Incoming: hx(r), Name: hx("discovery"), Version: hx(v)}
			out.emit(in, c16Run(in))
		}
	}
	alphabet := []byte("/.0123456789v-+ax\x00\xff")
	for i := 0; i < vcount(2000, 40000); i++ {
		n := rng.intn(24)
		b := make([]byte, n)
		for j := range b {
			b[j] = alphabet[rng.intn(len(alphabet))]
		}
		s := string(b)
		if rng.chance(50) {
			s = "/discovery/" + s
		}
		in := c16In{Incoming: hx(s), Name: hx("discovery"), Version: hx(vers[rng.intn(len(vers))])}
		out.emit(in, c16Run(in))
	}
}

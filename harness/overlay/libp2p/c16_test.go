package libp2p

// C16 correspondence driver: real matchProtocolIDWithSemver on (a) the exhaustive table of
// strict MAJOR.MINOR.PATCH triples over a small range on both sides × name relations and
// (b) malformed identifiers.  Observation: (match, err!=nil, panicked).

import (
	"encoding/hex"
	"encoding/json"
	"fmt"
	"io"
	"testing"

	"github.com/libp2p/go-libp2p/core/host"
	"github.com/libp2p/go-libp2p/core/network"
	"github.com/libp2p/go-libp2p/core/protocol"
	"github.com/primevprotocol/mev-commit/pkg/p2p"
	"github.com/primevprotocol/mev-commit/pkg/util"
)

// the match functions as the node registers them: AddStreamHandlers on a Service whose libp2p
// host only records what it is handed
// (like the multistream muxer underneath the real host, it keeps ONE handler per key it is given:
// a later registration under the same key replaces the earlier one)
type c16Host struct {
	host.Host
	calls   int
	entries []c16Entry
}
type c16Entry struct {
	key   protocol.ID
	match func(protocol.ID) bool
	call  int // which SetStreamHandlerMatch call (= which descriptor) registered it
}

func (h *c16Host) SetStreamHandlerMatch(id protocol.ID, m func(protocol.ID) bool, _ network.StreamHandler) {
	kept := h.entries[:0]
	for _, e := range h.entries {
		if e.key != id {
			kept = append(kept, e)
		}
	}
	h.entries = append(kept, c16Entry{id, m, h.calls})
	h.calls++
}

// the match function the host still holds for descriptor number idx (nil: replaced by another)
func (h *c16Host) matchOf(idx int) func(protocol.ID) bool {
	for _, e := range h.entries {
		if e.call == idx {
			return e.match
		}
	}
	return nil
}

type c16Desc struct {
	Name    string `json:"name"`    // hex
	Version string `json:"version"` // hex
}

type c16Claim struct {
	Iname string `json:"iname"`
	IM    uint64 `json:"iM"`
	Im    uint64 `json:"im"`
	Ip    uint64 `json:"ip"`
	HM    uint64 `json:"hM"`
	Hm    uint64 `json:"hm"`
	Hp    uint64 `json:"hp"`
}
type c16In struct {
	Incoming string    `json:"incoming"`
	Name     string    `json:"name"`
	Version  string    `json:"version"`
	Claim    *c16Claim `json:"claim,omitempty"`
	// when set: the descriptors registered by ONE AddStreamHandlers call; the query goes to the
	// match function registered for descriptor number Index (whose name/version are Name/Version)
	Group []c16Desc `json:"group,omitempty"`
	Index int       `json:"index,omitempty"`
	// identifiers (hex) of streams that reached the same registered match functions before the
	// measured one: what a peer sent earlier must not change how this one is routed
	Pre []string `json:"pre,omitempty"`
}
type c16Obs struct {
	Match bool `json:"match"`
	Err   bool `json:"err"`
	Panic bool `json:"panic"`
}

func c16Run(in c16In) (obs c16Obs) {
	inc, _ := hex.DecodeString(in.Incoming)
	name, _ := hex.DecodeString(in.Name)
	ver, _ := hex.DecodeString(in.Version)
	defer func() {
		if r := recover(); r != nil {
			obs = c16Obs{Panic: true}
		}
	}()
	m, err := matchProtocolIDWithSemver(string(inc), string(name), string(ver))
	if len(in.Group) > 0 {
		fh := &c16Host{}
		svc := &Service{host: fh, logger: util.NewTestLogger(io.Discard)}
		var descs []p2p.StreamDesc
		for _, d := range in.Group {
			n, _ := hex.DecodeString(d.Name)
			v, _ := hex.DecodeString(d.Version)
			descs = append(descs, p2p.StreamDesc{Name: string(n), Version: string(v)})
		}
		svc.AddStreamHandlers(descs...)
		for _, p := range in.Pre {
			pb, _ := hex.DecodeString(p)
			for _, e := range fh.entries {
				e.match(protocol.ID(pb))
			}
		}
		m = false
		if f := fh.matchOf(in.Index); f != nil {
			m = f(protocol.ID(inc))
		}
	}
	return c16Obs{Match: m, Err: err != nil}
}

func TestVerifC16(t *testing.T) {
	out := newVout(t, "C16")
	defer out.close()
	hx := func(s string) string { return hex.EncodeToString([]byte(s)) }
	for _, raw := range vcorpus() {
		var in c16In
		if json.Unmarshal(raw, &in) == nil {
			out.emit(in, c16Run(in))
		}
	}
	if vonlyReplay() {
		return
	}
	rng := newVrng(vseed(), 16)
	claim := func(iname, hname string, iM, im, ip, hM, hm, hp uint64) {
		in := c16In{
			Incoming: hx(fmt.Sprintf("/%s/%d.%d.%d", iname, iM, im, ip)),
			Name:     hx(hname),
			Version:  hx(fmt.Sprintf("%d.%d.%d", hM, hm, hp)),
			Claim:    &c16Claim{hx(iname), iM, im, ip, hM, hm, hp},
		}
		out.emit(in, c16Run(in))
	}
	names := [][2]string{{"preconfirmation", "preconfirmation"}, {"preconfirmation", "discovery"},
		{"TEST", "test"}, {"Test", "test"}, {"discovery", "DISCOVERY"}, {"te\u017ft", "test"}, {"\u212aeep", "keep"},
		{"", "discovery"}, {"disc", "discovery"}, {"discovery", "disc"}, {"", ""}, {"a.b", "a.b"}}
	top := uint64(vcount(3, 5))
	for _, nm := range names {
		for iM := uint64(0); iM < top; iM++ {
			for im := uint64(0); im < top; im++ {
				for ip := uint64(0); ip < 2; ip++ {
					for hM := uint64(0); hM < top; hM++ {
						for hm := uint64(0); hm < top; hm++ {
							claim(nm[0], nm[1], iM, im, ip, hM, hm, ip^1)
						}
					}
				}
			}
		}
	}
	// boundary and random 64-bit components
	edge := []uint64{0, 1, 9, 10, 99, 100, 1<<31 - 1, 1 << 32, 1<<63 - 1, 1 << 63, 1<<64 - 1}
	for i := 0; i < vcount(2000, 40000); i++ {
		pick := func() uint64 {
			if rng.chance(60) {
				return edge[rng.intn(len(edge))]
			}
			return rng.u64() >> uint(rng.intn(64))
		}
		iM, im, hM, hm := pick(), pick(), pick(), pick()
		if rng.chance(50) {
			hM = iM
		}
		if rng.chance(30) {
			hm = im
		}
		nm := names[rng.intn(len(names))]
		claim(nm[0], nm[1], iM, im, pick(), hM, hm, pick())
	}
	// several protocols registered by one call, each with its own version: every registered match
	// function must apply its own descriptor's version
	for i := 0; i < vcount(150, 3000); i++ {
		k := 2 + rng.intn(3)
		var group []c16Desc
		type dv struct {
			name    string
			M, m, p uint64
		}
		var ds []dv
		pool := []string{"alpha", "beta", "gamma", "delta", "pre", "preconf", "preconfirmation", "discovery"}
		for j := 0; j < k; j++ {
			pi := rng.intn(len(pool))
			d := dv{pool[pi], uint64(rng.intn(3)), uint64(rng.intn(4)), uint64(rng.intn(3))}
			pool = append(pool[:pi], pool[pi+1:]...) // one handler per protocol name, as in the node
			if j > 0 && rng.chance(50) {             // the node's protocols mostly carry the same version
				d.M, d.m, d.p = ds[0].M, ds[0].m, ds[0].p
			}
			ds = append(ds, d)
			group = append(group, c16Desc{hx(d.name), hx(fmt.Sprintf("%d.%d.%d", d.M, d.m, d.p))})
		}
		var pre []string
		if rng.chance(40) {
			for _, bad := range []string{"not-a-version", "1.0", "v1.0.0", "99999999999999999999.0.0", "", "1.0.0.0", "1.x.0"} {
				if rng.chance(50) {
					pre = append(pre, hx("/"+ds[rng.intn(len(ds))].name+"/"+bad))
				}
			}
			pre = append(pre, hx("/"+ds[0].name), hx("garbage"))
		}
		for idx, d := range ds {
			for q := 0; q < 3; q++ {
				iname := d.name
				if rng.chance(15) {
					iname = "beta"
				}
				iM, im, ip := uint64(rng.intn(3)), uint64(rng.intn(4)), uint64(rng.intn(3))
				in := c16In{Incoming: hx(fmt.Sprintf("/%s/%d.%d.%d", iname, iM, im, ip)), Name: hx(d.name),
					Version: hx(fmt.Sprintf("%d.%d.%d", d.M, d.m, d.p)), Claim: &c16Claim{hx(iname), iM, im, ip, d.M, d.m, d.p},
					Group: group, Index: idx, Pre: pre}
				out.emit(in, c16Run(in))
			}
			// identifiers that merely begin with the handler's name and end with exactly its version:
			// a longer name, a name with a suffix, extra path segments
			hv := fmt.Sprintf("%d.%d.%d", d.M, d.m, d.p)
			for _, other := range []string{d.name + "irmation", d.name + "-legacy", d.name + "2"} {
				in := c16In{Incoming: hx("/" + other + "/" + hv), Name: hx(d.name), Version: hx(hv),
					Claim: &c16Claim{hx(other), d.M, d.m, d.p, d.M, d.m, d.p}, Group: group, Index: idx}
				out.emit(in, c16Run(in))
			}
			// numeric versions whose components do not fit 64 bits: the handler's major with an astronomically
			// newer minor, another major, an oversized patch
			for _, raw := range []string{fmt.Sprintf("/%s/%d.99999999999999999999.0", d.name, d.M), fmt.Sprintf("/%s/%d.18446744073709551616.%d", d.name, d.M, d.p),
				fmt.Sprintf("/%s/99999999999999999999.%d.%d", d.name, d.m, d.p), fmt.Sprintf("/%s/%d.%d.18446744073709551616", d.name, d.M+1, d.m)} {
				in := c16In{Incoming: hx(raw), Name: hx(d.name), Version: hx(hv), Group: group, Index: idx, Pre: pre}
				out.emit(in, c16Run(in))
			}
			for _, raw := range []string{"/" + d.name + "/extra/" + hv, "/" + d.name + "/9.9.9/" + hv, "/" + d.name + "//" + hv} {
				in := c16In{Incoming: hx(raw), Name: hx(d.name), Version: hx(hv), Group: group, Index: idx}
				out.emit(in, c16Run(in))
			}
		}
	}
	// malformed identifiers (raw)
	raws := []string{"", "/", "//", "///", "a", "/a", "/a/", "a/b/c", "/discovery/1.0.0/x", "/discovery",
		"discovery/1.0.0", "/discovery/", "/discovery/abc", "/discovery/1.2.3.4", "/discovery/-1.0.0",
		"/discovery/99999999999999999999.0.0", "/discovery/1.0.0-rc1", "/discovery/v1.0.0", "/discovery/1",
		"/discovery/1.0", "/discovery/ 1.0.0", "/discovery/1.0.0 ", "/discovery/\x00", "/discovery/1..0",
		"/discovery/1.99999999999999999999.0", "/discovery/1.18446744073709551616.0", "/discovery/1.18446744073709551615.0",
		"/discovery/2.0.18446744073709551616", "/discovery/18446744073709551616.0.0", "/discovery/2.340282366920938463463374607431768211456.1",
		"/discovery/01.0.0", "/other/1.0.0", "/discovery/1.0.0+meta", "/discovery/1.0.0-", "/discovery/.."}
	vers := []string{"1.0.0", "2.0.0", "", "x", "1", "v1.0.0", "1.0.0-rc1", "99999999999999999999.0.0"}
	for _, r := range raws {
		for _, v := range vers {
			in := c16In{Incoming: hx(r), Name: hx("discovery"), Version: hx(v)}
			out.emit(in, c16Run(in))
		}
	}
	alphabet := []byte("/.0123456789v-+ax\x00\xff")
	for i := 0; i < vcount(2000, 40000); i++ {
		n := rng.intn(24)
		b := make([]byte, n)
		for j := range b {
			b[j] = alphabet[rng.intn(len(alphabet))]
		}
		s := string(b)
		if rng.chance(50) {
			s = "/discovery/" + s
		}
		in := c16In{Incoming: hx(s), Name: hx("discovery"), Version: hx(vers[rng.intn(len(vers))])}
		out.emit(in, c16Run(in))
	}
}

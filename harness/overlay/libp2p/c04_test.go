package libp2p

// C04 correspondence driver.  The real handshake.Service, constructed exactly as libp2p.New
// constructs it (real signer.New(), real GetEthAddressFromPeerID, a scripted registry), is
// driven in both directions over a scripted stream whose remote frames are well-formed or not;
// the inbound caller `handleConnectReq` and the outbound caller `Connect` run on a Service with
// a fake libp2p host (only the few host methods they touch), a real peerRegistry, a recording
// notifier and the real block list, so registration, notification and blocking are observed.

import (
	"fmt"
	"bytes"
	"context"
	"crypto/ecdsa"
	"encoding/binary"
	"encoding/hex"
	"encoding/json"
	"errors"
	"io"
	"sync"
	"testing"
	"time"

	"github.com/ethereum/go-ethereum/common"
	"github.com/ethereum/go-ethereum/crypto"
	libp2pcrypto "github.com/libp2p/go-libp2p/core/crypto"
	"github.com/libp2p/go-libp2p/core/host"
	"github.com/libp2p/go-libp2p/core/network"
	"github.com/libp2p/go-libp2p/core/peer"
	"github.com/libp2p/go-libp2p/core/peerstore"
	"github.com/libp2p/go-libp2p/core/protocol"
	ma "github.com/multiformats/go-multiaddr"
	handshakepb "github.com/primevprotocol/mev-commit/gen/go/handshake/v1"
	streammsgv1 "github.com/primevprotocol/mev-commit/gen/go/streammsg/v1"
	mockkeysigner "github.com/primevprotocol/mev-commit/pkg/keysigner/mock"
	"github.com/primevprotocol/mev-commit/pkg/p2p"
	"github.com/primevprotocol/mev-commit/pkg/p2p/libp2p/internal/handshake"
	"github.com/primevprotocol/mev-commit/pkg/signer"
	"github.com/primevprotocol/mev-commit/pkg/util"
	"github.com/prometheus/client_golang/prometheus"
	"google.golang.org/protobuf/proto"
)

type c04Frame struct {
	T        string `json:"t"` // req | resp | bad
	Role     string `json:"role"`     // hex of raw string
	Token    string `json:"token"`    // hex
	Sig      string `json:"sig"`      // hex
	Observed string `json:"observed"` // hex
	Bad      string `json:"bad,omitempty"`      // eof | garbage | errframe | emptyframe
}
type c04Verify struct { // primitive answer for one (sig, message): computed with go-ethereum directly
	Sig      string `json:"sig"`
	Msg      string `json:"msg"`
	Ok       bool   `json:"ok"` // recovery succeeded
	Verified bool   `json:"verified"`
	Addr     string `json:"addr"`
}
type c04In struct {
	Tag        string      `json:"tag"`
	Inbound    bool        `json:"inbound"`
	Level      string      `json:"level"` // service | caller
	LocalRole  int         `json:"local_role"`
	OwnAddr    string      `json:"own_addr"`
	OwnRole    string      `json:"own_role"`  // hex
	OwnToken   string      `json:"own_token"` // hex
	OwnSig     string      `json:"own_sig"`
	PeerAddr   *string     `json:"peer_addr"` // address of the authenticated peer id; null: id has no secp256k1 key
	Registered bool        `json:"registered"`
	// the registry takes this long to answer the stake look-up (and, like the node's contract
	// wrapper, answers "no" when the context it was given ends first)
	RegistrySlowMs int `json:"registry_slow_ms,omitempty"`
	Remote     []c04Frame  `json:"remote"`
	Prims      []c04Verify `json:"prims"`
	WriteFail  int         `json:"write_fail"` // index of the local write that fails, -1 none
	// an earlier, complete inbound handshake of the same remote with the same handshake service
	// instance, while the registry answered prior_registered (the measured handshake is judged on
	// what the registry answers at *its* moment)
	Prior           []c04Frame `json:"prior,omitempty"`
	PriorRegistered bool       `json:"prior_registered,omitempty"`
	// caller level, inbound: the peer was admitted over this connection before (by the handshake
	// in `prior`) and now opens a second handshake stream on it
	PriorAdmit bool `json:"prior_admit,omitempty"`
}
type c04Obs struct {
	Outcome   string     `json:"outcome"` // admitted | refused
	Addr      string     `json:"addr,omitempty"`
	Role      int        `json:"role"`
	Class     string     `json:"class,omitempty"` // signature | addressMismatch | insufficientStake | other
	Lookups   int        `json:"lookups"`
	Written   []c04Frame `json:"written"`
	// caller level
	Registered *string `json:"registered"` // "addr/role" the registry holds for the peer id afterwards
	Notified   bool    `json:"notified"`
	// prior_admit cases: how many disconnect notifications the rest of the node got for the peer that
	// had been admitted, once its (only) connection is closed — whatever the second handshake did
	DisconnectNotes *int `json:"disconnect_notes,omitempty"`
	Blocked    *int64  `json:"blocked"` // duration of the block placed on the peer id (ns), null: none
	// by how much the block's term began before the registry had even answered the stake look-up
	// that led to it (ms, rounded up; 0: it began when the block was placed)
	BlockEarlyMs int64 `json:"block_early_ms,omitempty"`
	Panic      bool    `json:"panic"`
}

// the swarm as the registry may ask it about: no other connection of the peer is open
type c04Swarm struct{ network.Network }

func (c04Swarm) Connectedness(peer.ID) network.Connectedness { return network.NotConnected }
func (c04Swarm) ConnsToPeer(peer.ID) []network.Conn            { return nil }

type c04Reg struct {
	mu      sync.Mutex
	answeredAt time.Time
	slowMs  int
	answer  bool
	lookups int
	perAddr map[common.Address]int
}

func (r *c04Reg) CheckProviderRegistered(ctx context.Context, a common.Address) bool {
	r.mu.Lock()
	slow := r.slowMs
	r.mu.Unlock()
	if slow > 0 {
		select {
		case <-time.After(time.Duration(slow) * time.Millisecond):
		case <-ctx.Done():
		}
	}
	r.mu.Lock()
	defer r.mu.Unlock()
	r.answeredAt = time.Now()
	if ctx.Err() != nil {
		return false
	}
	if r.perAddr == nil {
		r.perAddr = map[common.Address]int{}
	}
	r.perAddr[a]++
	r.lookups++
	return r.answer
}

// scripted libp2p stream: reads come from a prepared byte buffer, writes are captured
type c04Conn struct {
	network.Conn
	pid peer.ID
}

func (c *c04Conn) RemotePeer() peer.ID { return c.pid }
func (c *c04Conn) Stat() network.ConnStats {
	return network.ConnStats{Stats: network.Stats{Direction: network.DirInbound}}
}

type c04Stream struct {
	network.Stream
	rd        io.Reader
	wr        bytes.Buffer
	conn      *c04Conn
	writes    int
	writeFail int
	reset     bool
	onConn    func() // called on every Conn() (lets a harness hold the caller at a chosen call)
}

func (s *c04Stream) Read(p []byte) (int, error) { return s.rd.Read(p) }
func (s *c04Stream) Write(p []byte) (int, error) {
	// msgio issues one Write per frame
	if s.writes == s.writeFail {
		s.writes++
		return 0, errors.New("stream reset")
	}
	s.writes++
	return s.wr.Write(p)
}
func (s *c04Stream) Close() error      { return nil }
func (s *c04Stream) Reset() error      { s.reset = true; return nil }
func (s *c04Stream) Conn() network.Conn {
	if s.onConn != nil {
		s.onConn()
	}
	return s.conn
}

func c04FrameBytes(f c04Frame) []byte {
	var payload []byte
	wrap := func(m proto.Message) []byte {
		b, _ := proto.Marshal(m)
		e, _ := proto.Marshal(&streammsgv1.StreamMsg{Body: &streammsgv1.StreamMsg_Data{Data: b}})
		return e
	}
	unh := func(s string) []byte { b, _ := hex.DecodeString(s); return b }
	switch f.T {
	case "req":
		payload = wrap(&handshakepb.HandshakeReq{PeerType: string(unh(f.Role)), Token: string(unh(f.Token)), Sig: unh(f.Sig)})
	case "resp":
		payload = wrap(&handshakepb.HandshakeResp{ObservedAddress: unh(f.Observed), PeerType: string(unh(f.Role))})
	default:
		switch f.Bad {
		case "eof":
			return nil
		case "garbage":
			payload = []byte{0xff, 0xff, 0x01}
		case "emptyframe":
			payload = []byte{}
		default: // errframe
			payload = []byte{0x12, 0x02, 0x08, 0x0d}
		}
	}
	var pre [4]byte
	binary.BigEndian.PutUint32(pre[:], uint32(len(payload)))
	return append(pre[:], payload...)
}

func c04Decode(wire []byte) []c04Frame {
	res := []c04Frame{}
	for len(wire) >= 4 {
		n := int(binary.BigEndian.Uint32(wire[:4]))
		if len(wire) < 4+n {
			break
		}
		var sm streammsgv1.StreamMsg
		if proto.Unmarshal(wire[4:4+n], &sm) != nil {
			res = append(res, c04Frame{T: "bad"})
		} else {
			d := sm.GetData()
			// the two message kinds are told apart by position when ambiguous: try req (3 fields) first
			var rq handshakepb.HandshakeReq
			var rs handshakepb.HandshakeResp
			if proto.Unmarshal(d, &rq) == nil && len(rq.Sig) > 0 {
				res = append(res, c04Frame{T: "req", Role: hex.EncodeToString([]byte(rq.PeerType)), Token: hex.EncodeToString([]byte(rq.Token)), Sig: hex.EncodeToString(rq.Sig)})
			} else if proto.Unmarshal(d, &rs) == nil {
				res = append(res, c04Frame{T: "resp", Role: hex.EncodeToString([]byte(rs.PeerType)), Observed: hex.EncodeToString(rs.ObservedAddress)})
			}
		}
		wire = wire[4+n:]
	}
	return res
}

type c04Net struct {
	network.Network
	h *c04Host
}

// libp2p closes the peer's connections; the registry hears of each through its Disconnected hook
func (n c04Net) ClosePeer(id peer.ID) error {
	if n.h != nil && n.h.onClosePeer != nil {
		n.h.onClosePeer(id)
	}
	return nil
}

type c04PS struct {
	peerstore.Peerstore
}

func (c04PS) AddAddrs(peer.ID, []ma.Multiaddr, time.Duration) {}

type c04Host struct {
	host.Host
	stream      *c04Stream
	onClosePeer func(peer.ID)
}

func (h *c04Host) Network() network.Network                          { return c04Net{h: h} }
func (h *c04Host) Peerstore() peerstore.Peerstore                    { return c04PS{} }
func (h *c04Host) Connect(context.Context, peer.AddrInfo) error       { return nil }
func (h *c04Host) NewStream(context.Context, peer.ID, ...protocol.ID) (network.Stream, error) {
	return h.stream, nil
}

type c04Notifier struct {
	connected    []p2p.Peer
	disconnected int
}

func (n *c04Notifier) Connected(p p2p.Peer)  { n.connected = append(n.connected, p) }
func (n *c04Notifier) Disconnected(p2p.Peer) { n.disconnected++ }

type c04World struct {
	localKey  *ecdsa.PrivateKey
	remoteKey *ecdsa.PrivateKey
	foreign   *ecdsa.PrivateKey
	remoteID  peer.ID // secp256k1 identity of remoteKey
	edID      peer.ID // an ed25519 identity (no Ethereum address)
}

func c04MkWorld(rng *vrng) *c04World {
	mk := func() *ecdsa.PrivateKey {
		for {
			k, err := crypto.ToECDSA(rng.bytes(32))
			if err == nil {
				return k
			}
		}
	}
	w := &c04World{localKey: mk(), remoteKey: mk(), foreign: mk()}
	lk, _ := libp2pcrypto.UnmarshalSecp256k1PrivateKey(util.PadKeyTo32Bytes(w.remoteKey.D))
	w.remoteID, _ = peer.IDFromPrivateKey(lk)
	ed, _, _ := libp2pcrypto.GenerateEd25519Key(bytes.NewReader(rng.bytes(64)))
	w.edID, _ = peer.IDFromPrivateKey(ed)
	return w
}

func c04Prim(sig, msg []byte) c04Verify {
	p := c04Verify{Sig: hex.EncodeToString(sig), Msg: hex.EncodeToString(msg)}
	func() {
		defer func() { recover() }()
		h := crypto.Keccak256(msg)
		pub, err := crypto.SigToPub(h, sig)
		if err != nil {
			return
		}
		p.Ok = true
		p.Addr = hex.EncodeToString(crypto.PubkeyToAddress(*pub).Bytes())
		p.Verified = crypto.VerifySignature(crypto.FromECDSAPub(pub), h, sig[:len(sig)-1])
	}()
	return p
}

type c04SharedHS struct {
	hs  *handshake.Service
	reg *c04Reg
}

var c04Shared = struct {
	mu sync.Mutex
	m  map[string]*c04SharedHS
}{m: map[string]*c04SharedHS{}}

func c04Run(t *testing.T, in *c04In, w *c04World, ed bool) (obs c04Obs) {
	obs.Written = []c04Frame{}
	defer func() {
		if r := recover(); r != nil {
			obs.Panic = true
		}
	}()
	// one handshake service per local role for the whole run, as in the node (a node has one for
	// its lifetime); the scripted registry's answer is what changes from case to case
	key := fmt.Sprintf("%p/%d", w, in.LocalRole)
	c04Shared.mu.Lock()
	sh, ok := c04Shared.m[key]
	if !ok {
		ks := mockkeysigner.NewMockKeySigner(w.localKey, crypto.PubkeyToAddress(w.localKey.PublicKey))
		reg := &c04Reg{}
		hs, err := handshake.New(ks, p2p.PeerType(in.LocalRole), "token-local", signer.New(), reg, GetEthAddressFromPeerID)
		if err != nil {
			c04Shared.mu.Unlock()
			t.Fatal(err)
		}
		sh = &c04SharedHS{hs, reg}
		c04Shared.m[key] = sh
	}
	c04Shared.mu.Unlock()
	hs, reg := sh.hs, sh.reg
	reg.mu.Lock()
	reg.answer, reg.lookups, reg.slowMs = in.Registered, 0, in.RegistrySlowMs
	reg.mu.Unlock()
	defer func() { reg.mu.Lock(); reg.slowMs = 0; reg.mu.Unlock() }()
	var err error
	pid := w.remoteID
	if ed {
		pid = w.edID
	}
	if len(in.Prior) > 0 && !in.PriorAdmit {
		reg.answer = in.PriorRegistered
		var pw []byte
		for _, f := range in.Prior {
			pw = append(pw, c04FrameBytes(f)...)
		}
		ps := &c04Stream{rd: bytes.NewReader(pw), conn: &c04Conn{pid: pid}, writeFail: -1}
		_, _ = hs.Handle(context.Background(), newStream(ps, nil, nil), pid)
		reg.mu.Lock()
		reg.answer, reg.lookups = in.Registered, 0
		reg.mu.Unlock()
	}
	var wire []byte
	for _, f := range in.Remote {
		b := c04FrameBytes(f)
		if b == nil {
			break
		}
		wire = append(wire, b...)
	}
	ls := &c04Stream{rd: bytes.NewReader(wire), conn: &c04Conn{pid: pid}, writeFail: in.WriteFail}
	classify := func(err error) string {
		switch {
		case errors.Is(err, handshake.ErrSignatureVerificationFailed):
			return "signature"
		case errors.Is(err, handshake.ErrObservedAddressMismatch):
			return "addressMismatch"
		case errors.Is(err, handshake.ErrInsufficientStake):
			return "insufficientStake"
		}
		return "other"
	}
	if in.Level == "service" {
		st := newStream(ls, nil, nil)
		var p *p2p.Peer
		if in.Inbound {
			p, err = hs.Handle(context.Background(), st, pid)
		} else {
			p, err = hs.Handshake(context.Background(), pid, st)
		}
		if err != nil {
			obs.Outcome, obs.Class = "refused", classify(err)
		} else {
			obs.Outcome, obs.Addr, obs.Role = "admitted", hex.EncodeToString(p.EthAddress.Bytes()), int(p.Type)
		}
	} else {
		n := &c04Notifier{}
		svc := &Service{baseCtx: context.Background(), peerType: p2p.PeerType(in.LocalRole), host: &c04Host{stream: ls},
			peers: newPeerRegistry(), logger: util.NewTestLogger(io.Discard), notifier: n, hsSvc: hs,
			metrics: newMetrics(prometheus.NewRegistry(), "verif"), blockMap: make(map[peer.ID]blockInfo)}
		svc.peers.setDisconnector(svc)
		if in.Inbound && in.PriorAdmit {
			var pw []byte
			for _, f := range in.Prior {
				pw = append(pw, c04FrameBytes(f)...)
			}
			reg.mu.Lock()
			reg.answer = true
			reg.mu.Unlock()
			svc.handleConnectReq(&c04Stream{rd: bytes.NewReader(pw), conn: ls.conn, writeFail: -1})
			n.connected = nil
			svc.host.(*c04Host).onClosePeer = func(peer.ID) { svc.peers.Disconnected(c04Swarm{}, ls.conn) }
			reg.mu.Lock()
			reg.answer, reg.lookups = in.Registered, 0
			reg.mu.Unlock()
		}
		if in.Inbound {
			svc.handleConnectReq(ls)
		} else {
			info, _ := (&peer.AddrInfo{ID: pid, Addrs: []ma.Multiaddr{ma.StringCast("/ip4/127.0.0.1/tcp/1")}}).MarshalJSON()
			p, err := svc.Connect(context.Background(), info)
			if err == nil {
				obs.Addr, obs.Role = hex.EncodeToString(p.EthAddress.Bytes()), int(p.Type)
			}
		}
		if p, ok := svc.peers.getPeer(pid); ok {
			s := hex.EncodeToString(p.EthAddress.Bytes()) + "/" + string(rune('0'+int(p.Type)+1))
			obs.Registered = &s
			obs.Outcome, obs.Addr, obs.Role = "admitted", hex.EncodeToString(p.EthAddress.Bytes()), int(p.Type)
		} else {
			obs.Outcome = "refused"
		}
		obs.Notified = len(n.connected) > 0
		if in.Inbound && in.PriorAdmit {
			if _, open := svc.peers.connections[pid]; open || n.disconnected == 0 {
				// nobody closed the connection yet (the second handshake was fine): it ends now
				svc.peers.Disconnected(c04Swarm{}, ls.conn)
			}
			k := n.disconnected
			obs.DisconnectNotes = &k
		}
		svc.blockMu.Lock()
		if bi, ok := svc.blockMap[pid]; ok {
			d := int64(bi.duration)
			obs.Blocked = &d
			reg.mu.Lock()
			if reg.lookups > 0 && bi.start.Before(reg.answeredAt) {
				obs.BlockEarlyMs = int64(reg.answeredAt.Sub(bi.start)/time.Millisecond) + 1
			}
			reg.mu.Unlock()
		}
		svc.blockMu.Unlock()
	}
	reg.mu.Lock()
	obs.Lookups = reg.lookups
	reg.mu.Unlock()
	obs.Written = c04Decode(ls.wr.Bytes())
	// what the local side itself sends
	return obs
}

func TestVerifC04(t *testing.T) {
	out := newVout(t, "C04")
	defer out.close()
	c04Generate(t, out, false)
}

// a remote whose second frame arrives only when it chooses
type c04GateReader struct {
	first, rest []byte
	gate        chan struct{}
	hit         chan struct{}
	once        sync.Once
}

func (g *c04GateReader) Read(p []byte) (int, error) {
	if len(g.first) > 0 {
		n := copy(p, g.first)
		g.first = g.first[n:]
		return n, nil
	}
	g.once.Do(func() { close(g.hit) })
	<-g.gate
	if len(g.rest) == 0 {
		return 0, io.EOF
	}
	n := copy(p, g.rest)
	g.rest = g.rest[n:]
	return n, nil
}

// c04Overlap: two inbound handshakes on one node at the same time.  Remote A (a bidder) has sent
// its request and is slow with its acknowledgement; meanwhile remote B (a staked provider)
// completes its handshake; then A finishes.  Each must be admitted with the role *it* signed.
func c04Overlap(t *testing.T, out *vout, rng *vrng, rounds int) {
	hx := func(b []byte) string { return hex.EncodeToString(b) }
	mkKey := func() *ecdsa.PrivateKey {
		for {
			k, err := crypto.ToECDSA(rng.bytes(32))
			if err == nil {
				return k
			}
		}
	}
	local := mkKey()
	ownAddr := crypto.PubkeyToAddress(local.PublicKey)
	reg := &c04Reg{answer: true}
	hs, err := handshake.New(mockkeysigner.NewMockKeySigner(local, ownAddr), p2p.PeerTypeProvider, "token-local", signer.New(), reg, GetEthAddressFromPeerID)
	if err != nil {
		t.Fatal(err)
	}
	sign := func(k *ecdsa.PrivateKey, msg string) []byte {
		s, _ := crypto.Sign(crypto.Keccak256([]byte(msg)), k)
		return s
	}
	type remote struct {
		key  *ecdsa.PrivateKey
		pid  peer.ID
		role string
		req  c04Frame
	}
	mkRemote := func(role string) remote {
		k := mkKey()
		lk, _ := libp2pcrypto.UnmarshalSecp256k1PrivateKey(util.PadKeyTo32Bytes(k.D))
		id, _ := peer.IDFromPrivateKey(lk)
		return remote{k, id, role, c04Frame{T: "req", Role: hx([]byte(role)), Token: hx([]byte("tok")), Sig: hx(sign(k, role+"tok"))}}
	}
	echo := c04Frame{T: "resp", Observed: hx(ownAddr.Bytes()), Role: hx([]byte("provider"))}
	for r := 0; r < rounds; r++ {
		roles := [][2]string{{"bidder", "provider"}, {"provider", "bidder"}, {"bidder", "bootnode"}}[r%3]
		A, B := mkRemote(roles[0]), mkRemote(roles[1])
		gr := &c04GateReader{first: c04FrameBytes(A.req), rest: c04FrameBytes(echo), gate: make(chan struct{}), hit: make(chan struct{})}
		sa := &c04Stream{rd: gr, conn: &c04Conn{pid: A.pid}, writeFail: -1}
		sb := &c04Stream{rd: bytes.NewReader(append(c04FrameBytes(B.req), c04FrameBytes(echo)...)), conn: &c04Conn{pid: B.pid}, writeFail: -1}
		type res struct {
			p   *p2p.Peer
			err error
		}
		ra := make(chan res, 1)
		go func() {
			p, err := hs.Handle(context.Background(), newStream(sa, nil, nil), A.pid)
			ra <- res{p, err}
		}()
		select {
		case <-gr.hit:
		case <-time.After(2 * time.Second):
		}
		pb, errB := hs.Handle(context.Background(), newStream(sb, nil, nil), B.pid)
		close(gr.gate)
		var a res
		select {
		case a = <-ra:
		case <-time.After(2 * time.Second):
			a = res{nil, errors.New("stuck")}
		}
		for _, x := range []struct {
			rm  remote
			st  *c04Stream
			p   *p2p.Peer
			err error
		}{{A, sa, a.p, a.err}, {B, sb, pb, errB}} {
			addr := crypto.PubkeyToAddress(x.rm.key.PublicKey)
			pa := hx(addr.Bytes())
			in := &c04In{Tag: "overlapping-inbound", Inbound: true, Level: "service", LocalRole: 1, OwnAddr: hx(ownAddr.Bytes()),
				OwnRole: hx([]byte("provider")), OwnToken: hx([]byte("token-local")), OwnSig: hx(sign(local, "provider"+"token-local")),
				PeerAddr: &pa, Registered: true, Remote: []c04Frame{x.rm.req, echo}, WriteFail: -1,
				Prims: []c04Verify{c04Prim(sign(x.rm.key, x.rm.role+"tok"), []byte(x.rm.role+"tok"))}}
			obs := c04Obs{Written: []c04Frame{}}
			if x.err != nil || x.p == nil {
				obs.Outcome, obs.Class = "refused", "other"
			} else {
				obs.Outcome, obs.Addr, obs.Role = "admitted", hx(x.p.EthAddress.Bytes()), int(x.p.Type)
			}
			reg.mu.Lock()
			obs.Lookups = reg.perAddr[addr]
			reg.mu.Unlock()
			obs.Written = c04Decode(x.st.wr.Bytes())
			out.emitAs("C04", in, obs)
		}
	}
}

// c04Generate emits the handshake cases.  blockCells: only the caller-level cells that end in a
// refusal or admission of a provider / bidder with a well-formed echo — the cells that decide
// which block, if any, a failed handshake places (used by the C17 check as well).
func c04Generate(t *testing.T, out *vout, blockCells bool) {
	rng := newVrng(vseed(), 4)
	w := c04MkWorld(rng)
	_ = json.Marshal
	hx := func(b []byte) string { return hex.EncodeToString(b) }
	ownAddr := crypto.PubkeyToAddress(w.localKey.PublicKey).Bytes()
	remAddr := crypto.PubkeyToAddress(w.remoteKey.PublicKey).Bytes()
	sign := func(k *ecdsa.PrivateKey, msg string) []byte {
		s, _ := crypto.Sign(crypto.Keccak256([]byte(msg)), k)
		return s
	}
	roles := []string{"bidder", "provider", "bootnode", "", "Provider", "PROVIDER", " provider", "provider\n", "junk", "unknown"}
	localRoles := []int{0, 1, 2}
	emit := func(tag string, inbound bool, level string, lr int, ed bool, registered bool, remote []c04Frame, writeFail int) {
		ownRole := p2p.PeerType(lr).String()
		in := &c04In{Tag: tag, Inbound: inbound, Level: level, LocalRole: lr, OwnAddr: hx(ownAddr), OwnRole: hx([]byte(ownRole)),
			OwnToken: hx([]byte("token-local")), OwnSig: hx(sign(w.localKey, ownRole+"token-local")), Registered: registered,
			Remote: remote, WriteFail: writeFail, Prims: []c04Verify{}}
		if !ed {
			s := hx(remAddr)
			in.PeerAddr = &s
		}
		for _, f := range remote {
			if f.T == "req" {
				sg, _ := hex.DecodeString(f.Sig)
				rl, _ := hex.DecodeString(f.Role)
				tk, _ := hex.DecodeString(f.Token)
				in.Prims = append(in.Prims, c04Prim(sg, append(append([]byte{}, rl...), tk...)))
			}
		}
		if blockCells && (level != "caller" || (tag != "matrix" && tag != "ed25519-identity-bad-signature")) {
			return
		}
		out.emitAs("C04", in, c04Run(t, in, w, ed))
	}
	reqFrame := func(role, token, sigClass string) c04Frame {
		var sg []byte
		switch sigClass {
		case "valid":
			sg = sign(w.remoteKey, role+token)
		case "foreign":
			sg = sign(w.foreign, role+token)
		case "other-message": // a valid signature of the right key over a different role/token
			sg = sign(w.remoteKey, "bidder"+"other-token")
		case "flipped":
			sg = sign(w.remoteKey, role+token)
			sg[10] ^= 4
		case "short":
			sg = sign(w.remoteKey, role+token)[:64]
		case "long":
			sg = append(sign(w.remoteKey, role+token), 1)
		case "empty":
			sg = []byte{}
		case "v27":
			sg = sign(w.remoteKey, role+token)
			sg[64] += 27
		}
		return c04Frame{T: "req", Role: hx([]byte(role)), Token: hx([]byte(token)), Sig: hx(sg)}
	}
	echo := func(lr int, class string) c04Frame {
		own := p2p.PeerType(lr).String()
		switch class {
		case "right":
			return c04Frame{T: "resp", Observed: hx(ownAddr), Role: hx([]byte(own))}
		case "wrong-addr":
			return c04Frame{T: "resp", Observed: hx(remAddr), Role: hx([]byte(own))}
		case "wrong-role":
			return c04Frame{T: "resp", Observed: hx(ownAddr), Role: hx([]byte("provider" + own))}
		case "short-addr":
			return c04Frame{T: "resp", Observed: hx(ownAddr[:19]), Role: hx([]byte(own))}
		case "padded32-addr": // the address as an ABI word
			return c04Frame{T: "resp", Observed: hx(append(make([]byte, 12), ownAddr...)), Role: hx([]byte(own))}
		case "junk-then-addr":
			return c04Frame{T: "resp", Observed: hx(append([]byte{0x7f}, ownAddr...)), Role: hx([]byte(own))}
		case "stranger-then-addr":
			return c04Frame{T: "resp", Observed: hx(append(append([]byte{}, remAddr...), ownAddr...)), Role: hx([]byte(own))}
		case "addr-then-junk":
			return c04Frame{T: "resp", Observed: hx(append(append([]byte{}, ownAddr...), 0)), Role: hx([]byte(own))}
		case "empty":
			return c04Frame{T: "resp"}
		}
		return c04Frame{T: "bad", Bad: class}
	}
	sigClasses := []string{"valid", "foreign", "other-message", "flipped", "short", "long", "empty", "v27"}
	echoes := []string{"right", "wrong-addr", "wrong-role", "short-addr", "padded32-addr", "junk-then-addr", "stranger-then-addr", "addr-then-junk", "empty", "eof", "garbage", "errframe", "emptyframe"}
	for _, level := range []string{"service", "caller"} {
		for _, inbound := range []bool{true, false} {
			for _, lr := range localRoles {
				for _, registered := range []bool{true, false} {
					for _, role := range roles {
						for _, sc := range sigClasses {
							if sc != "valid" && role != "bidder" && role != "provider" {
								continue
							}
							for _, ec := range echoes {
								if ec != "right" && (sc != "valid" || (role != "bidder" && role != "provider")) {
									continue
								}
								rq := reqFrame(role, "tok", sc)
								var remote []c04Frame
								if inbound {
									remote = []c04Frame{rq, echo(lr, ec)}
								} else {
									remote = []c04Frame{echo(lr, ec), rq}
								}
								emit("matrix", inbound, level, lr, false, registered, remote, -1)
							}
						}
					}
				}
			}
		}
	}
	// a genuine handshake first; then the same peer presents the same signature again and claims
	// another role (or another token) with it
	for _, level := range []string{"service", "caller"} {
		for _, inbound := range []bool{true, false} {
			for _, lr := range localRoles {
				for _, claim := range [][2]string{{"provider", "tok"}, {"bootnode", "tok"}, {"bidder", "tok2"}, {"bidder", "tok"}} {
					genuine := reqFrame("bidder", "tok", "valid")
					rq := c04Frame{T: "req", Role: hx([]byte(claim[0])), Token: hx([]byte(claim[1])), Sig: genuine.Sig}
					remote := []c04Frame{rq, echo(lr, "right")}
					if !inbound {
						remote = []c04Frame{echo(lr, "right"), rq}
					}
					ownRole := p2p.PeerType(lr).String()
					in := &c04In{Tag: "same-signature-other-claim", Inbound: inbound, Level: level, LocalRole: lr, OwnAddr: hx(ownAddr),
						OwnRole: hx([]byte(ownRole)), OwnToken: hx([]byte("token-local")), OwnSig: hx(sign(w.localKey, ownRole+"token-local")),
						Registered: true, Remote: remote, WriteFail: -1, Prims: []c04Verify{},
						Prior: []c04Frame{genuine, echo(lr, "right")}, PriorRegistered: true}
					s := hx(remAddr)
					in.PeerAddr = &s
					sg, _ := hex.DecodeString(rq.Sig)
					in.Prims = append(in.Prims, c04Prim(sg, []byte(claim[0]+claim[1])))
					if blockCells && level != "caller" {
						continue
					}
					out.emitAs("C04", in, c04Run(t, in, w, false))
				}
			}
		}
	}
	// a registry that is slow to answer the stake look-up: longer than every real-time bound the
	// package's sources mention; whatever it finally says (or fails to say) decides
	slows := []int{300}
	for _, ms := range c20Timers() {
		d := ms + 800
		if ms == 0 {
			d = 6000
		}
		if d <= 25000 {
			slows = append(slows, d)
		}
	}
	for _, d := range slows {
		for _, level := range []string{"service", "caller"} {
			for _, inbound := range []bool{true, false} {
				for _, registered := range []bool{false, true} {
					lr := localRoles[(d/100+len(level))%len(localRoles)]
					rq := reqFrame("provider", "tok", "valid")
					remote := []c04Frame{rq, echo(lr, "right")}
					if !inbound {
						remote = []c04Frame{echo(lr, "right"), rq}
					}
					ownRole := p2p.PeerType(lr).String()
					in := &c04In{Tag: "slow-registry", Inbound: inbound, Level: level, LocalRole: lr, OwnAddr: hx(ownAddr),
						OwnRole: hx([]byte(ownRole)), OwnToken: hx([]byte("token-local")), OwnSig: hx(sign(w.localKey, ownRole+"token-local")),
						Registered: registered, RegistrySlowMs: d, Remote: remote, WriteFail: -1, Prims: []c04Verify{}}
					s := hx(remAddr)
					in.PeerAddr = &s
					sg, _ := hex.DecodeString(rq.Sig)
					in.Prims = append(in.Prims, c04Prim(sg, []byte("provider"+"tok")))
					if blockCells && level != "caller" {
						continue
					}
					out.emitAs("C04", in, c04Run(t, in, w, false))
				}
			}
		}
	}
	// the same remote handshakes again with the same service instance after its stake changed
	for _, level := range []string{"service", "caller"} {
		for _, inbound := range []bool{true, false} {
			for _, lr := range localRoles {
				for _, pr := range [][2]bool{{true, false}, {false, true}, {true, true}, {false, false}} {
					rq := reqFrame("provider", "tok", "valid")
					remote := []c04Frame{rq, echo(lr, "right")}
					if !inbound {
						remote = []c04Frame{echo(lr, "right"), rq}
					}
					ownRole := p2p.PeerType(lr).String()
					in := &c04In{Tag: "re-handshake-after-stake-change", Inbound: inbound, Level: level, LocalRole: lr, OwnAddr: hx(ownAddr),
						OwnRole: hx([]byte(ownRole)), OwnToken: hx([]byte("token-local")), OwnSig: hx(sign(w.localKey, ownRole+"token-local")),
						Registered: pr[1], Remote: remote, WriteFail: -1, Prims: []c04Verify{},
						Prior: []c04Frame{reqFrame("provider", "tok0", "valid"), echo(lr, "right")}, PriorRegistered: pr[0]}
					s := hx(remAddr)
					in.PeerAddr = &s
					sg, _ := hex.DecodeString(rq.Sig)
					in.Prims = append(in.Prims, c04Prim(sg, []byte("provider"+"tok")))
					if blockCells {
						continue
					}
					out.emitAs("C04", in, c04Run(t, in, w, false))
				}
			}
		}
	}
	if !blockCells {
		c04Overlap(t, out, rng, vcount(12, 120))
	}
	// an admitted peer opens a second handshake stream on its connection, and that one fails (or not)
	for _, lr := range localRoles {
		for _, role := range []string{"bidder", "provider"} {
			for _, sc := range []string{"valid", "foreign", "flipped", "short", "other-message"} {
				for _, registered := range []bool{true, false} {
					rq := reqFrame(role, "tok", sc)
					ownRole := p2p.PeerType(lr).String()
					in := &c04In{Tag: "second-handshake-on-admitted-connection", Inbound: true, Level: "caller", LocalRole: lr, OwnAddr: hx(ownAddr),
						OwnRole: hx([]byte(ownRole)), OwnToken: hx([]byte("token-local")), OwnSig: hx(sign(w.localKey, ownRole+"token-local")),
						Registered: registered, Remote: []c04Frame{rq, echo(lr, "right")}, WriteFail: -1, Prims: []c04Verify{},
						Prior: []c04Frame{reqFrame(role, "tok0", "valid"), echo(lr, "right")}, PriorAdmit: true}
					s := hx(remAddr)
					in.PeerAddr = &s
					sg, _ := hex.DecodeString(rq.Sig)
					in.Prims = append(in.Prims, c04Prim(sg, []byte(role+"tok")))
					out.emitAs("C04", in, c04Run(t, in, w, false))
				}
			}
		}
	}
	// truncations, wrong frame kinds, write failures, non-secp256k1 transport identity
	for _, level := range []string{"service", "caller"} {
		for _, inbound := range []bool{true, false} {
			rq := reqFrame("provider", "tok", "valid")
			ok := []c04Frame{rq, echo(1, "right")}
			if !inbound {
				ok = []c04Frame{echo(1, "right"), rq}
			}
			for cut := 0; cut <= 2; cut++ {
				emit("truncated", inbound, level, 1, false, true, ok[:cut], -1)
			}
			emit("swapped-kinds", inbound, level, 1, false, true, []c04Frame{ok[1], ok[0]}, -1)
			for wf := 0; wf < 2; wf++ {
				emit("write-fails", inbound, level, 1, false, true, ok, wf)
			}
			emit("ed25519-identity", inbound, level, 1, true, true, ok, -1)
			for _, sc := range []string{"foreign", "flipped", "short", "other-message"} {
				for _, role := range []string{"bidder", "provider"} {
					bad := []c04Frame{reqFrame(role, "tok", sc), echo(1, "right")}
					if !inbound {
						bad = []c04Frame{echo(1, "right"), reqFrame(role, "tok", sc)}
					}
					emit("ed25519-identity-bad-signature", inbound, level, 1, true, true, bad, -1)
				}
			}
			for _, b := range []string{"garbage", "errframe", "emptyframe", "eof"} {
				emit("bad-first-frame", inbound, level, 1, false, true, []c04Frame{{T: "bad", Bad: b}, ok[1]}, -1)
			}
		}
	}
}

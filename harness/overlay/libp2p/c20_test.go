package libp2p

// C20 correspondence driver: two real services on loopback.  The responder's key signer is a
// gate: its GetAddress (called by the responder's handshake handler after it has read the
// initiator's final message and before the peer is registered) blocks until the harness
// releases it.  The initiator connects and, as soon as Connect returned, opens streams while
// the gate is held for a chosen delay.  Also ungated runs (natural relative speeds).

import (
	"context"
	"crypto/ecdsa"
	"encoding/json"
	"log/slog"
	"math/big"
	"sync"
	"sync/atomic"
	"testing"
	"time"

	"github.com/ethereum/go-ethereum/common"
	"github.com/ethereum/go-ethereum/core/types"
	"github.com/ethereum/go-ethereum/crypto"
	"github.com/libp2p/go-libp2p/core/peer"
	"github.com/primevprotocol/mev-commit/pkg/p2p"
	"github.com/prometheus/client_golang/prometheus"
)

type c20In struct {
	Tag         string `json:"tag"`
	Gated       bool   `json:"gated"`
	DelayMs     int    `json:"delay_ms"`     // how long the responder is held before it registers the peer
	Streams     int    `json:"streams"`      // streams opened right after Connect returned
	FirstAfter  int    `json:"first_after_us"` // pause between Connect returning and the first stream
	ServerRole  int    `json:"server_role"`
	ClientRole  int    `json:"client_role"`
}
type c20Obs struct {
	ConnectOK    bool `json:"connect_ok"`
	StreamsOK    int  `json:"streams_ok"`
	HandlerCalls int  `json:"handler_calls"`
	IdentityOK   bool `json:"identity_ok"`
	UnknownPeer  int  `json:"unknown_peer_logs"`
	Panic        bool `json:"panic"`
}

type c20KS struct {
	key   *ecdsa.PrivateKey
	mu    sync.Mutex
	armed bool
	gate  chan struct{}
	hit   chan struct{}
}

func (k *c20KS) SignHash(h []byte) ([]byte, error) { return crypto.Sign(h, k.key) }
func (k *c20KS) SignTx(tx *types.Transaction, id *big.Int) (*types.Transaction, error) {
	return types.SignTx(tx, types.NewLondonSigner(id), k.key)
}
func (k *c20KS) GetAddress() common.Address {
	k.mu.Lock()
	armed, gate, hit := k.armed, k.gate, k.hit
	k.armed = false
	k.mu.Unlock()
	if armed {
		close(hit)
		<-gate
	}
	return crypto.PubkeyToAddress(k.key.PublicKey)
}
func (k *c20KS) GetPrivateKey() (*ecdsa.PrivateKey, error) { return k.key, nil }
func (k *c20KS) ZeroPrivateKey(*ecdsa.PrivateKey)          {}
func (k *c20KS) String() string                            { return "verif" }

type c20Log struct{ unknown atomic.Int64 }

func (l *c20Log) Enabled(context.Context, slog.Level) bool { return true }
func (l *c20Log) WithAttrs([]slog.Attr) slog.Handler      { return l }
func (l *c20Log) WithGroup(string) slog.Handler           { return l }
func (l *c20Log) Handle(_ context.Context, r slog.Record) error {
	if r.Message == "received stream from unknown peer" {
		l.unknown.Add(1)
	}
	return nil
}

type c20Registry struct{}

func (c20Registry) CheckProviderRegistered(context.Context, common.Address) bool { return true }

func c20Run(t *testing.T, in c20In, rng *vrng) (obs c20Obs) {
	defer func() {
		if r := recover(); r != nil {
			obs.Panic = true
		}
	}()
	mkKey := func() *ecdsa.PrivateKey {
		for {
			k, err := crypto.ToECDSA(rng.bytes(32))
			if err == nil {
				return k
			}
		}
	}
	sks := &c20KS{key: mkKey()}
	cks := &c20KS{key: mkKey()}
	slog_ := &c20Log{}
	server, err := New(&Options{KeySigner: sks, Secret: "verif", ListenPort: 0, ListenAddr: "127.0.0.1", PeerType: p2p.PeerType(in.ServerRole),
		Register: c20Registry{}, Logger: slog.New(slog_), MetricsReg: prometheus.NewRegistry()})
	if err != nil {
		t.Fatal(err)
	}
	defer server.Close()
	client, err := New(&Options{KeySigner: cks, Secret: "verif", ListenPort: 0, ListenAddr: "127.0.0.1", PeerType: p2p.PeerType(in.ClientRole),
		Register: c20Registry{}, Logger: slog.New(&c20Log{}), MetricsReg: prometheus.NewRegistry()})
	if err != nil {
		t.Fatal(err)
	}
	defer client.Close()
	clientAddr := crypto.PubkeyToAddress(cks.key.PublicKey)
	var calls atomic.Int64
	identityOK := atomic.Bool{}
	identityOK.Store(true)
	desc := p2p.StreamDesc{Name: "veriftest", Version: "1.0.0", Handler: func(_ context.Context, p p2p.Peer, _ p2p.Stream) error {
		calls.Add(1)
		if p.EthAddress != clientAddr || p.Type != p2p.PeerType(in.ClientRole) {
			identityOK.Store(false)
		}
		return nil
	}}
	server.AddStreamHandlers(desc)
	info, _ := (&peer.AddrInfo{ID: server.host.ID(), Addrs: server.host.Addrs()}).MarshalJSON()
	if in.Gated {
		sks.mu.Lock()
		sks.armed, sks.gate, sks.hit = true, make(chan struct{}), make(chan struct{})
		sks.mu.Unlock()
	}
	ctx, cancel := context.WithTimeout(context.Background(), 5*time.Second)
	defer cancel()
	sp, err := client.Connect(ctx, info)
	obs.ConnectOK = err == nil
	if err != nil {
		if in.Gated {
			close(sks.gate)
		}
		return obs
	}
	if in.FirstAfter > 0 {
		time.Sleep(time.Duration(in.FirstAfter) * time.Microsecond)
	}
	var wg sync.WaitGroup
	var okStreams atomic.Int64
	for i := 0; i < in.Streams; i++ {
		wg.Add(1)
		go func() {
			defer wg.Done()
			st, err := client.NewStream(ctx, sp, nil, desc)
			if err == nil {
				okStreams.Add(1)
				st.Close()
			}
		}()
	}
	if in.Gated {
		select {
		case <-sks.hit: // the responder is between "read the final message" and "register"
		case <-time.After(2 * time.Second):
		}
		time.Sleep(time.Duration(in.DelayMs) * time.Millisecond)
		close(sks.gate)
	}
	wg.Wait()
	time.Sleep(20 * time.Millisecond)
	obs.StreamsOK = int(okStreams.Load())
	obs.HandlerCalls = int(calls.Load())
	obs.IdentityOK = identityOK.Load()
	obs.UnknownPeer = int(slog_.unknown.Load())
	return obs
}

func TestVerifC20(t *testing.T) {
	out := newVout(t, "C20")
	defer out.close()
	rng := newVrng(vseed(), 20)
	for _, raw := range vcorpus() {
		var in c20In
		if json.Unmarshal(raw, &in) == nil {
			out.emit(in, c20Run(t, in, rng))
		}
	}
	if vonlyReplay() {
		return
	}
	roles := [][2]int{{1, 1}, {1, 2}, {2, 1}, {0, 2}}
	delays := []int{5, 40, 150}
	if vthorough() {
		delays = append(delays, 1, 10, 80, 400, 1200)
	}
	for i, d := range delays {
		r := roles[i%len(roles)]
		in := c20In{Tag: "gated", Gated: true, DelayMs: d, Streams: 1 + i%3, ServerRole: r[0], ClientRole: r[1]}
		out.emit(in, c20Run(t, in, rng))
	}
	for i := 0; i < vcount(6, 60); i++ {
		r := roles[rng.intn(len(roles))]
		in := c20In{Tag: "ungated", Streams: 1 + rng.intn(3), FirstAfter: []int{0, 0, 50, 500, 5000}[rng.intn(5)], ServerRole: r[0], ClientRole: r[1]}
		out.emit(in, c20Run(t, in, rng))
	}
}

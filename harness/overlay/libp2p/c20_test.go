package libp2p

// C20 correspondence driver: two real services on loopback.  The responder's key signer is a
// gate: its GetAddress (called by the responder's handshake handler after it has read the
// initiator's final message and before the peer is registered) blocks until the harness
// releases it.  The initiator connects and, as soon as Connect returned, opens streams while
// the gate is held for a chosen delay.  Also ungated runs (natural relative speeds).

import (
	"fmt"
	"bytes"
	"context"
	"crypto/ecdsa"
	"encoding/hex"
	"encoding/json"
	"log/slog"
	"math/big"
	"sync"
	"sync/atomic"
	"testing"
	"time"

	"github.com/ethereum/go-ethereum/common"
	"github.com/ethereum/go-ethereum/core/types"
	"github.com/ethereum/go-ethereum/crypto"
	"github.com/libp2p/go-libp2p/core/network"
	"github.com/libp2p/go-libp2p/core/peer"
	"github.com/libp2p/go-libp2p/core/protocol"
	mockkeysigner "github.com/primevprotocol/mev-commit/pkg/keysigner/mock"
	"github.com/primevprotocol/mev-commit/pkg/p2p/libp2p/internal/handshake"
	"github.com/primevprotocol/mev-commit/pkg/signer"
	"github.com/primevprotocol/mev-commit/pkg/p2p"
	"github.com/prometheus/client_golang/prometheus"
)

type c20In struct {
	Tag         string `json:"tag"`
	Gated       bool   `json:"gated"`
	DelayMs     int    `json:"delay_ms"`     // how long the responder is held before it registers the peer
	Streams     int    `json:"streams"`      // streams opened right after Connect returned
	FirstAfter  int    `json:"first_after_us"` // pause between Connect returning and the first stream
	ServerRole  int    `json:"server_role"`
	ClientRole  int    `json:"client_role"`
	// the transport connection already exists and was dialed by the responder (AutoNAT dial-back,
	// simultaneous connect, any earlier libp2p-level dial): Connect runs the handshake over it
	ResponderDials bool `json:"responder_dials,omitempty"`
	// the initiator is the second incarnation of its node (same key): the first one connected
	// before and goes away once the second one's Connect has succeeded
	Reincarnated bool `json:"reincarnated,omitempty"`
	// the responder is held not inside the handshake but between its return and the registration
	// of the peer (in-package: scripted stream whose Conn() is held at the registry call)
	HeldBeforeRegister bool `json:"held_before_register,omitempty"`
	// the responder serves this (newer) minor version of the protocol; the initiator speaks 1.0.0
	ServerMinor int `json:"server_minor,omitempty"`
	// the initiator connected before, disconnected cleanly (the responder saw it go), and connects again
	Reconnected bool `json:"reconnected,omitempty"`
	// the responder registered this protocol together with others in one AddStreamHandlers call
	// (this one first): 0 alone | n with n others after it
	RegisteredWith int `json:"registered_with,omitempty"`
	// an earlier connect attempt of the same initiator failed on the responder without anybody
	// being at fault (the responder's stake look-up was slow and the initiator gave up)
	EarlierFailed bool `json:"earlier_failed,omitempty"`
	// Reconnected only: the rest of the responder's node takes this long to digest the news that
	// the first incarnation went away (the notifier's Disconnected call), and the new connect
	// arrives while it does
	NotifierHoldMs int `json:"notifier_hold_ms,omitempty"`
	// HeldBeforeRegister only: while the first inbound handshake handler is held, a second one for the
	// same remote peer (the peer dialed twice; second connection) runs from its beginning to its end
	// and registers the peer; the stream arrives after that, the first handler is released last
	SecondHandler bool `json:"second_handler,omitempty"`
}

type c20Notifier struct {
	hold    time.Duration
	entered chan struct{}
}

func (n *c20Notifier) Connected(p2p.Peer) {}
func (n *c20Notifier) Disconnected(p2p.Peer) {
	select {
	case n.entered <- struct{}{}:
	default:
	}
	time.Sleep(n.hold)
}
type c20Obs struct {
	ConnectOK    bool `json:"connect_ok"`
	StreamsOK    int  `json:"streams_ok"`
	HandlerCalls int  `json:"handler_calls"`
	IdentityOK   bool `json:"identity_ok"`
	UnknownPeer  int  `json:"unknown_peer_logs"`
	Panic        bool `json:"panic"`
}

type c20KS struct {
	key   *ecdsa.PrivateKey
	mu    sync.Mutex
	armed bool
	gate  chan struct{}
	hit   chan struct{}
}

func (k *c20KS) SignHash(h []byte) ([]byte, error) { return crypto.Sign(h, k.key) }
func (k *c20KS) SignTx(tx *types.Transaction, id *big.Int) (*types.Transaction, error) {
	return types.SignTx(tx, types.NewLondonSigner(id), k.key)
}
func (k *c20KS) GetAddress() common.Address {
	k.mu.Lock()
	armed, gate, hit := k.armed, k.gate, k.hit
	k.armed = false
	k.mu.Unlock()
	if armed {
		close(hit)
		<-gate
	}
	return crypto.PubkeyToAddress(k.key.PublicKey)
}
func (k *c20KS) GetPrivateKey() (*ecdsa.PrivateKey, error) { return k.key, nil }
func (k *c20KS) ZeroPrivateKey(*ecdsa.PrivateKey)          {}
func (k *c20KS) String() string                            { return "verif" }

type c20Log struct{ unknown atomic.Int64 }

func (l *c20Log) Enabled(context.Context, slog.Level) bool { return true }
func (l *c20Log) WithAttrs([]slog.Attr) slog.Handler      { return l }
func (l *c20Log) WithGroup(string) slog.Handler           { return l }
func (l *c20Log) Handle(_ context.Context, r slog.Record) error {
	if r.Message == "received stream from unknown peer" {
		l.unknown.Add(1)
	}
	return nil
}

type c20Registry struct{ slowMs *atomic.Int64 }

func (r c20Registry) CheckProviderRegistered(ctx context.Context, _ common.Address) bool {
	if r.slowMs != nil {
		if d := r.slowMs.Load(); d > 0 {
			select {
			case <-time.After(time.Duration(d) * time.Millisecond):
			case <-ctx.Done():
			}
		}
	}
	return true
}

func c20Run(t *testing.T, in c20In, rng *vrng) (obs c20Obs) {
	defer func() {
		if r := recover(); r != nil {
			obs.Panic = true
		}
	}()
	mkKey := func() *ecdsa.PrivateKey {
		for {
			k, err := crypto.ToECDSA(rng.bytes(32))
			if err == nil {
				return k
			}
		}
	}
	sks := &c20KS{key: mkKey()}
	cks := &c20KS{key: mkKey()}
	slog_ := &c20Log{}
	regSlow := &atomic.Int64{}
	server, err := New(&Options{KeySigner: sks, Secret: "verif", ListenPort: 0, ListenAddr: "127.0.0.1", PeerType: p2p.PeerType(in.ServerRole),
		Register: c20Registry{regSlow}, Logger: slog.New(slog_), MetricsReg: prometheus.NewRegistry()})
	if err != nil {
		t.Fatal(err)
	}
	defer server.Close()
	client, err := New(&Options{KeySigner: cks, Secret: "verif", ListenPort: 0, ListenAddr: "127.0.0.1", PeerType: p2p.PeerType(in.ClientRole),
		Register: c20Registry{}, Logger: slog.New(&c20Log{}), MetricsReg: prometheus.NewRegistry()})
	if err != nil {
		t.Fatal(err)
	}
	defer client.Close()
	clientAddr := crypto.PubkeyToAddress(cks.key.PublicKey)
	var calls atomic.Int64
	identityOK := atomic.Bool{}
	identityOK.Store(true)
	desc := p2p.StreamDesc{Name: "veriftest", Version: "1.0.0", Handler: func(_ context.Context, p p2p.Peer, _ p2p.Stream) error {
		calls.Add(1)
		if p.EthAddress != clientAddr || p.Type != p2p.PeerType(in.ClientRole) {
			identityOK.Store(false)
		}
		return nil
	}}
	sdesc := desc
	sdesc.Version = fmt.Sprintf("1.%d.0", in.ServerMinor)
	all := []p2p.StreamDesc{sdesc}
	for k := 0; k < in.RegisteredWith; k++ {
		all = append(all, p2p.StreamDesc{Name: fmt.Sprintf("other%d", k), Version: fmt.Sprintf("%d.0.0", 2+k),
			Handler: func(context.Context, p2p.Peer, p2p.Stream) error { return nil }})
	}
	server.AddStreamHandlers(all...)
	var notif *c20Notifier
	if in.NotifierHoldMs > 0 {
		notif = &c20Notifier{hold: time.Duration(in.NotifierHoldMs) * time.Millisecond, entered: make(chan struct{}, 1)}
		server.SetNotifier(notif)
	}
	info, _ := (&peer.AddrInfo{ID: server.host.ID(), Addrs: server.host.Addrs()}).MarshalJSON()
	ctx, cancel := context.WithTimeout(context.Background(), 5*time.Second+time.Duration(in.DelayMs)*time.Millisecond)
	defer cancel()
	if in.ResponderDials {
		if err := server.host.Connect(ctx, peer.AddrInfo{ID: client.host.ID(), Addrs: client.host.Addrs()}); err != nil {
			t.Fatal(err)
		}
		for i := 0; i < 400 && client.host.Network().Connectedness(server.host.ID()) != network.Connected; i++ {
			time.Sleep(5 * time.Millisecond)
		}
	}
	if in.Reconnected {
		prev, err := New(&Options{KeySigner: cks, Secret: "verif", ListenPort: 0, ListenAddr: "127.0.0.1", PeerType: p2p.PeerType(in.ClientRole),
			Register: c20Registry{}, Logger: slog.New(&c20Log{}), MetricsReg: prometheus.NewRegistry()})
		if err != nil {
			t.Fatal(err)
		}
		if _, err := prev.Connect(ctx, info); err == nil {
			for i := 0; i < 200; i++ { // registered on the responder
				if _, ok := server.peers.getPeer(prev.host.ID()); ok {
					break
				}
				time.Sleep(5 * time.Millisecond)
			}
		}
		pid := prev.host.ID()
		prev.Close()
		if notif != nil {
			select {
			case <-notif.entered: // the news is being digested: connect now
			case <-time.After(3 * time.Second):
			}
		}
		for i := 0; i < 400 && notif == nil; i++ { // the responder saw the connection close and unregistered the peer
			if _, ok := server.peers.getPeer(pid); !ok && len(server.host.Network().ConnsToPeer(pid)) == 0 {
				break
			}
			time.Sleep(5 * time.Millisecond)
		}
		if notif == nil {
			time.Sleep(20 * time.Millisecond)
		}
	}
	if in.EarlierFailed {
		regSlow.Store(700)
		c1, cancel1 := context.WithTimeout(context.Background(), 250*time.Millisecond)
		_, err1 := client.Connect(c1, info)
		cancel1()
		regSlow.Store(0)
		if err1 == nil {
			t.Log("c20: the earlier attempt was meant to fail and did not")
		}
		time.Sleep(900 * time.Millisecond) // the responder's handler has given up by now
		for i := 0; i < 200 && len(server.host.Network().ConnsToPeer(client.host.ID())) > 0 && err1 != nil; i++ {
			time.Sleep(5 * time.Millisecond)
		}
	}
	var first *Service
	if in.Reincarnated {
		first, err = New(&Options{KeySigner: cks, Secret: "verif", ListenPort: 0, ListenAddr: "127.0.0.1", PeerType: p2p.PeerType(in.ClientRole),
			Register: c20Registry{}, Logger: slog.New(&c20Log{}), MetricsReg: prometheus.NewRegistry()})
		if err != nil {
			t.Fatal(err)
		}
		if _, err := first.Connect(ctx, info); err != nil {
			first.Close()
			first = nil
		}
	}
	if in.Gated {
		sks.mu.Lock()
		sks.armed, sks.gate, sks.hit = true, make(chan struct{}), make(chan struct{})
		sks.mu.Unlock()
	}
	sp, err := client.Connect(ctx, info)
	obs.ConnectOK = err == nil
	if err != nil {
		if in.Gated {
			close(sks.gate)
		}
		return obs
	}
	if first != nil {
		// the old incarnation goes away; wait until the responder has seen its connection close
		before := len(server.host.Network().ConnsToPeer(client.host.ID()))
		first.Close()
		for i := 0; i < 400 && len(server.host.Network().ConnsToPeer(client.host.ID())) >= before && before > 1; i++ {
			time.Sleep(5 * time.Millisecond)
		}
		time.Sleep(200 * time.Millisecond) // libp2p tells the responder's registry about the closed connection a little later
	}
	if in.FirstAfter > 0 {
		time.Sleep(time.Duration(in.FirstAfter) * time.Microsecond)
	}
	var wg sync.WaitGroup
	var okStreams atomic.Int64
	for i := 0; i < in.Streams; i++ {
		wg.Add(1)
		go func() {
			defer wg.Done()
			st, err := client.NewStream(ctx, sp, nil, desc)
			if err == nil {
				okStreams.Add(1)
				st.Close()
			}
		}()
	}
	if in.Gated {
		select {
		case <-sks.hit: // the responder is between "read the final message" and "register"
		case <-time.After(2 * time.Second):
		}
		time.Sleep(time.Duration(in.DelayMs) * time.Millisecond)
		close(sks.gate)
	}
	wg.Wait()
	time.Sleep(20 * time.Millisecond)
	obs.StreamsOK = int(okStreams.Load())
	obs.HandlerCalls = int(calls.Load())
	obs.IdentityOK = identityOK.Load()
	obs.UnknownPeer = int(slog_.unknown.Load())
	return obs
}

type c20Host struct {
	c04Host
	handler network.StreamHandler
}

func (h *c20Host) SetStreamHandlerMatch(_ protocol.ID, _ func(protocol.ID) bool, hd network.StreamHandler) {
	h.handler = hd
}

// c20HeldBeforeRegister: the real inbound handshake handler and the real stream wrapper on a
// Service with a scripted libp2p side.  The handshake completes; the handler is then held at the
// call that registers the peer while the initiator's first stream arrives.
func c20HeldBeforeRegister(t *testing.T, in c20In, rng *vrng) (obs c20Obs) {
	defer func() {
		if r := recover(); r != nil {
			obs.Panic = true
		}
	}()
	w := c04MkWorld(rng)
	ks := mockkeysigner.NewMockKeySigner(w.localKey, crypto.PubkeyToAddress(w.localKey.PublicKey))
	hs, err := handshake.New(ks, p2p.PeerType(in.ServerRole), "token-local", signer.New(), &c04Reg{answer: true}, GetEthAddressFromPeerID)
	if err != nil {
		t.Fatal(err)
	}
	lg := &c20Log{}
	fh := &c20Host{}
	svc := &Service{baseCtx: context.Background(), peerType: p2p.PeerType(in.ServerRole), host: fh, peers: newPeerRegistry(),
		logger: slog.New(lg), notifier: &c04Notifier{}, hsSvc: hs, metrics: newMetrics(prometheus.NewRegistry(), "verif"),
		blockMap: make(map[peer.ID]blockInfo)}
	svc.peers.setDisconnector(svc)
	remoteAddr := crypto.PubkeyToAddress(w.remoteKey.PublicKey)
	var calls atomic.Int64
	identityOK := atomic.Bool{}
	identityOK.Store(true)
	svc.AddStreamHandlers(p2p.StreamDesc{Name: "veriftest", Version: "1.0.0", Handler: func(_ context.Context, p p2p.Peer, _ p2p.Stream) error {
		calls.Add(1)
		if p.EthAddress != remoteAddr || p.Type != p2p.PeerType(in.ClientRole) {
			identityOK.Store(false)
		}
		return nil
	}})
	hx := hex.EncodeToString
	role := p2p.PeerType(in.ClientRole).String()
	sig, _ := crypto.Sign(crypto.Keccak256([]byte(role+"tok")), w.remoteKey)
	own := p2p.PeerType(in.ServerRole).String()
	wire := append(c04FrameBytes(c04Frame{T: "req", Role: hx([]byte(role)), Token: hx([]byte("tok")), Sig: hx(sig)}),
		c04FrameBytes(c04Frame{T: "resp", Observed: hx(crypto.PubkeyToAddress(w.localKey.PublicKey).Bytes()), Role: hx([]byte(own))})...)
	conn := &c04Conn{pid: w.remoteID}
	hit, gate := make(chan struct{}), make(chan struct{})
	n := 0
	ls := &c04Stream{rd: bytes.NewReader(wire), conn: conn, writeFail: -1}
	ls.onConn = func() {
		n++
		if n == 2 { // the registry call, after the handshake itself returned
			close(hit)
			<-gate
		}
	}
	hsDone := make(chan struct{})
	var gmu sync.Mutex
	guard := func() {
		if r := recover(); r != nil {
			gmu.Lock()
			obs.Panic = true
			gmu.Unlock()
		}
	}
	go func() { defer close(hsDone); defer guard(); svc.handleConnectReq(ls) }()
	select {
	case <-hit:
	case <-hsDone:
	case <-time.After(3 * time.Second):
	}
	obs.ConnectOK = true // the initiator has everything it waits for: its Connect returned
	if in.SecondHandler {
		ls2 := &c04Stream{rd: bytes.NewReader(wire), conn: &c04Conn{pid: w.remoteID}, writeFail: -1}
		h2 := make(chan struct{})
		go func() { defer close(h2); defer guard(); svc.handleConnectReq(ls2) }()
		select {
		case <-h2:
		case <-time.After(3 * time.Second):
		}
	}
	var hdr c13Buf20
	_ = newMetadataStream(&hdr).WriteHeader(context.Background(), p2p.Header{})
	st := &c04Stream{rd: bytes.NewReader(hdr.Bytes()), conn: conn, writeFail: -1}
	stDone := make(chan struct{})
	go func() { defer close(stDone); defer guard(); fh.handler(st) }()
	time.Sleep(time.Duration(in.DelayMs) * time.Millisecond)
	close(gate)
	for _, c := range []chan struct{}{hsDone, stDone} {
		select {
		case <-c:
		case <-time.After(3 * time.Second):
		}
	}
	if !st.reset && calls.Load() == 1 {
		obs.StreamsOK = 1
	}
	obs.HandlerCalls = int(calls.Load())
	obs.IdentityOK = identityOK.Load()
	obs.UnknownPeer = int(lg.unknown.Load())
	return obs
}

type c13Buf20 struct{ bytes.Buffer }

func (*c13Buf20) Close() error { return nil }
func (*c13Buf20) Reset() error { return nil }

func TestVerifC20(t *testing.T) {
	out := newVout(t, "C20")
	defer out.close()
	rng := newVrng(vseed(), 20)
	for _, raw := range vcorpus() {
		var in c20In
		if json.Unmarshal(raw, &in) == nil {
			if in.HeldBeforeRegister {
				out.emitGuarded(in, c20Obs{Panic: true}, func() any { return c20HeldBeforeRegister(t, in, rng) })
				continue
			}
			out.emitGuarded(in, c20Obs{Panic: true}, func() any { return c20Run(t, in, rng) })
		}
	}
	if vonlyReplay() {
		return
	}
	roles := [][2]int{{1, 1}, {1, 2}, {2, 1}, {0, 2}}
	delays := []int{5, 40, 150}
	if vthorough() {
		delays = append(delays, 1, 10, 80, 400, 1200)
	}
	for i, d := range delays {
		r := roles[i%len(roles)]
		in := c20In{Tag: "gated", Gated: true, DelayMs: d, Streams: 1 + i%3, ServerRole: r[0], ClientRole: r[1]}
		out.emitGuarded(in, c20Obs{Panic: true}, func() any { return c20Run(t, in, rng) })
	}
	// the initiator is a restarted node: its previous incarnation's connection closes afterwards
	for i, d := range []int{0, 40} {
		r := roles[(i+2)%len(roles)]
		in := c20In{Tag: "reincarnated", Gated: d > 0, DelayMs: d, Streams: 2, ServerRole: r[0], ClientRole: r[1], Reincarnated: true, FirstAfter: 0}
		out.emitGuarded(in, c20Obs{Panic: true}, func() any { return c20Run(t, in, rng) })
	}
	// the protocol was registered together with others in one call
	for i, n := range []int{1, 3} {
		r := roles[(i+2)%len(roles)]
		in := c20In{Tag: "registered-with-others", Streams: 2, ServerRole: r[0], ClientRole: r[1], RegisteredWith: n}
		out.emitGuarded(in, c20Obs{Panic: true}, func() any { return c20Run(t, in, rng) })
	}
	// the responder is one or more minor versions ahead of the initiator (rolling upgrade)
	for i, mv := range []int{1, 3} {
		r := roles[(i+1)%len(roles)]
		in := c20In{Tag: "responder-newer-minor", Gated: i == 1, DelayMs: 20, Streams: 2, ServerRole: r[0], ClientRole: r[1], ServerMinor: mv}
		out.emitGuarded(in, c20Obs{Panic: true}, func() any { return c20Run(t, in, rng) })
	}
	// the initiator comes back after a clean disconnect
	for i, d := range []int{0, 30} {
		r := roles[(i+3)%len(roles)]
		in := c20In{Tag: "reconnected", Gated: d > 0, DelayMs: d, Streams: 2, ServerRole: r[0], ClientRole: r[1], Reconnected: true}
		out.emitGuarded(in, c20Obs{Panic: true}, func() any { return c20Run(t, in, rng) })
	}
	// the responder is held between the end of its handshake and the registration of the peer
	for i, d := range []int{5, 60} {
		r := roles[i%len(roles)]
		in := c20In{Tag: "held-before-register", Gated: true, DelayMs: d, Streams: 1, ServerRole: r[0], ClientRole: r[1], HeldBeforeRegister: true}
		out.emitGuarded(in, c20Obs{Panic: true}, func() any { return c20HeldBeforeRegister(t, in, rng) })
	}
	// … and meanwhile a second handler for the same peer comes, registers the peer and goes
	for i, d := range []int{5, 60} {
		r := roles[(i+1)%len(roles)]
		in := c20In{Tag: "second-handler-registers-first", Gated: true, DelayMs: d, Streams: 1, ServerRole: r[0], ClientRole: r[1], HeldBeforeRegister: true, SecondHandler: true}
		out.emitGuarded(in, c20Obs{Panic: true}, func() any { return c20HeldBeforeRegister(t, in, rng) })
	}
	// the same with a transport connection the responder dialed
	for i, d := range delays {
		if i%2 == 1 && !vthorough() {
			continue
		}
		r := roles[(i+1)%len(roles)]
		in := c20In{Tag: "gated-responder-dialed", Gated: true, DelayMs: d, Streams: 1 + i%2, ServerRole: r[0], ClientRole: r[1], ResponderDials: true}
		out.emitGuarded(in, c20Obs{Panic: true}, func() any { return c20Run(t, in, rng) })
	}
	// past every real-time bound the package's source mentions (none on the unchanged tree)
	for _, ms := range c20Timers() {
		d := ms + 800
		if ms == 0 {
			d = 6000
		}
		if d > 25000 {
			continue
		}
		for _, rd := range []bool{false, true} {
			in := c20In{Tag: "gated-past-timer", Gated: true, DelayMs: d, Streams: 1, ServerRole: 1, ClientRole: 2, ResponderDials: rd}
			out.emitGuarded(in, c20Obs{Panic: true}, func() any { return c20Run(t, in, rng) })
		}
	}
	for _, h := range []int{100, 400} {
		for _, r := range [][2]int{{1, 2}, {2, 1}} {
			for _, after := range []int{0, (h + 150) * 1000} { // streams while the news is digested, and once it has been
				in := c20In{Tag: "reconnect-overtakes-disconnect-news", Streams: 2, ServerRole: r[0], ClientRole: r[1], Reconnected: true, NotifierHoldMs: h, FirstAfter: after}
				out.emitGuarded(in, c20Obs{Panic: true}, func() any { return c20Run(t, in, rng) })
			}
		}
	}
	for _, d := range []int{0, 300} {
		in := c20In{Tag: "earlier-attempt-failed", Gated: d > 0, DelayMs: d, Streams: 2, ServerRole: 2, ClientRole: 1, EarlierFailed: true}
		out.emitGuarded(in, c20Obs{Panic: true}, func() any { return c20Run(t, in, rng) })
	}
	for i := 0; i < vcount(6, 60); i++ {
		r := roles[rng.intn(len(roles))]
		in := c20In{Tag: "ungated", Streams: 1 + rng.intn(3), FirstAfter: []int{0, 0, 50, 500, 5000}[rng.intn(5)], ServerRole: r[0], ClientRole: r[1]}
		out.emitGuarded(in, c20Obs{Panic: true}, func() any { return c20Run(t, in, rng) })
	}
}

package libp2p

// C17 correspondence driver: the real blockPeer / isBlocked / BlockedPeers and the real gater
// hooks, on histories of placements (permanent, timed, re-blocking), time advances and
// queries.  Virtual time is moved by shifting `start` of the stored entries (same package);
// the generator keeps every query at least one second away from any expiry instant, so the
// few microseconds of real time that pass are immaterial.

import (
	"reflect"
	"sync"
	"encoding/json"
	"sort"
	"testing"
	"time"

	"github.com/ethereum/go-ethereum/common"
	"github.com/ethereum/go-ethereum/crypto"
	libp2pcrypto "github.com/libp2p/go-libp2p/core/crypto"
	"github.com/libp2p/go-libp2p/core/network"
	"github.com/libp2p/go-libp2p/core/peer"
	"github.com/primevprotocol/mev-commit/pkg/util"
)

type c17Op struct {
	T   string `json:"t"` // block | advance | query | dial | secured | list
	ID  int    `json:"id"`
	Dur int64  `json:"dur,omitempty"` // ns
	Dt  int64  `json:"dt,omitempty"`  // ns
	IDs []int  `json:"ids,omitempty"`
}
type c17In struct {
	Tag string  `json:"tag"`
	Ops []c17Op `json:"ops"`
}
type c17Ans struct {
	T   string `json:"t"` // none | blocked | allowed | listing | panic
	B   bool   `json:"b"`
	IDs []int  `json:"ids"`
}

var c17Peers []peer.ID
var c17Addr = map[common.Address]int{}

func c17Init(t *testing.T) { c17Grow(t, 6) }

// c17Block places a block through the Service's own blockPeer, whatever parameters it takes: the
// peer, the term, the reason — and "now" for any moment in time it wants to be told
func c17Block(s *Service, id peer.ID, d time.Duration, reason string) {
	f := reflect.ValueOf(s.blockPeer)
	var args []reflect.Value
	for i := 0; i < f.Type().NumIn(); i++ {
		switch f.Type().In(i) {
		case reflect.TypeOf(id):
			args = append(args, reflect.ValueOf(id))
		case reflect.TypeOf(d):
			args = append(args, reflect.ValueOf(d))
		case reflect.TypeOf(reason):
			args = append(args, reflect.ValueOf(reason))
		case reflect.TypeOf(time.Time{}):
			args = append(args, reflect.ValueOf(time.Now()))
		default:
			args = append(args, reflect.Zero(f.Type().In(i)))
		}
	}
	f.Call(args)
}

var c17Rng *vrng

// c17Grow makes sure at least n identities exist (deterministic sequence)
func c17Grow(t *testing.T, n int) {
	if c17Rng == nil {
		c17Rng = newVrng(12345, 17)
	}
	rng := c17Rng
	for len(c17Peers) < n {
		k, err := crypto.ToECDSA(rng.bytes(32))
		if err != nil {
			continue
		}
		lk, err := libp2pcrypto.UnmarshalSecp256k1PrivateKey(util.PadKeyTo32Bytes(k.D))
		if err != nil {
			t.Fatal(err)
		}
		id, err := peer.IDFromPrivateKey(lk)
		if err != nil {
			t.Fatal(err)
		}
		addr, err := GetEthAddressFromPeerID(id)
		if err != nil {
			t.Fatal(err)
		}
		c17Addr[addr] = len(c17Peers)
		c17Peers = append(c17Peers, id)
	}
}

// c17Race: a timed block has just lapsed; a look-up for that peer and a fresh placement (permanent
// or timed) happen at the same instant, many times over.  Whatever the order, the fresh block must
// be in force afterwards.
func c17Race(t *testing.T, rounds int) map[string]any {
	c17Init(t)
	s := &Service{blockMap: make(map[peer.ID]blockInfo), logger: util.NewTestLogger(discard{})}
	g := newGater(s.logger)
	g.setBlocker(s)
	id := c17Peers[0]
	lost := 0
	for i := 0; i < rounds; i++ {
		s.blockMu.Lock()
		s.blockMap[id] = blockInfo{reason: "stake", start: time.Now().Add(-time.Hour), duration: time.Minute}
		s.blockMu.Unlock()
		dur := time.Duration(0)
		if i%3 == 2 {
			dur = time.Hour
		}
		var wg sync.WaitGroup
		start := make(chan struct{})
		wg.Add(2)
		go func() { defer wg.Done(); <-start; _ = g.InterceptSecured(network.DirInbound, id, nil) }()
		go func() { defer wg.Done(); <-start; c17Block(s, id, dur, "verif") }()
		close(start)
		wg.Wait()
		if !s.isBlocked(id) {
			lost++
		}
		s.blockMu.Lock()
		delete(s.blockMap, id)
		s.blockMu.Unlock()
	}
	return map[string]any{"fresh_blocks_lost": lost, "rounds": rounds}
}

func c17Run(t *testing.T, in c17In) (res []c17Ans) {
	c17Init(t)
	s := &Service{blockMap: make(map[peer.ID]blockInfo), logger: util.NewTestLogger(discard{})}
	g := newGater(s.logger)
	g.setBlocker(s)
	res = []c17Ans{}
	defer func() {
		if r := recover(); r != nil {
			res = append(res, c17Ans{T: "panic"})
		}
	}()
	for _, op := range in.Ops {
		if op.ID >= len(c17Peers) {
			c17Grow(t, op.ID+1) // identities are a fixed sequence: id k is the same peer in every run
		}
		id := c17Peers[op.ID]
		switch op.T {
		case "block":
			c17Block(s, id, time.Duration(op.Dur), "verif")
			res = append(res, c17Ans{T: "none"})
		case "advance":
			s.blockMu.Lock()
			for k, v := range s.blockMap {
				v.start = v.start.Add(-time.Duration(op.Dt))
				s.blockMap[k] = v
			}
			s.blockMu.Unlock()
			res = append(res, c17Ans{T: "none"})
		case "query":
			res = append(res, c17Ans{T: "blocked", B: s.isBlocked(id)})
		case "dial":
			res = append(res, c17Ans{T: "allowed", B: g.InterceptPeerDial(id)})
		case "secured":
			res = append(res, c17Ans{T: "allowed", B: g.InterceptSecured(network.DirInbound, id, nil)})
		case "secured-out": // a dial that was already under way when the block landed completes
			res = append(res, c17Ans{T: "allowed", B: g.InterceptSecured(network.DirOutbound, id, nil)})
		case "list":
			ids := []int{}
			for _, bp := range s.BlockedPeers() {
				if i, ok := c17Addr[bp.Peer]; ok {
					for _, want := range op.IDs {
						if want == i {
							ids = append(ids, i)
						}
					}
				}
			}
			sort.Ints(ids)
			res = append(res, c17Ans{T: "listing", IDs: ids})
		}
	}
	return res
}

type discard struct{}

func (discard) Write(p []byte) (int, error) { return len(p), nil }

func TestVerifC17(t *testing.T) {
	out := newVout(t, "C17")
	defer out.close()
	for _, raw := range vcorpus() {
		var in c17In
		if json.Unmarshal(raw, &in) == nil {
			out.emit(in, map[string]any{"answers": c17Run(t, in)})
		}
	}
	if vonlyReplay() {
		return
	}
	const S = int64(time.Second)
	probe := func(ops []c17Op, id int) []c17Op {
		return append(ops, c17Op{T: "query", ID: id}, c17Op{T: "dial", ID: id}, c17Op{T: "secured", ID: id},
			c17Op{T: "secured-out", ID: id}, c17Op{T: "list", IDs: []int{0, 1, 2}})
	}
	// exhaustive: up to 3 placements on one id (durations 0/10s/30s, gaps 0/5s/20s), then probes
	// every 5 s at offsets that are never an expiry instant
	durs := []int64{0, 10 * S, 30 * S}
	gaps := []int64{0, 5 * S, 20 * S}
	var rec func(prefix []c17Op, depth int)
	emit := func(prefix []c17Op) {
		ops := append([]c17Op{}, prefix...)
		ops = probe(ops, 0)
		ops = append(ops, c17Op{T: "advance", Dt: 5 * S / 2})
		for k := 0; k < 14; k++ {
			ops = probe(ops, 0)
			ops = probe(ops, 1) // never blocked
			ops = append(ops, c17Op{T: "advance", Dt: 5 * S})
		}
		in := c17In{Tag: "exhaustive", Ops: ops}
		out.emit(in, map[string]any{"answers": c17Run(t, in)})
	}
	rec = func(prefix []c17Op, depth int) {
		if depth > 0 {
			emit(prefix)
		}
		if depth == 3 {
			return
		}
		for _, g := range gaps {
			for _, d := range durs {
				p := append([]c17Op{}, prefix...)
				if g > 0 {
					p = append(p, c17Op{T: "advance", Dt: g})
				}
				p = append(p, c17Op{T: "block", ID: 0, Dur: d})
				rec(p, depth+1)
			}
		}
	}
	rec(nil, 0)
	// random histories over several ids with the real durations (2 min, 5 min) too
	rng := newVrng(vseed(), 17)
	rdurs := []int64{0, 1 * S, 10 * S, 20 * S, 120 * S, 300 * S}
	for i := 0; i < vcount(300, 6000); i++ {
		var ops []c17Op
		var ends []int64
		now := int64(0)
		n := 4 + rng.intn(vcount(30, 80))
		for j := 0; j < n; j++ {
			switch r := rng.intn(100); {
			case r < 25:
				d := rdurs[rng.intn(len(rdurs))]
				id := rng.intn(3)
				ops = append(ops, c17Op{T: "block", ID: id, Dur: d})
				if d != 0 {
					ends = append(ends, now+d)
				}
			case r < 50:
				var dt int64
				if len(ends) > 0 && rng.chance(60) {
					e := ends[rng.intn(len(ends))]
					dt = e - now + []int64{-2 * S, 2 * S, -S, S, 30 * S}[rng.intn(5)]
				} else {
					dt = int64(rng.intn(400)) * S
				}
				if dt <= 0 {
					dt = 3 * S
				}
				for again := true; again; {
					again = false
					for _, e := range ends {
						if d := now + dt - e; d > -S && d < S {
							dt += 5 * S / 2
							again = true
						}
					}
				}
				now += dt
				ops = append(ops, c17Op{T: "advance", Dt: dt})
			case r < 70:
				ops = append(ops, c17Op{T: "query", ID: rng.intn(4)})
			case r < 80:
				ops = append(ops, c17Op{T: "dial", ID: rng.intn(4)})
			case r < 90:
				ops = append(ops, c17Op{T: []string{"secured", "secured-out"}[rng.intn(2)], ID: rng.intn(4)})
			default:
				ops = append(ops, c17Op{T: "list", IDs: []int{0, 1, 2, 3}})
			}
		}
		in := c17In{Tag: "random", Ops: ops}
		out.emit(in, map[string]any{"answers": c17Run(t, in)})
	}
	// a long block list: more entries than any bound the sources are likely to put on it; the
	// early permanent and timed blocks behave as if they were alone
	{
		n := 1400
		c17Grow(t, n)
		M := int64(60) * S
		ops := []c17Op{{T: "block", ID: 0, Dur: 0}, {T: "block", ID: 1, Dur: 2 * M}, {T: "advance", Dt: S}}
		for i := 6; i < n; i++ {
			ops = append(ops, c17Op{T: "block", ID: i, Dur: []int64{5 * M, 2 * M, 0}[i%3]})
			if i%350 == 0 {
				ops = probe(ops, 0)
				ops = probe(ops, 1)
				ops = probe(ops, 6)
			}
		}
		ops = probe(ops, 0)
		ops = probe(ops, 1)
		ops = probe(ops, 7)
		ops = append(ops, c17Op{T: "list", IDs: []int{0, 1, 6, 7, 8, 700, 1399}}, c17Op{T: "advance", Dt: 3 * M})
		ops = probe(ops, 0)
		ops = probe(ops, 1)
		ops = probe(ops, 6)
		ops = probe(ops, 8)
		ops = append(ops, c17Op{T: "list", IDs: []int{0, 1, 6, 7, 8, 700, 1399}})
		in := c17In{Tag: "long-block-list", Ops: ops}
		out.emit(in, map[string]any{"answers": c17Run(t, in)})
	}
	out.emit(c17In{Tag: "race-expiry-vs-block", Ops: []c17Op{}}, c17Race(t, vcount(30000, 300000)))
	// which block a failed handshake places: the real inbound handler and the real Connect, judged
	// by the handshake model (impostors, bad signatures, unstaked providers, in every combination)
	c04Generate(t, out, true)
}

package libp2p

// C14 correspondence driver: the real peerRegistry, fed with sequences of admissions,
// connection closures (tracked or not), lookups, stream registrations and removals, using fake
// network.Conn / network.Stream values (the registry only asks a connection for its remote
// peer id).  After every operation: lookups by id and by address over a probe set, the
// disconnect notifications so far, and which handler contexts are cancelled.

import (
	"bytes"
	"context"
	"encoding/json"
	"fmt"
	"io"
	"math/big"
	"sort"
	"sync"
	"sync/atomic"
	"testing"
	"time"

	"github.com/ethereum/go-ethereum/common"
	core "github.com/libp2p/go-libp2p/core"
	"github.com/libp2p/go-libp2p/core/host"
	"github.com/libp2p/go-libp2p/core/network"
	"github.com/libp2p/go-libp2p/core/protocol"
	"github.com/primevprotocol/mev-commit/pkg/p2p"
	"github.com/primevprotocol/mev-commit/pkg/util"
	"github.com/prometheus/client_golang/prometheus"
)

type c14Peer struct {
	Addr uint64 `json:"addr"`
	Role int    `json:"role"`
}
type c14Op struct {
	T    string   `json:"t"` // addPeer | disconnected | lookup | lookupAddr | addStream | removeStream
	C    int      `json:"c,omitempty"`
	Pid  int      `json:"pid"`
	Peer *c14Peer `json:"peer,omitempty"`
	Addr uint64   `json:"addr,omitempty"`
	S    int      `json:"s,omitempty"`
}
type c14In struct {
	Tag string  `json:"tag"`
	Ops []c14Op `json:"ops"`
}
type c14Snap struct {
	Out       string              `json:"out"` // none | exists:true | exists:false | peer:<addr>/<role> | peer:none | pid:<n> | pid:none
	ByID      map[string]string   `json:"by_id"`
	ByAddr    map[string]string   `json:"by_addr"`
	Notified  []c14Peer           `json:"notified"`
	Cancelled []int               `json:"cancelled"`
	Panic     bool                `json:"panic"`
}

type c14Conn struct {
	network.Conn
	pid core.PeerID
	id  int
}

func (c *c14Conn) RemotePeer() core.PeerID { return c.pid }

type c14Stream struct {
	network.Stream
	id int
}

// the swarm as the registry may ask it about: which transport connections (admitted or not) are
// open right now.  A connection of a case is open from its first mention (from the start of the
// case when that mention is its closure: it was never admitted) until it is closed.
type c14Net struct {
	network.Network
	open map[*c14Conn]bool
}

func (n *c14Net) Connectedness(p core.PeerID) network.Connectedness {
	for c := range n.open {
		if c.pid == p {
			return network.Connected
		}
	}
	return network.NotConnected
}
func (n *c14Net) ConnsToPeer(p core.PeerID) []network.Conn {
	var out []network.Conn
	for c := range n.open {
		if c.pid == p {
			out = append(out, c)
		}
	}
	return out
}
type c14Disc struct{ got []p2p.Peer }

func (d *c14Disc) disconnected(p p2p.Peer) { d.got = append(d.got, p) }

// a consumer of disconnect notifications that takes its time (the topology behind the registry)
type c14SlowDisc struct {
	hit  chan struct{}
	gate chan struct{}
	done chan struct{}
}

func (d *c14SlowDisc) Connected(p2p.Peer) {}
func (d *c14SlowDisc) Disconnected(p2p.Peer) {
	close(d.hit)
	<-d.gate
	close(d.done)
}

// c14NotifyOrder: the peer's last connection closes; while the disconnect notification is being
// delivered the peer is admitted again over a new connection.  Whoever listens must hear
// "disconnected" before that admission completes (else a stale "disconnected" follows "connected").
func c14NotifyOrder() map[string]any {
	res := map[string]any{"admission_completed_before_notification_delivered": false, "notified": false, "panic": false}
	defer func() {
		if r := recover(); r != nil {
			res["panic"] = true
		}
	}()
	r := newPeerRegistry()
	d := &c14SlowDisc{hit: make(chan struct{}), gate: make(chan struct{}), done: make(chan struct{})}
	// the registry's disconnector is the Service itself, which forwards to its notifier (the topology)
	r.setDisconnector(&Service{baseCtx: context.Background(), notifier: d, peers: r})
	pid := core.PeerID("peer-1")
	p := &p2p.Peer{EthAddress: c14Addr(1), Type: p2p.PeerTypeProvider}
	c1, c2 := &c14Conn{pid: pid, id: 1}, &c14Conn{pid: pid, id: 2}
	r.addPeer(c1, p)
	go r.Disconnected(&c14Net{open: map[*c14Conn]bool{}}, c1)
	select {
	case <-d.hit:
	case <-time.After(2 * time.Second):
		return res
	}
	res["notified"] = true
	added := make(chan struct{})
	go func() { r.addPeer(c2, p); close(added) }()
	select {
	case <-added:
		res["admission_completed_before_notification_delivered"] = true
	case <-time.After(30 * time.Millisecond):
	}
	close(d.gate)
	<-d.done
	select {
	case <-added:
	case <-time.After(2 * time.Second):
	}
	return res
}

type c14Host struct {
	host.Host
	handler network.StreamHandler
}

func (h *c14Host) SetStreamHandlerMatch(_ protocol.ID, _ func(protocol.ID) bool, hd network.StreamHandler) {
	h.handler = hd
}

// a stream whose bytes arrive only when the remote chooses (the header is "trickled")
type c14SlowStream struct {
	network.Stream
	conn  network.Conn
	gate  chan struct{}
	data  *bytes.Reader
	reset atomic.Bool
	wr    bytes.Buffer
	wmu   sync.Mutex
}

func (s *c14SlowStream) Read(p []byte) (int, error) {
	<-s.gate
	return s.data.Read(p)
}
func (s *c14SlowStream) Write(p []byte) (int, error) {
	s.wmu.Lock()
	defer s.wmu.Unlock()
	return s.wr.Write(p)
}
func (s *c14SlowStream) Close() error       { return nil }
func (s *c14SlowStream) Reset() error       { s.reset.Store(true); return nil }
func (s *c14SlowStream) Conn() network.Conn { return s.conn }

type c14Buf struct{ bytes.Buffer }

func (*c14Buf) Close() error { return nil }
func (*c14Buf) Reset() error { return nil }

// c14HeaderWindow: a stream of a registered peer is still in its header phase when the peer's last
// admitted connection closes; the header arrives afterwards.  The protocol handler must not run
// for the (now unregistered) peer.
func c14HeaderWindow() map[string]any {
	res := map[string]any{"handler_ran_for_unregistered_peer": false, "panic": false}
	var mu sync.Mutex
	defer func() {
		if r := recover(); r != nil {
			mu.Lock()
			res["panic"] = true
			mu.Unlock()
		}
	}()
	fh := &c14Host{}
	svc := &Service{baseCtx: context.Background(), host: fh, peers: newPeerRegistry(), logger: util.NewTestLogger(io.Discard),
		metrics: newMetrics(prometheus.NewRegistry(), "verif"), blockMap: make(map[core.PeerID]blockInfo)}
	svc.peers.setDisconnector(svc)
	pid := core.PeerID("peer-1")
	admitted := &c14Conn{pid: pid, id: 1}
	other := &c14Conn{pid: pid, id: 2} // a transport connection of the same identity that carried no handshake
	svc.peers.addPeer(admitted, &p2p.Peer{EthAddress: c14Addr(1), Type: p2p.PeerTypeBidder})
	ran := make(chan bool, 1)
	svc.AddStreamHandlers(p2p.StreamDesc{Name: "verif", Version: "1.0.0", Handler: func(context.Context, p2p.Peer, p2p.Stream) error {
		_, registered := svc.peers.getPeer(pid)
		ran <- registered
		return nil
	}})
	var hdr c14Buf
	_ = newMetadataStream(&hdr).WriteHeader(context.Background(), p2p.Header{})
	st := &c14SlowStream{conn: other, gate: make(chan struct{}), data: bytes.NewReader(hdr.Bytes())}
	done := make(chan struct{})
	go func() {
		defer close(done)
		defer func() {
			if r := recover(); r != nil {
				mu.Lock()
				res["panic"] = true
				mu.Unlock()
			}
		}()
		fh.handler(st)
	}()
	time.Sleep(10 * time.Millisecond) // the wrapper has looked the peer up and waits for the header
	svc.peers.Disconnected(&c14Net{open: map[*c14Conn]bool{}}, admitted)
	time.Sleep(5 * time.Millisecond)
	close(st.gate) // now the header arrives
	select {
	case <-done:
	case <-time.After(2 * time.Second):
	}
	select {
	case registered := <-ran:
		if !registered {
			mu.Lock()
			res["handler_ran_for_unregistered_peer"] = true
			mu.Unlock()
		}
	default:
	}
	mu.Lock()
	defer mu.Unlock()
	return map[string]any{"handler_ran_for_unregistered_peer": res["handler_ran_for_unregistered_peer"], "panic": res["panic"]}
}

type c14CountDisc struct{ n atomic.Int64 }

func (d *c14CountDisc) Connected(p2p.Peer)    {}
func (d *c14CountDisc) Disconnected(p2p.Peer) { d.n.Add(1) }

// c14NotifyAtShutdown: the node is shutting down (its base context is cancelled) and its peers'
// connections close one after the other: each removal still emits exactly one notification.
func c14NotifyAtShutdown() map[string]any {
	res := map[string]any{"notifications_for_two_removed_peers": 0, "panic": false}
	defer func() {
		if r := recover(); r != nil {
			res["panic"] = true
		}
	}()
	r := newPeerRegistry()
	d := &c14CountDisc{}
	ctx, cancel := context.WithCancel(context.Background())
	r.setDisconnector(&Service{baseCtx: ctx, notifier: d, peers: r})
	c1, c2 := &c14Conn{pid: core.PeerID("peer-1"), id: 1}, &c14Conn{pid: core.PeerID("peer-2"), id: 2}
	r.addPeer(c1, &p2p.Peer{EthAddress: c14Addr(1), Type: p2p.PeerTypeProvider})
	r.addPeer(c2, &p2p.Peer{EthAddress: c14Addr(2), Type: p2p.PeerTypeBidder})
	cancel()
	r.Disconnected(&c14Net{open: map[*c14Conn]bool{}}, c1)
	r.Disconnected(&c14Net{open: map[*c14Conn]bool{}}, c2)
	time.Sleep(5 * time.Millisecond)
	res["notifications_for_two_removed_peers"] = int(d.n.Load())
	return res
}

// c14StreamDuringHandshake: the peer's first stream arrives while its inbound handshake is still
// in flight; the handshake completes, the handler runs; then the peer's last connection closes.
// The running handler's context must be cancelled like any other.
func c14StreamDuringHandshake() map[string]any {
	res := map[string]any{"handler_ran": false, "handler_context_cancelled_at_disconnect": false, "panic": false}
	var mu sync.Mutex
	set := func(k string, v bool) { mu.Lock(); res[k] = v; mu.Unlock() }
	guard := func() {
		if r := recover(); r != nil {
			set("panic", true)
		}
	}
	defer guard()
	fh := &c14Host{}
	svc := &Service{baseCtx: context.Background(), host: fh, peers: newPeerRegistry(), logger: util.NewTestLogger(io.Discard),
		metrics: newMetrics(prometheus.NewRegistry(), "verif"), blockMap: make(map[core.PeerID]blockInfo)}
	svc.peers.setDisconnector(svc)
	pid := core.PeerID("peer-1")
	conn := &c14Conn{pid: pid, id: 1}
	started, cancelled := make(chan struct{}), make(chan struct{})
	svc.AddStreamHandlers(p2p.StreamDesc{Name: "verif", Version: "1.0.0", Handler: func(ctx context.Context, _ p2p.Peer, _ p2p.Stream) error {
		close(started)
		select {
		case <-ctx.Done():
			close(cancelled)
		case <-time.After(1500 * time.Millisecond):
		}
		return nil
	}})
	var hdr c14Buf
	_ = newMetadataStream(&hdr).WriteHeader(context.Background(), p2p.Header{})
	gate := make(chan struct{})
	close(gate)
	st := &c14SlowStream{conn: conn, gate: gate, data: bytes.NewReader(hdr.Bytes())}
	finish := svc.beginInboundHandshake(pid) // the inbound handshake handler is running
	done := make(chan struct{})
	go func() { defer close(done); defer guard(); fh.handler(st) }()
	time.Sleep(10 * time.Millisecond)
	svc.peers.addPeer(conn, &p2p.Peer{EthAddress: c14Addr(1), Type: p2p.PeerTypeBidder})
	finish()
	select {
	case <-started:
		set("handler_ran", true)
	case <-time.After(2 * time.Second):
		return res
	}
	svc.peers.Disconnected(&c14Net{open: map[*c14Conn]bool{}}, conn)
	select {
	case <-cancelled:
		set("handler_context_cancelled_at_disconnect", true)
	case <-time.After(500 * time.Millisecond):
	}
	select {
	case <-done:
	case <-time.After(2 * time.Second):
	}
	mu.Lock()
	defer mu.Unlock()
	return map[string]any{"handler_ran": res["handler_ran"], "handler_context_cancelled_at_disconnect": res["handler_context_cancelled_at_disconnect"], "panic": res["panic"]}
}

func c14Addr(a uint64) common.Address { return common.BigToAddress(new(big.Int).SetUint64(a)) }
func c14PeerStr(p *p2p.Peer) string {
	if p == nil {
		return "none"
	}
	return fmt.Sprintf("%d/%d", new(big.Int).SetBytes(p.EthAddress.Bytes()).Uint64(), int(p.Type))
}

var c14ProbePids = []int{1, 2, 3, 4}
var c14ProbeAddrs = []uint64{1, 2, 3, 4, 9}

func c14Run(in c14In) []c14Snap {
	r := newPeerRegistry()
	d := &c14Disc{}
	r.setDisconnector(d)
	conns := map[string]*c14Conn{}
	streams := map[int]*c14Stream{}
	ctxs := map[int]context.Context{}
	pidOf := func(n int) core.PeerID { return core.PeerID(fmt.Sprintf("peer-%d", n)) }
	connOf := func(c, pid int) *c14Conn {
		k := fmt.Sprintf("%d/%d", c, pid)
		if x, ok := conns[k]; ok {
			return x
		}
		x := &c14Conn{pid: pidOf(pid), id: c}
		conns[k] = x
		return x
	}
	streamOf := func(s int) *c14Stream {
		if x, ok := streams[s]; ok {
			return x
		}
		x := &c14Stream{id: s}
		streams[s] = x
		return x
	}
	net := &c14Net{open: map[*c14Conn]bool{}}
	seen := map[*c14Conn]bool{}
	for _, op := range in.Ops {
		if op.T == "addPeer" || op.T == "disconnected" {
			c := connOf(op.C, op.Pid)
			if !seen[c] && op.T == "disconnected" {
				net.open[c] = true
			}
			seen[c] = true
		}
	}
	var res []c14Snap
	for _, op := range in.Ops {
		snap := c14Snap{Out: "none", ByID: map[string]string{}, ByAddr: map[string]string{}, Notified: []c14Peer{}, Cancelled: []int{}}
		func() {
			defer func() {
				if rec := recover(); rec != nil {
					snap.Panic = true
				}
			}()
			switch op.T {
			case "addPeer":
				net.open[connOf(op.C, op.Pid)] = true
				ex := r.addPeer(connOf(op.C, op.Pid), &p2p.Peer{EthAddress: c14Addr(op.Peer.Addr), Type: p2p.PeerType(op.Peer.Role)})
				snap.Out = fmt.Sprintf("exists:%v", ex)
			case "disconnected":
				delete(net.open, connOf(op.C, op.Pid)) // the swarm has dropped it by the time it tells the registry
				r.Disconnected(net, connOf(op.C, op.Pid))
			case "lookup":
				p, ok := r.getPeer(pidOf(op.Pid))
				if !ok {
					p = nil
				}
				snap.Out = "peer:" + c14PeerStr(p)
			case "lookupAddr":
				id, ok := r.getPeerID(c14Addr(op.Addr))
				if ok {
					snap.Out = "pid:" + string(id)
				} else {
					snap.Out = "pid:none"
				}
			case "addStream":
				ctx, cancel := context.WithCancel(context.Background())
				if _, dup := ctxs[op.S]; !dup {
					ctxs[op.S] = ctx
				}
				r.addStream(pidOf(op.Pid), streamOf(op.S), cancel)
			case "removeStream":
				r.removeStream(pidOf(op.Pid), streamOf(op.S))
			}
		}()
		for _, pid := range c14ProbePids {
			p, ok := r.getPeer(pidOf(pid))
			if !ok {
				p = nil
			}
			snap.ByID[fmt.Sprint(pid)] = c14PeerStr(p)
			// isConnected must agree with getPeer
			if q, ok2 := r.isConnected(pidOf(pid)); ok2 != ok || (ok && q != p) {
				snap.ByID[fmt.Sprint(pid)] += "!isConnected-differs"
			}
		}
		for _, a := range c14ProbeAddrs {
			id, ok := r.getPeerID(c14Addr(a))
			if ok {
				snap.ByAddr[fmt.Sprint(a)] = string(id)
			} else {
				snap.ByAddr[fmt.Sprint(a)] = "none"
			}
		}
		for _, p := range d.got {
			snap.Notified = append(snap.Notified, c14Peer{new(big.Int).SetBytes(p.EthAddress.Bytes()).Uint64(), int(p.Type)})
		}
		for s, ctx := range ctxs {
			if ctx.Err() != nil {
				snap.Cancelled = append(snap.Cancelled, s)
			}
		}
		sort.Ints(snap.Cancelled)
		res = append(res, snap)
		if snap.Panic {
			break
		}
	}
	return res
}

// TestVerifC14Order: only the notification-order scenario (used as an extra harness by C05)
func TestVerifC14Order(t *testing.T) {
	out := newVout(t, "C14")
	defer out.close()
	for k := 0; k < 3; k++ {
		out.emit(c14In{Tag: "notify-order", Ops: []c14Op{}}, c14NotifyOrder())
	}
}

func TestVerifC14(t *testing.T) {
	out := newVout(t, "C14")
	defer out.close()
	for _, raw := range vcorpus() {
		var in c14In
		if json.Unmarshal(raw, &in) == nil {
			out.emit(in, map[string]any{"steps": c14Run(in)})
		}
	}
	if vonlyReplay() {
		return
	}
	// the address is a function of the peer id (what the handshake guarantees): addr = pid
	peerOf := func(pid int, role int) *c14Peer { return &c14Peer{uint64(pid), role} }
	// exhaustive short sequences over 2 peers x 2 connections x 2 streams
	alphabet := []c14Op{}
	for pid := 1; pid <= 2; pid++ {
		for c := 1; c <= 2; c++ {
			alphabet = append(alphabet, c14Op{T: "addPeer", C: c, Pid: pid, Peer: peerOf(pid, pid)})
			alphabet = append(alphabet, c14Op{T: "disconnected", C: c, Pid: pid})
		}
		alphabet = append(alphabet, c14Op{T: "disconnected", C: 7, Pid: pid}) // never admitted connection
		alphabet = append(alphabet, c14Op{T: "addStream", Pid: pid, S: 10 + pid})
		alphabet = append(alphabet, c14Op{T: "removeStream", Pid: pid, S: 10 + pid})
	}
	for k := 0; k < 3; k++ {
		out.emit(c14In{Tag: "notify-order", Ops: []c14Op{}}, c14NotifyOrder())
		out.emit(c14In{Tag: "header-window", Ops: []c14Op{}}, c14HeaderWindow())
		out.emit(c14In{Tag: "stream-during-handshake", Ops: []c14Op{}}, c14StreamDuringHandshake())
		out.emit(c14In{Tag: "notify-at-shutdown", Ops: []c14Op{}}, c14NotifyAtShutdown())
	}
	// handler life cycles the short enumeration cannot reach: a peer that was idle for a moment (its
	// only handler returned) gets new handlers, then its last connection closes
	P := func(pid int) c14Op { return c14Op{T: "addPeer", C: 1, Pid: pid, Peer: peerOf(pid, pid)} }
	A := func(pid, s int) c14Op { return c14Op{T: "addStream", Pid: pid, S: s} }
	R := func(pid, s int) c14Op { return c14Op{T: "removeStream", Pid: pid, S: s} }
	D := func(pid, c int) c14Op { return c14Op{T: "disconnected", C: c, Pid: pid} }
	L := func(pid int) c14Op { return c14Op{T: "lookup", Pid: pid} }
	for _, ops := range [][]c14Op{
		{P(1), A(1, 31), R(1, 31), L(1), A(1, 32), D(1, 1)},
		{P(1), A(1, 31), A(1, 32), R(1, 31), R(1, 32), A(1, 33), A(1, 34), R(1, 33), D(1, 1)},
		{P(1), P(2), A(1, 31), A(2, 41), R(1, 31), A(1, 32), D(2, 1), D(1, 1)},
		{P(1), A(1, 31), R(1, 31), D(1, 1), P(1), A(1, 32), D(1, 1)},
		{P(1), {T: "addPeer", C: 2, Pid: 1, Peer: peerOf(1, 1)}, A(1, 31), R(1, 31), D(1, 1), A(1, 32), D(1, 2)},
		{P(1), R(1, 99), A(1, 31), D(1, 1)},
	} {
		in := c14In{Tag: "handler-life-cycle", Ops: ops}
		out.emit(in, map[string]any{"steps": c14Run(in)})
	}
	depth := vcount(3, 4)
	var rec func(prefix []c14Op, d int)
	rec = func(prefix []c14Op, d int) {
		if d == depth {
			// a connection id is closed at most once and never reused afterwards
			// and a stream object is registered at most once (the wrapper registers the fresh
			// stream libp2p hands it; the registry is keyed by that object)
			closed := map[string]bool{}
			added := map[int]bool{}
			for _, op := range prefix {
				if op.T == "addStream" {
					if added[op.S] {
						return
					}
					added[op.S] = true
				}
				k := fmt.Sprintf("%d/%d", op.C, op.Pid)
				if op.T == "addPeer" && closed[k] {
					return
				}
				if op.T == "disconnected" {
					closed[k] = true
				}
			}
			in := c14In{Tag: "exhaustive", Ops: append([]c14Op{}, prefix...)}
			out.emit(in, map[string]any{"steps": c14Run(in)})
			return
		}
		for _, op := range alphabet {
			rec(append(prefix, op), d+1)
		}
	}
	rec(nil, 0)
	rng := newVrng(vseed(), 14)
	for i := 0; i < vcount(300, 5000); i++ {
		var ops []c14Op
		nextConn := 1
		open := map[int][]int{} // pid -> open admitted or pending connection ids
		n := 5 + rng.intn(vcount(40, 200))
		for j := 0; j < n; j++ {
			pid := 1 + rng.intn(3)
			switch r := rng.intn(100); {
			case r < 30:
				c := nextConn
				nextConn++
				open[pid] = append(open[pid], c)
				ops = append(ops, c14Op{T: "addPeer", C: c, Pid: pid, Peer: peerOf(pid, []int{0, 1, 2, -1}[rng.intn(4)])})
				if rng.chance(15) { // repeated admission over the same connection
					ops = append(ops, c14Op{T: "addPeer", C: c, Pid: pid, Peer: peerOf(pid, 1)})
				}
			case r < 55:
				if len(open[pid]) > 0 && rng.chance(80) {
					k := rng.intn(len(open[pid]))
					c := open[pid][k]
					open[pid] = append(open[pid][:k], open[pid][k+1:]...)
					ops = append(ops, c14Op{T: "disconnected", C: c, Pid: pid})
				} else {
					c := nextConn // a connection that never completed a handshake
					nextConn++
					ops = append(ops, c14Op{T: "disconnected", C: c, Pid: pid})
				}
			case r < 65:
				ops = append(ops, c14Op{T: "lookup", Pid: pid})
			case r < 72:
				ops = append(ops, c14Op{T: "lookupAddr", Pid: 0, Addr: uint64(1 + rng.intn(4))})
			case r < 90:
				// the wrapper: lookup, then (possibly after other events) addStream
				ops = append(ops, c14Op{T: "lookup", Pid: pid})
				if rng.chance(20) && len(open[pid]) > 0 {
					c := open[pid][0]
					open[pid] = open[pid][1:]
					ops = append(ops, c14Op{T: "disconnected", C: c, Pid: pid})
				}
				ops = append(ops, c14Op{T: "addStream", Pid: pid, S: 100 + j})
			default:
				ops = append(ops, c14Op{T: "removeStream", Pid: pid, S: 100 + rng.intn(j+1)})
			}
		}
		in := c14In{Tag: "random", Ops: ops}
		out.emit(in, map[string]any{"steps": c14Run(in)})
	}
}

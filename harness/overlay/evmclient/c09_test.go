package evmclient

// C09 correspondence driver: the real txmonitor + EvmClient over a scripted chain node, with the
// receipt batch call under a gate so that watch registrations, block arrivals, batch completion
// and Close can be forced into any order.  Two transports for the batch call: the function mock
// (per-element ethereum.NotFound, as the repository's tests do) and a real go-ethereum JSON-RPC
// server in-process (a missing receipt is the JSON value null).  The harness logs the realised
// atomic steps; the Lean model replays them.  A case that kills the process leaves its
// "crashed" marker line behind (written and flushed before the case runs).

import (
	"context"
	"encoding/json"
	"errors"
	"fmt"
	"os"
	"math/big"
	"reflect"
	"sort"
	"strings"
	"sync"
	"testing"
	"time"

	"github.com/ethereum/go-ethereum"
	"github.com/ethereum/go-ethereum/common"
	"github.com/ethereum/go-ethereum/core/types"
	"github.com/ethereum/go-ethereum/ethclient"
	"github.com/ethereum/go-ethereum/rpc"
)

type c09Step struct {
	T     string `json:"t"` // send | watch | reply | beginShutdown | drain | observe
	Nonce uint64 `json:"nonce"`
	Tx    int    `json:"tx"` // index of the transaction (stands for its hash)
	C     uint64 `json:"c,omitempty"`
	Ans   string `json:"ans,omitempty"` // receipt-ok | receipt-failed | notfound | othererr
	W     int    `json:"w,omitempty"`
}
type c09In struct {
	Tag       string    `json:"tag"`
	Transport string    `json:"transport"` // mock | rpc
	Steps     []c09Step `json:"steps"`     // realised atomic steps
	Plan      []string  `json:"plan"`      // what the harness set out to do (for replay/readability)
}
type c09Waiter struct {
	ID      int    `json:"id"`
	Tx      int    `json:"tx"`
	Outcome string `json:"outcome"` // receipt:<tx>:<status> | cancelled | closed | refused | error | none
}
type c09Obs struct {
	Waiters  []c09Waiter `json:"waiters"` // external waiters (WaitForReceipt callers)
	Pending  []int       `json:"pending"` // PendingTxns() at quiescence, as tx indices
	Unknown  int         `json:"unknown_pending"`
	CloseErr bool        `json:"close_err"`
	Crashed  bool        `json:"crashed"`
}

type c09API struct {
	h *c09Harness
}

func (a *c09API) GetTransactionReceipt(ctx context.Context, hash common.Hash) (map[string]interface{}, error) {
	return a.h.rpcAnswer(ctx, hash)
}

type c09Harness struct {
	t         *testing.T
	stub      *vStub
	client    *EvmClient
	transport string
	mu        sync.Mutex
	hashes    []common.Hash
	nonces    []uint64
	idx       map[common.Hash]int
	armed     int // batch calls the harness expects in the current round
	roundConf uint64
	errArmed  bool
	errHit    chan struct{}
	errRel    chan struct{}
	entered   chan []common.Hash
	release   chan map[common.Hash]string
	held      map[common.Hash]string // answers of the round being released (rpc transport)
	rpcGate   chan struct{}
	rpcClient *rpc.Client
	eth       *ethclient.Client
	chain     map[common.Hash]string // what the chain node says about each hash *now* (for the typed re-query)
}

func (h *c09Harness) receiptFor(hash common.Hash, status uint64) *types.Receipt {
	return &types.Receipt{Type: 2, Status: status, CumulativeGasUsed: 21000, TxHash: hash, GasUsed: 21000,
		BlockHash: common.HexToHash("0xb10c"), BlockNumber: big.NewInt(7), Logs: []*types.Log{}}
}

func (h *c09Harness) rpcAnswer(ctx context.Context, hash common.Hash) (map[string]interface{}, error) {
	h.mu.Lock()
	gate := h.rpcGate
	h.mu.Unlock()
	if gate != nil {
		select {
		case <-gate:
		case <-time.After(5 * time.Second):
		}
	}
	h.mu.Lock()
	ans, ok := h.held[hash]
	if !ok {
		ans = h.chain[hash]
	}
	h.mu.Unlock()
	switch ans {
	case "receipt-ok", "receipt-failed":
		st := uint64(1)
		if ans == "receipt-failed" {
			st = 0
		}
		b, _ := h.receiptFor(hash, st).MarshalJSON()
		var m map[string]interface{}
		_ = json.Unmarshal(b, &m)
		return m, nil
	case "othererr":
		return nil, errors.New("node is syncing")
	}
	return nil, nil // JSON null: no receipt
}

// the batch call of the function-mock transport
func (h *c09Harness) mockBatch(ctx context.Context, elems []rpc.BatchElem) error {
	h.mu.Lock()
	// a check started from an older block update (ticker) than the round being forced would query
	// rows the round's confirmed nonce excludes: not this round's batch
	stale := false
	for _, e := range elems {
		if j, ok := h.idx[e.Args[0].(common.Hash)]; ok && j < len(h.nonces) && h.nonces[j] >= h.roundConf {
			stale = true
		}
	}
	armed := h.armed > 0 && !stale
	if armed {
		h.armed--
	}
	h.mu.Unlock()
	if !armed {
		return errors.New("unsolicited round: node busy")
	}
	var hs []common.Hash
	for _, e := range elems {
		hs = append(hs, e.Args[0].(common.Hash))
	}
	h.entered <- hs
	answers := <-h.release
	for i := range elems {
		switch answers[hs[i]] {
		case "receipt-ok":
			*(elems[i].Result.(*types.Receipt)) = *h.receiptFor(hs[i], 1)
		case "receipt-failed":
			*(elems[i].Result.(*types.Receipt)) = *h.receiptFor(hs[i], 0)
		case "notfound":
			elems[i].Error = ethereum.NotFound
		default:
			elems[i].Error = errors.New("node is syncing")
		}
	}
	return nil
}

type c09RPCBatcher struct{ h *c09Harness }

func (b c09RPCBatcher) BatchCallContext(ctx context.Context, elems []rpc.BatchElem) error {
	h := b.h
	h.mu.Lock()
	// a check started from an older block update (ticker) than the round being forced would query
	// rows the round's confirmed nonce excludes: not this round's batch
	stale := false
	for _, e := range elems {
		if j, ok := h.idx[e.Args[0].(common.Hash)]; ok && j < len(h.nonces) && h.nonces[j] >= h.roundConf {
			stale = true
		}
	}
	armed := h.armed > 0 && !stale
	if armed {
		h.armed--
	}
	h.mu.Unlock()
	if !armed {
		return errors.New("unsolicited round: node busy")
	}
	var hs []common.Hash
	for _, e := range elems {
		hs = append(hs, e.Args[0].(common.Hash))
	}
	h.entered <- hs
	answers := <-h.release
	h.mu.Lock()
	h.held = answers
	h.mu.Unlock()
	// the real JSON-RPC round trip (context of the monitor is ignored on purpose: the reply is
	// already "in flight")
	return h.rpcClient.BatchCallContext(context.Background(), elems)
}

func newC09Harness(t *testing.T, transport string, rng *vrng) *c09Harness {
	h := &c09Harness{t: t, transport: transport, idx: map[common.Hash]int{}, entered: make(chan []common.Hash, 1),
		release: make(chan map[common.Hash]string, 1), chain: map[common.Hash]string{}}
	h.stub = newVStub()
	h.stub.monitorLive = true
	h.stub.pending = 1
	h.stub.batch = h.mockBatch
	if transport == "rpc" {
		srv := rpc.NewServer()
		if err := srv.RegisterName("eth", &c09API{h}); err != nil {
			t.Fatal(err)
		}
		h.rpcClient = rpc.DialInProc(srv)
		h.eth = ethclient.NewClient(h.rpcClient)
	}
	return h
}

// the stub's typed receipt query (used by the monitor to tell "no receipt" from other failures)
func (h *c09Harness) typedReceipt(ctx context.Context, hash common.Hash) (*types.Receipt, error) {
	if h.transport == "rpc" {
		return h.eth.TransactionReceipt(ctx, hash)
	}
	h.mu.Lock()
	ans, ok := h.held[hash]
	if !ok {
		ans = h.chain[hash]
	}
	h.mu.Unlock()
	switch ans {
	case "receipt-ok":
		return h.receiptFor(hash, 1), nil
	case "receipt-failed":
		return h.receiptFor(hash, 0), nil
	case "othererr":
		return nil, errors.New("node is syncing")
	}
	return nil, ethereum.NotFound
}

type c09EVM struct {
	*vStub
	h *c09Harness
}

func (e c09EVM) Batcher() Batcher {
	if e.h.transport == "rpc" {
		return c09RPCBatcher{e.h}
	}
	return vBatcher{e.vStub}
}
func (e c09EVM) TransactionReceipt(ctx context.Context, hash common.Hash) (*types.Receipt, error) {
	return e.h.typedReceipt(ctx, hash)
}

// the entry's `cancelled` flag, read by name so that the harness still builds on a tree whose
// entry type has no such field (then: never flagged)
func c09Flagged(d txnDetails) bool {
	f := reflect.ValueOf(d).FieldByName("cancelled")
	return f.IsValid() && f.Kind() == reflect.Bool && f.Bool()
}

// the monitor's base context with a gate in Err(): the value is read first, then the caller is
// held — the caller acts on what it saw before shutdown began, however long it takes to act.
// (With the check made under the monitor's mutex this merely delays the drain; made outside, the
// drain overtakes the registration.)
type c09Ctx struct {
	context.Context
	h *c09Harness
}

func (c c09Ctx) Err() error {
	e := c.Context.Err()
	c.h.mu.Lock()
	armed, hit, rel := c.h.errArmed, c.h.errHit, c.h.errRel
	c.h.errArmed = false
	c.h.mu.Unlock()
	if armed {
		close(hit)
		select {
		case <-rel:
		case <-time.After(2 * time.Second):
		}
	}
	return e
}

type c09Ext struct {
	id        int
	tx        int
	done      chan string
	stop      context.CancelFunc
	abandoned bool
}

func c09Exec(t *testing.T, rng *vrng, transport string, plan []string) (c09In, c09Obs) {
	in := c09In{Tag: "plan", Transport: transport, Plan: plan, Steps: []c09Step{}}
	obs := c09Obs{Waiters: []c09Waiter{}, Pending: []int{}}
	h := newC09Harness(t, transport, rng)
	ks := newVKeySigner(rng)
	c, err := New(ks, c09EVM{h.stub, h}, vQuiet())
	if err != nil {
		t.Fatal(err)
	}
	h.client = c
	mon := c.monitor
	if !vRace {
		// an unsynchronised write: both monitor loops are parked in their selects by now and read
		// the field again only after a channel operation that follows this write
		time.Sleep(2 * time.Millisecond)
		mon.baseCtx = c09Ctx{mon.baseCtx, h}
	}
	nextID := 0
	var exts []*c09Ext
	internalOf := map[int]int{} // tx -> internal waiter id
	internalDone := map[int]bool{} // internal waiter already has its outcome
	observed := map[int]bool{}
	replaced := map[int]bool{}
	closed := false
	rowLen := func(tx int) int {
		mon.mtx.Lock()
		defer mon.mtx.Unlock()
		return len(mon.waitMap[h.nonces[tx]][h.hashes[tx]])
	}
	waitFor := func(cond func() bool) bool {
		for i := 0; i < 4000; i++ {
			if cond() {
				return true
			}
			time.Sleep(250 * time.Microsecond)
		}
		return false
	}
	to := common.HexToAddress("0xfeed")
	doSend := func() {
		if closed {
			return
		}
		h.stub.mu.Lock()
		h.stub.pendingErr, h.stub.fault = false, ""
		h.stub.mu.Unlock()
		hash, err := c.Send(context.Background(), &TxRequest{To: &to, CallData: []byte{byte(len(h.hashes))}, Value: big.NewInt(0)})
		if err != nil {
			return
		}
		tx := len(h.hashes)
		h.stub.mu.Lock()
		n := h.stub.accepted[len(h.stub.accepted)-1]
		h.stub.mu.Unlock()
		h.mu.Lock()
		h.hashes = append(h.hashes, hash)
		h.nonces = append(h.nonces, n)
		h.idx[hash] = tx
		h.mu.Unlock()
		// the client's own waiter registers asynchronously: wait for it
		waitFor(func() bool { return rowLen(tx) >= 1 })
		in.Steps = append(in.Steps, c09Step{T: "send", Nonce: n, Tx: tx})
		internalOf[tx] = nextID
		nextID++
	}
	var closeRes chan bool
	var startClose func() chan bool
	var awaitDrain func()
	doWatch := func(tx int, racingClose bool) {
		if tx >= len(h.hashes) {
			return
		}
		racingClose = racingClose && !vRace
		if racingClose {
			h.mu.Lock()
			h.errArmed, h.errHit, h.errRel = true, make(chan struct{}), make(chan struct{})
			h.mu.Unlock()
		}
		before := rowLen(tx)
		ctx, cancel := context.WithCancel(context.Background())
		e := &c09Ext{id: -1, tx: tx, done: make(chan string, 1), stop: cancel}
		go func() {
			r, err := c.WaitForReceipt(ctx, h.hashes[tx])
			switch {
			case err == nil:
				h.mu.Lock()
				j, ok := h.idx[r.TxHash]
				h.mu.Unlock()
				if !ok {
					j = -1
				}
				e.done <- fmt.Sprintf("receipt:%d:%d", j, r.Status)
			case errors.Is(err, ErrTxnCancelled):
				e.done <- "cancelled"
			case errors.Is(err, ErrMonitorClosed):
				e.done <- "closed"
			case errors.Is(err, context.Canceled):
				e.done <- "none"
			case strings.Contains(err.Error(), "tx not found"):
				e.done <- "unknown-tx"
			default:
				e.done <- "error"
			}
		}()
		if racingClose {
			// the watcher has looked at the shutdown flag and is held; Close runs; the watcher resumes
			hit := false
			select {
			case <-h.errHit:
				hit = true
			case <-time.After(300 * time.Millisecond):
				h.mu.Lock()
				h.errArmed = false
				h.mu.Unlock()
			}
			if hit {
				closeRes = startClose()
				select {
				case <-mon.waitDone:
				case <-time.After(20 * time.Millisecond):
				}
				close(h.errRel)
				awaitDrain()
				in.Steps = append(in.Steps, c09Step{T: "watch", Nonce: h.nonces[tx], Tx: tx},
					c09Step{T: "beginShutdown"}, c09Step{T: "drain"})
				e.id = nextID
				nextID++
				exts = append(exts, e)
				return
			}
		}
		// registered (row grew), or answered at once (done): refused after shutdown, entry already
		// flagged cancelled, or the client no longer tracks the hash
		registered := false
		waitFor(func() bool {
			if rowLen(tx) > before {
				registered = true
				return true
			}
			select {
			case v := <-e.done:
				e.done <- v
				return true
			default:
				return false
			}
		})
		in.Steps = append(in.Steps, c09Step{T: "watch", Nonce: h.nonces[tx], Tx: tx})
		switch {
		case registered:
			e.id = nextID
			nextID++
		case closed:
			e.id = -2 // refused after shutdown: no id allocated in the model
		default:
			e.id = -3 // answered from the client's own table: no waiter
		}
		exts = append(exts, e)
	}
	// one check round: block arrival with confirmed nonce c, batch held, optional actions while it
	// is in flight, then the answers
	// rows a check with confirmed nonce conf will query
	rowsBelow := func(conf uint64) int {
		mon.mtx.Lock()
		defer mon.mtx.Unlock()
		n := 0
		for nonce, m := range mon.waitMap {
			if nonce < conf {
				n += len(m)
			}
		}
		return n
	}
	byTicker := false
	startRound := func(conf uint64) ([]common.Hash, int) {
		nb := (rowsBelow(conf) + batchSize - 1) / batchSize
		if nb == 0 {
			nb = 1
		}
		h.stub.mu.Lock()
		h.stub.confirmed = conf
		h.stub.mu.Unlock()
		h.mu.Lock()
		h.armed, h.roundConf = nb, conf
		h.mu.Unlock()
		wait := 300 * time.Millisecond
		if byTicker {
			// nobody new starts waiting: the next blocks alone (the loop's own ticker) must make
			// the monitor ask about what is still unresolved
			wait = 5 * time.Second
		} else {
			select {
			case mon.newTxAdded <- struct{}{}:
			case <-time.After(time.Second):
			}
		}
		select {
		case hs := <-h.entered:
			return hs, nb
		case <-time.After(wait):
			h.mu.Lock()
			h.armed = 0
			h.mu.Unlock()
			return nil, 0
		}
	}
	var midDelivery func() // run once, right after the next batch's answers were released
	finishBatch := func(conf uint64, hs []common.Hash, classes func(tx int) string) {
		answers := map[common.Hash]string{}
		for _, hash := range hs {
			tx := h.idx[hash]
			a := classes(tx)
			answers[hash] = a
			h.mu.Lock()
			h.chain[hash] = a
			h.mu.Unlock()
		}
		h.release <- answers
		// realised replies, in batch order
		for _, hash := range hs {
			tx := h.idx[hash]
			in.Steps = append(in.Steps, c09Step{T: "reply", C: conf, Nonce: h.nonces[tx], Tx: tx, Ans: answers[hash]})
		}
		ranMid := false
		if midDelivery != nil {
			f := midDelivery
			midDelivery = nil
			f()
			ranMid = true // the hook waited for the hand-out itself; a row may legitimately exist again
		}
		// wait until the rows that must disappear did (give up after the first that does not)
		stuck := false
		for _, hash := range hs {
			tx := h.idx[hash]
			if a := answers[hash]; a != "othererr" && !stuck && !ranMid {
				stuck = !waitFor(func() bool { return rowLen(tx) == 0 })
			}
		}
		// the client's own waiter consumes its outcome asynchronously: wait until it did, and log
		// the realised observe step (mined: entry deleted; replaced: entry flagged)
		for _, hash := range hs {
			tx := h.idx[hash]
			a := answers[hash]
			if a == "othererr" || internalDone[tx] {
				continue
			}
			internalDone[tx] = true
			if stuck {
				continue
			}
			hh := hash
			ok := waitFor(func() bool {
				c.mtx.Lock()
				defer c.mtx.Unlock()
				d, present := c.sentTxs[hh]
				if a == "notfound" {
					return !present || c09Flagged(d)
				}
				return !present
			})
			if ok {
				observed[tx] = true
				in.Steps = append(in.Steps, c09Step{T: "observe", W: internalOf[tx]})
			} else {
				stuck = true
			}
		}
		time.Sleep(2 * time.Millisecond)
		h.mu.Lock()
		h.held = nil
		h.mu.Unlock()
	}
	// the remaining batches of a round whose first batch is hs
	finishRound := func(conf uint64, hs []common.Hash, nb int, classes func(tx int) string) {
		finishBatch(conf, hs, classes)
		for b := 1; b < nb; b++ {
			select {
			case more := <-h.entered:
				finishBatch(conf, more, classes)
			case <-time.After(500 * time.Millisecond):
				b = nb
			}
		}
		h.mu.Lock()
		h.armed = 0
		h.mu.Unlock()
	}
	startClose = func() chan bool {
		res := make(chan bool, 1)
		closed = true
		for tx := range internalOf {
			internalDone[tx] = true // the drain answers every remaining waiter "closed"
		}
		go func() { res <- c.Close() != nil }()
		return res
	}
	awaitDrain = func() {
		// the watch loop's deferred drain runs at once; wait until the waiters saw it
		waitFor(func() bool {
			select {
			case <-mon.waitDone:
				return true
			default:
				return false
			}
		})
		time.Sleep(time.Millisecond)
	}
	doClose := func() chan bool {
		res := startClose()
		in.Steps = append(in.Steps, c09Step{T: "beginShutdown"}, c09Step{T: "drain"})
		awaitDrain()
		return res
	}
	// a transaction the client still tracks as pending (WaitForReceipt will reach the monitor)
	stillPending := func() int {
		c.mtx.Lock()
		defer c.mtx.Unlock()
		var cand []int
		for tx, hash := range h.hashes {
			if d, ok := c.sentTxs[hash]; ok && !c09Flagged(d) {
				cand = append(cand, tx)
			}
		}
		if len(cand) == 0 {
			return -1
		}
		return cand[rng.intn(len(cand))]
	}
	classOf := func(tx int) string {
		return []string{"receipt-ok", "receipt-ok", "receipt-failed", "notfound", "notfound", "othererr"}[rng.intn(6)]
	}
	for _, p := range plan {
		switch {
		case p == "send":
			doSend()
		case p == "bigsend":
			// more rows than one receipt batch holds
			for i, n := 0, batchSize+2+rng.intn(12); i < n; i++ {
				doSend()
			}
		case p == "round-all":
			if closed || len(h.hashes) == 0 {
				continue
			}
			conf := h.nonces[len(h.nonces)-1] + 1
			if hs, nb := startRound(conf); hs != nil {
				finishRound(conf, hs, nb, classOf)
			}
		case p == "round-all-errors" || p == "round-by-ticker":
			// first every receipt query of a round fails; then — nothing else changing, the
			// confirmed nonce included — further blocks arrive
			if closed || len(h.hashes) == 0 {
				continue
			}
			conf := h.nonces[len(h.nonces)-1] + 1
			if p == "round-all-errors" {
				if hs, nb := startRound(conf); hs != nil {
					finishRound(conf, hs, nb, func(int) string { return "othererr" })
				}
				continue
			}
			if rowsBelow(conf) == 0 {
				continue
			}
			byTicker = true
			hs, nb := startRound(conf)
			byTicker = false
			if hs != nil {
				finishRound(conf, hs, nb, classOf)
			} else {
				in.Steps = append(in.Steps, c09Step{T: "missed-check", C: conf})
			}
		case strings.HasPrefix(p, "block-query-fails"):
			// the monitor's block-number query fails once — the transport gave up on its own
			// request (an error that wraps context.Canceled / DeadlineExceeded although nobody
			// shut the monitor down), or a plain error — and the node is fine again afterwards:
			// nothing is learnt, nothing is lost, the rounds that follow work as before
			if closed {
				continue
			}
			var e error
			switch p {
			case "block-query-fails-canceled":
				e = fmt.Errorf("Post \"http://node\": %w", context.Canceled)
			case "block-query-fails-deadline":
				e = fmt.Errorf("Post \"http://node\": %w", context.DeadlineExceeded)
			default:
				e = errInjected
			}
			h.stub.mu.Lock()
			h.stub.blockErr, h.stub.blockErrN = e, 1
			before := h.stub.blockErrHit
			h.stub.mu.Unlock()
			select {
			case mon.newTxAdded <- struct{}{}:
			case <-time.After(time.Second):
			}
			waitFor(func() bool {
				h.stub.mu.Lock()
				defer h.stub.mu.Unlock()
				return h.stub.blockErrHit > before
			})
			h.stub.mu.Lock()
			h.stub.blockErrN = 0
			h.stub.mu.Unlock()
			time.Sleep(2 * time.Millisecond)
		case p == "abandon":
			// a party stops waiting (its context ends) before its transaction is resolved; its
			// channel stays in the row and the later delivery must not be held up by it
			var cand []*c09Ext
			for _, e := range exts {
				if e.id >= 0 && e.stop != nil && !e.abandoned && len(e.done) == 0 && rowLen(e.tx) > 0 {
					cand = append(cand, e)
				}
			}
			if len(cand) == 0 {
				continue
			}
			e := cand[rng.intn(len(cand))]
			e.abandoned = true
			e.stop()
			select {
			case v := <-e.done:
				e.done <- v
			case <-time.After(time.Second):
			}
			in.Steps = append(in.Steps, c09Step{T: "abandon", W: e.id})
		case p == "cancel-ok" || p == "cancel-fail":
			// CancelTx on a transaction the client still tracks; the chain node accepts or rejects
			// the replacement.  Accepted: the replacement is a transaction the node sent (same
			// nonce, new hash).  Rejected: nothing was sent, nothing may be listed.
			if closed {
				continue
			}
			tx := stillPending()
			if tx < 0 || replaced[tx] {
				continue // (cancelling the same transaction twice builds the very same replacement)
			}
			h.stub.mu.Lock()
			h.stub.pendingErr, h.stub.fault = false, ""
			if p == "cancel-fail" {
				h.stub.fault = "submit"
			}
			h.stub.mu.Unlock()
			nh, err := c.CancelTx(context.Background(), h.hashes[tx])
			h.stub.mu.Lock()
			h.stub.fault = ""
			h.stub.mu.Unlock()
			if err == nil {
				replaced[tx] = true
				ntx := len(h.hashes)
				h.mu.Lock()
				h.hashes = append(h.hashes, nh)
				h.nonces = append(h.nonces, h.nonces[tx])
				h.idx[nh] = ntx
				h.mu.Unlock()
				waitFor(func() bool { return rowLen(ntx) >= 1 })
				in.Steps = append(in.Steps, c09Step{T: "send", Nonce: h.nonces[tx], Tx: ntx})
				internalOf[ntx] = nextID
				nextID++
			}
		case p == "round-watch-during-delivery":
			// a waiter registers while the monitor is in the middle of handing out the outcome of
			// that very transaction: an unbuffered channel placed first in the row holds the
			// delivery loop until the harness takes the outcome
			if closed || len(h.hashes) == 0 {
				continue
			}
			tx := stillPending()
			if tx < 0 || internalDone[tx] {
				continue
			}
			conf := h.nonces[len(h.nonces)-1] + 1
			if rowsBelow(conf) > batchSize {
				continue
			}
			// S (buffered) then G (unbuffered) lead the row: once S holds its outcome the delivery
			// loop is standing at G
			S := make(chan Result, 1)
			G := make(chan Result)
			allowG := make(chan struct{})
			mon.mtx.Lock()
			row := mon.waitMap[h.nonces[tx]][h.hashes[tx]]
			if len(row) == 0 {
				mon.mtx.Unlock()
				continue
			}
			mon.waitMap[h.nonces[tx]][h.hashes[tx]] = append([]chan Result{S, G}, row...)
			mon.mtx.Unlock()
			outcomeOf := func(r Result) string {
				switch {
				case r.Err == nil && r.Receipt != nil:
					h.mu.Lock()
					j, ok := h.idx[r.Receipt.TxHash]
					h.mu.Unlock()
					if !ok {
						j = -1
					}
					return fmt.Sprintf("receipt:%d:%d", j, r.Receipt.Status)
				case errors.Is(r.Err, ErrTxnCancelled):
					return "cancelled"
				case errors.Is(r.Err, ErrMonitorClosed):
					return "closed"
				}
				return "error"
			}
			var ges [2]*c09Ext
			for k := range ges {
				in.Steps = append(in.Steps, c09Step{T: "watch", Nonce: h.nonces[tx], Tx: tx})
				ge := &c09Ext{id: nextID, tx: tx, done: make(chan string, 1)}
				ge.stop = func() { // never delivered (e.g. no round was realised): the waiter simply has no outcome
					select {
					case ge.done <- "none":
					default:
					}
				}
				ges[k] = ge
				nextID++
				exts = append(exts, ges[k])
			}
			go func() {
				<-allowG
				for k, ch := range []chan Result{S, G} {
					// (a party that was told to stop waiting meanwhile already holds "none": its
					// channel must still be emptied, or the monitor stands at it for ever)
					put := func(o string) {
						select {
						case ges[k].done <- o:
						default:
						}
					}
					select {
					case r := <-ch:
						put(outcomeOf(r))
					case <-time.After(20 * time.Second):
						put("none")
					}
				}
			}()
			hs, nb := startRound(conf)
			if hs == nil {
				close(allowG)
				continue
			}
			midDelivery = func() {
				if !waitFor(func() bool { return len(S) == 1 }) { // the delivery loop stands at the held channel
					close(allowG)
					return
				}
				ctx, cancel := context.WithCancel(context.Background())
				e := &c09Ext{id: -1, tx: tx, done: make(chan string, 1), stop: cancel}
				go func() {
					r, err := c.WaitForReceipt(ctx, h.hashes[tx])
					switch {
					case err == nil:
						h.mu.Lock()
						j, ok := h.idx[r.TxHash]
						h.mu.Unlock()
						if !ok {
							j = -1
						}
						e.done <- fmt.Sprintf("receipt:%d:%d", j, r.Status)
					case errors.Is(err, ErrTxnCancelled):
						e.done <- "cancelled"
					case errors.Is(err, ErrMonitorClosed):
						e.done <- "closed"
					case errors.Is(err, context.Canceled):
						e.done <- "none"
					case strings.Contains(err.Error(), "tx not found"):
						e.done <- "unknown-tx"
					default:
						e.done <- "error"
					}
				}()
				time.Sleep(10 * time.Millisecond) // the newcomer runs as far as the monitor lets it
				close(allowG)
				// its registration completes once the row was handed out and deleted
				waitFor(func() bool { return rowLen(tx) >= 1 })
				in.Steps = append(in.Steps, c09Step{T: "watch", Nonce: h.nonces[tx], Tx: tx})
				e.id = nextID
				nextID++
				exts = append(exts, e)
			}
			finishRound(conf, hs, nb, func(t int) string {
				if t == tx {
					return "receipt-ok"
				}
				return classOf(t)
			})
			midDelivery = nil
		case p == "close-racing-watch":
			if closed {
				continue
			}
			if tx := stillPending(); tx >= 0 {
				doWatch(tx, true)
			}
		case strings.HasPrefix(p, "watch"):
			if len(h.hashes) > 0 {
				doWatch(rng.intn(len(h.hashes)), false)
			}
		case p == "round":
			if closed || len(h.hashes) == 0 {
				continue
			}
			conf := uint64(rng.intn(len(h.hashes) + 3))
			if hs, nb := startRound(conf); hs != nil {
				finishRound(conf, hs, nb, classOf)
			}
		case p == "round-watch-inflight":
			if closed || len(h.hashes) == 0 {
				continue
			}
			conf := h.nonces[len(h.nonces)-1] + 1
			if hs, nb := startRound(conf); hs != nil {
				doWatch(rng.intn(len(h.hashes)), false) // registered while the batch is in flight
				if rng.chance(40) {
					doSend()
				}
				finishRound(conf, hs, nb, classOf)
			}
		case p == "round-close-inflight":
			if closed || len(h.hashes) == 0 {
				continue
			}
			conf := h.nonces[len(h.nonces)-1] + 1
			if hs, nb := startRound(conf); hs != nil {
				closeRes = doClose() // shutdown and drain while the reply is in flight
				if rng.chance(50) {
					doWatch(rng.intn(len(h.hashes)), false)
				}
				finishRound(conf, hs, nb, classOf)
			}
		case p == "close":
			if !closed {
				closeRes = doClose()
			}
		}
	}
	// quiescence
	time.Sleep(5 * time.Millisecond)
	var rest []int
	for tx, w := range internalOf {
		if !observed[tx] {
			rest = append(rest, w)
		}
	}
	sort.Ints(rest)
	for _, w := range rest {
		in.Steps = append(in.Steps, c09Step{T: "observe", W: w})
	}
	// a common grace period: outcomes already handed out reach their parties' goroutines (a loaded
	// machine schedules them late); it ends as soon as nobody is without one
	grace := 300
	if closed { // after shutdown every party that still waits is owed an outcome: wait for it longer
		grace = 3000
	}
	for i := 0; i < grace; i++ {
		missing := false
		for _, e := range exts {
			if len(e.done) == 0 && !(closed && e.abandoned) {
				missing = true
			}
		}
		if !missing {
			break
		}
		time.Sleep(time.Millisecond)
	}
	for _, e := range exts {
		var v string
		select {
		case v = <-e.done:
		case <-time.After(40 * time.Millisecond):
			e.stop()
			select {
			case v = <-e.done:
			case <-time.After(time.Second):
				v = "stuck"
			}
		}
		obs.Waiters = append(obs.Waiters, c09Waiter{ID: e.id, Tx: e.tx, Outcome: v})
	}
	for _, ti := range c.PendingTxns() {
		if j, ok := h.idx[common.HexToHash(ti.Hash)]; ok {
			obs.Pending = append(obs.Pending, j)
		} else {
			obs.Unknown++
		}
	}
	sort.Ints(obs.Pending)
	if closeRes != nil {
		select {
		case obs.CloseErr = <-closeRes:
		case <-time.After(12 * time.Second):
			obs.CloseErr = true
		}
	} else {
		c.Close()
	}
	return in, obs
}

// TestVerifC09Batch: a few rounds in which several transactions of the account, mined with
// different statuses or replaced, are resolved by one receipt batch (used as an extra harness by
// C11: the stake / prepay operations learn their transaction's fate from these receipts)
func TestVerifC09Batch(t *testing.T) {
	out := newVout(t, "C09")
	defer out.close()
	rng := newVrng(vseed(), 911)
	for i := 0; i < 10; i++ {
		for _, tr := range []string{"mock", "rpc"} {
			plan := []string{"send", "send", "send", "send", "watch", "watch", "watch", "round-all", "watch", "round-all", "close"}
			if i%5 == 4 { // more transactions awaited at once than one receipt batch holds
				plan = []string{"bigsend", "watch", "watch", "round-all", "watch", "round-all", "close"}
			}
			caseNo := out.n
			pre := c09In{Tag: "plan", Transport: tr, Plan: plan, Steps: []c09Step{}}
			out.mu.Lock()
			b, _ := json.Marshal(map[string]any{"p": "C09", "case": caseNo, "in": pre, "impl": c09Obs{Crashed: true, Waiters: []c09Waiter{}, Pending: []int{}}})
			out.w.Write(b)
			out.w.WriteByte('\n')
			out.w.Flush()
			out.mu.Unlock()
			in, obs := c09Exec(t, rng, tr, plan)
			out.mu.Lock()
			b, _ = json.Marshal(map[string]any{"p": "C09", "case": caseNo, "in": in, "impl": obs})
			out.w.Write(b)
			out.w.WriteByte('\n')
			out.w.Flush()
			out.n++
			out.mu.Unlock()
		}
	}
}

func TestVerifC09(t *testing.T) {
	out := newVout(t, "C09")
	defer out.close()
	rng := newVrng(vseed(), 9)
	run := func(transport string, plan []string) {
		// marker first: if this case kills the process, the marker is what remains
		pre := c09In{Tag: "plan", Transport: transport, Plan: plan, Steps: []c09Step{}}
		out.mu.Lock()
		b, _ := json.Marshal(map[string]any{"p": "C09", "case": out.n, "in": pre, "impl": c09Obs{Crashed: true, Waiters: []c09Waiter{}, Pending: []int{}}})
		out.w.Write(b)
		out.w.WriteByte('\n')
		out.w.Flush()
		out.mu.Unlock()
		in, obs := c09Exec(t, rng, transport, plan)
		out.emit(in, obs) // same case number as the marker? no: emit increments; fix up below
	}
	_ = run
	fixed := [][]string{
		{"send", "watch", "round"},
		{"send", "send", "watch", "watch", "round", "round", "close"},
		{"send", "watch", "round-close-inflight"},
		{"send", "send", "watch", "round-watch-inflight", "round", "close"},
		{"send", "close", "watch"},
		{"send", "watch", "close", "watch", "send"},
		{"send", "send", "send", "watch", "watch", "watch", "round", "round-close-inflight"},
		{"send", "send", "watch", "close-racing-watch"},
		{"send", "watch", "round", "send", "close-racing-watch", "watch"},
		{"bigsend", "watch", "watch", "round-all", "watch", "round-all", "close"},
		{"send", "send", "watch", "round-watch-during-delivery", "close"},
		{"send", "watch", "watch", "abandon", "watch", "round-all", "watch", "close"},
		{"send", "send", "watch", "watch", "abandon", "close"},
		{"send", "watch", "abandon", "watch", "round-watch-inflight", "round-all", "close"},
		{"send", "watch", "round-watch-during-delivery", "round-all", "watch", "close"},
		{"send", "send", "cancel-fail", "watch", "round-all", "close"},
		{"send", "watch", "round-all-errors", "round-by-ticker", "close"},
		{"send", "send", "watch", "watch", "round-all-errors", "round-by-ticker", "round-by-ticker", "watch", "close"},
		{"send", "round-by-ticker", "watch", "round-by-ticker", "close"},
		{"send", "cancel-ok", "watch", "cancel-fail", "round-all", "round-all", "close"},
		{"send", "watch", "block-query-fails-canceled", "send", "watch", "round-all", "close"},
		{"send", "send", "watch", "block-query-fails-deadline", "round", "watch", "block-query-fails", "round-all", "close"},
	}
	emitCase := func(transport string, plan []string) {
		caseNo := out.n
		pre := c09In{Tag: "plan", Transport: transport, Plan: plan, Steps: []c09Step{}}
		out.mu.Lock()
		b, _ := json.Marshal(map[string]any{"p": "C09", "case": caseNo, "in": pre, "impl": c09Obs{Crashed: true, Waiters: []c09Waiter{}, Pending: []int{}}})
		out.w.Write(b)
		out.w.WriteByte('\n')
		out.w.Flush()
		out.mu.Unlock()
		in, obs := c09Exec(t, rng, transport, plan)
		out.mu.Lock()
		b, _ = json.Marshal(map[string]any{"p": "C09", "case": caseNo, "in": in, "impl": obs})
		out.w.Write(b)
		out.w.WriteByte('\n')
		out.w.Flush()
		out.n++
		out.mu.Unlock()
	}
	for _, tr := range []string{"mock", "rpc"} {
		for _, p := range fixed {
			emitCase(tr, p)
		}
	}
	if os.Getenv("VERIF_C09_ONLY") != "" {
		for i := 0; i < 40; i++ {
			emitCase("rpc", strings.Split(os.Getenv("VERIF_C09_ONLY"), ","))
		}
		return
	}
	acts := []string{"send", "send", "watch", "watch", "round", "round", "round-all", "round-watch-inflight", "round-close-inflight", "close", "close-racing-watch",
		"round-watch-during-delivery", "cancel-ok", "cancel-fail", "abandon", "block-query-fails-canceled", "block-query-fails-deadline"}
	for i := 0; i < vcount(60, 1200); i++ {
		var plan []string
		n := 3 + rng.intn(vcount(10, 24))
		plan = append(plan, "send")
		if i%10 == 9 {
			plan = append(plan, "bigsend")
		}
		for j := 0; j < n; j++ {
			plan = append(plan, acts[rng.intn(len(acts))])
		}
		emitCase([]string{"mock", "rpc"}[i%2], plan)
	}
}

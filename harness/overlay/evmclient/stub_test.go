package evmclient

// Scripted chain node for the in-package drivers (mockevm cannot be imported from inside the
// package: it imports evmclient).  Every answer is under the harness' control.

import (
	"fmt"
	"net"
	"time"
	"context"
	"crypto/ecdsa"
	"errors"
	"io"
	"log/slog"
	"math/big"
	"sync"

	"github.com/ethereum/go-ethereum"
	"github.com/ethereum/go-ethereum/common"
	"github.com/ethereum/go-ethereum/core/types"
	"github.com/ethereum/go-ethereum/crypto"
	"github.com/ethereum/go-ethereum/rpc"
)

var errInjected = errors.New("injected fault")

type vStub struct {
	mu          sync.Mutex
	chainID     *big.Int
	pending     uint64
	pendingErr  bool
	fault       string // estimate | tip | price | submit | ""
	confirmed   uint64
	confirmedErr bool // the confirmed-nonce query fails (the pending-nonce query still answers)
	nonceAtCalls int
	block       uint64
	blockErr    error // the block-number query fails with this error …
	blockErrN   int   // … this many more times
	blockErrHit int   // times it did
	monitorLive bool
	accepted    []uint64 // nonces of transactions SendTransaction accepted, in order
	offered     []uint64 // nonces of every transaction handed to SendTransaction
	txs         map[common.Hash]*types.Transaction
	batch       func(ctx context.Context, b []rpc.BatchElem) error
	gasArmed    bool
	gasHit      chan struct{}
	gasRel      chan struct{}
}

func newVStub() *vStub {
	return &vStub{chainID: big.NewInt(31337), txs: map[common.Hash]*types.Transaction{}}
}

type vBatcher struct{ s *vStub }

func (b vBatcher) BatchCallContext(ctx context.Context, e []rpc.BatchElem) error {
	b.s.mu.Lock()
	f := b.s.batch
	b.s.mu.Unlock()
	if f == nil {
		return errInjected
	}
	return f(ctx, e)
}

func (s *vStub) Batcher() Batcher                               { return vBatcher{s} }
func (s *vStub) NetworkID(context.Context) (*big.Int, error)    { return s.chainID, nil }
func (s *vStub) BlockNumber(context.Context) (uint64, error) {
	s.mu.Lock()
	defer s.mu.Unlock()
	if !s.monitorLive {
		return 0, errInjected
	}
	if s.blockErrN > 0 {
		s.blockErrN--
		s.blockErrHit++
		return 0, s.blockErr
	}
	s.block++
	return s.block, nil
}
func (s *vStub) PendingNonceAt(context.Context, common.Address) (uint64, error) {
	s.mu.Lock()
	defer s.mu.Unlock()
	if s.pendingErr {
		return 0, errInjected
	}
	return s.pending, nil
}
func (s *vStub) NonceAt(context.Context, common.Address, *big.Int) (uint64, error) {
	s.mu.Lock()
	defer s.mu.Unlock()
	s.nonceAtCalls++
	if s.confirmedErr {
		return 0, errors.New("header not found")
	}
	return s.confirmed, nil
}
func (s *vStub) SuggestGasPrice(context.Context) (*big.Int, error) {
	s.mu.Lock()
	defer s.mu.Unlock()
	if s.fault == "price" {
		return nil, errInjected
	}
	return big.NewInt(2000000000), nil
}
func (s *vStub) SuggestGasTipCap(context.Context) (*big.Int, error) {
	s.mu.Lock()
	defer s.mu.Unlock()
	if s.fault == "tip" {
		return nil, errInjected
	}
	return big.NewInt(1000000000), nil
}
func (s *vStub) EstimateGas(context.Context, ethereum.CallMsg) (uint64, error) {
	// a one-shot gate: the caller (inside newTx) is held until released
	s.mu.Lock()
	armed, hit, rel := s.gasArmed, s.gasHit, s.gasRel
	s.gasArmed = false
	s.mu.Unlock()
	if armed {
		close(hit)
		select {
		case <-rel:
		case <-time.After(2 * time.Second):
		}
	}
	s.mu.Lock()
	defer s.mu.Unlock()
	if s.fault == "estimate" {
		return 0, errInjected
	}
	return 60000, nil
}
func (s *vStub) SendTransaction(_ context.Context, tx *types.Transaction) error {
	s.mu.Lock()
	defer s.mu.Unlock()
	s.offered = append(s.offered, tx.Nonce())
	switch s.fault {
	case "submit":
		return errInjected
	case "submit-deadline": // as the RPC client reports a caller context that ran out mid-request
		return fmt.Errorf("Post \"http://node\": %w", context.DeadlineExceeded)
	case "submit-canceled":
		return context.Canceled
	case "submit-transport":
		return &net.OpError{Op: "write", Net: "tcp", Err: errors.New("connection reset by peer")}
	}
	s.accepted = append(s.accepted, tx.Nonce())
	s.txs[tx.Hash()] = tx
	return nil
}
func (s *vStub) CallContract(context.Context, ethereum.CallMsg, *big.Int) ([]byte, error) {
	return nil, errInjected
}
func (s *vStub) TransactionReceipt(context.Context, common.Hash) (*types.Receipt, error) {
	return nil, ethereum.NotFound
}
func (s *vStub) TransactionByHash(_ context.Context, h common.Hash) (*types.Transaction, bool, error) {
	s.mu.Lock()
	defer s.mu.Unlock()
	if tx, ok := s.txs[h]; ok {
		return tx, true, nil // every transaction the node accepted is still in its pool
	}
	return nil, false, ethereum.NotFound
}

type vKeySigner struct {
	key      *ecdsa.PrivateKey
	failSign bool
	mu       sync.Mutex
}

func newVKeySigner(r *vrng) *vKeySigner {
	for {
		k, err := crypto.ToECDSA(r.bytes(32))
		if err == nil {
			return &vKeySigner{key: k}
		}
	}
}
func (k *vKeySigner) SignHash(h []byte) ([]byte, error) { return crypto.Sign(h, k.key) }
func (k *vKeySigner) SignTx(tx *types.Transaction, chainID *big.Int) (*types.Transaction, error) {
	k.mu.Lock()
	f := k.failSign
	k.mu.Unlock()
	if f {
		return nil, errInjected
	}
	return types.SignTx(tx, types.NewLondonSigner(chainID), k.key)
}
func (k *vKeySigner) GetAddress() common.Address               { return crypto.PubkeyToAddress(k.key.PublicKey) }
func (k *vKeySigner) GetPrivateKey() (*ecdsa.PrivateKey, error) { return k.key, nil }
func (k *vKeySigner) ZeroPrivateKey(*ecdsa.PrivateKey)          {}
func (k *vKeySigner) String() string                            { return "verif" }

func vQuiet() *slog.Logger { return slog.New(slog.NewTextHandler(io.Discard, nil)) }

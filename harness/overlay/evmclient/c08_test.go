package evmclient

// C08 correspondence driver: real EvmClient.Send over a scripted chain node, operation
// sequences of sends (with pending answers that may lag, jump or fail, and one failing call),
// monitor updates (through the real watch loop) and restarts (new client, same chain).
// Observation: the event list the Lean spec judges.

import (
	"context"
	"encoding/json"
	"math/big"
	"testing"
	"time"

	"github.com/ethereum/go-ethereum/common"
)

type c08Op struct {
	T       string  `json:"t"` // send | monitor | restart
	Pending *uint64 `json:"pending,omitempty"`
	Fault   string  `json:"fault,omitempty"` // "" | estimate | tip | price | sign | submit
	C       uint64  `json:"c,omitempty"`
	// this send and the next one are issued at the same time: the second arrives while the first is
	// inside its gas-estimate call to the chain node (for the model: two sends, in this order)
	Overlap bool `json:"overlap,omitempty"`
	// before this send the node cancels the transaction it sent last (a replacement reusing that
	// transaction's nonce is submitted): invisible to the allocator's model, which it must not disturb
	CancelBefore bool `json:"cancel_before,omitempty"`
}
type c08In struct {
	Tag string  `json:"tag"`
	Ops []c08Op `json:"ops"`
}
type c08Ev struct {
	T       string  `json:"t"` // sent | failed | mon | restarted
	Nonce   *uint64 `json:"nonce,omitempty"`
	Pending *uint64 `json:"pending,omitempty"`
	C       *uint64 `json:"c,omitempty"`
}
type c08Obs struct {
	Events []c08Ev `json:"events"`
	Note   string  `json:"note,omitempty"`
}

func c08Run(t *testing.T, in c08In, rng *vrng) c08Obs {
	stub := newVStub()
	stub.monitorLive = true
	ks := newVKeySigner(rng)
	mk := func() *EvmClient {
		c, err := New(ks, stub, vQuiet())
		if err != nil {
			t.Fatal(err)
		}
		return c
	}
	c := mk()
	defer func() { c.Close() }()
	obs := c08Obs{Events: []c08Ev{}}
	to := common.HexToAddress("0xbeef")
	skip := false
	var lastHash common.Hash
	for i, op := range in.Ops {
		if skip {
			skip = false
			continue
		}
		if op.T == "send" && op.Overlap && i+1 < len(in.Ops) && in.Ops[i+1].T == "send" {
			skip = true
			stub.mu.Lock()
			stub.pendingErr, stub.fault = false, ""
			stub.pending = *op.Pending
			before := len(stub.accepted)
			stub.gasArmed, stub.gasHit, stub.gasRel = true, make(chan struct{}), make(chan struct{})
			hit, rel := stub.gasHit, stub.gasRel
			stub.mu.Unlock()
			ks.mu.Lock()
			ks.failSign = false
			ks.mu.Unlock()
			done1, done2 := make(chan error, 1), make(chan error, 1)
			send := func(done chan error) {
				_, err := c.Send(context.Background(), &TxRequest{To: &to, CallData: []byte{1}, Value: big.NewInt(0)})
				done <- err
			}
			go send(done1)
			var e1, e2 error
			first := false
			select {
			case <-hit: // the first send is inside newTx
			case e1 = <-done1: // refused before it got there (window)
				first = true
			case <-time.After(2 * time.Second):
			}
			go send(done2)
			time.Sleep(15 * time.Millisecond) // the second runs as far as the client lets it
			stub.mu.Lock()
			stub.gasArmed = false
			stub.mu.Unlock()
			close(rel)
			if !first {
				e1 = <-done1
			}
			e2 = <-done2
			stub.mu.Lock()
			acc := append([]uint64{}, stub.accepted[before:]...)
			stub.mu.Unlock()
			nOK := 0
			for _, e := range []error{e1, e2} {
				if e == nil {
					nOK++
				}
			}
			if len(acc) != nOK {
				obs.Note = "overlapping sends: result inconsistent with what the node accepted"
				n := uint64(len(acc))
				obs.Events = append(obs.Events, c08Ev{T: "inconsistent", Nonce: &n})
				continue
			}
			for _, n := range acc {
				n := n
				obs.Events = append(obs.Events, c08Ev{T: "sent", Nonce: &n, Pending: op.Pending})
			}
			for k := nOK; k < 2; k++ {
				obs.Events = append(obs.Events, c08Ev{T: "failed", Pending: op.Pending})
			}
			continue
		}
		switch op.T {
		case "send":
			if op.CancelBefore && lastHash != (common.Hash{}) {
				stub.mu.Lock()
				stub.pendingErr, stub.fault = false, ""
				stub.mu.Unlock()
				ks.mu.Lock()
				ks.failSign = false
				ks.mu.Unlock()
				_, _ = c.CancelTx(context.Background(), lastHash)
				lastHash = common.Hash{}
			}
			stub.mu.Lock()
			stub.pendingErr = op.Pending == nil
			if op.Pending != nil {
				stub.pending = *op.Pending
			}
			stub.fault = op.Fault
			before := len(stub.accepted)
			stub.mu.Unlock()
			ks.mu.Lock()
			ks.failSign = op.Fault == "sign"
			ks.mu.Unlock()
			h, err := c.Send(context.Background(), &TxRequest{To: &to, CallData: []byte{1}, Value: big.NewInt(0)})
			stub.mu.Lock()
			acc := stub.accepted[before:]
			stub.mu.Unlock()
			if err == nil {
				lastHash = h
			}
			if err == nil && len(acc) == 1 {
				n := acc[0]
				obs.Events = append(obs.Events, c08Ev{T: "sent", Nonce: &n, Pending: op.Pending})
			} else if err != nil && len(acc) == 0 {
				obs.Events = append(obs.Events, c08Ev{T: "failed", Pending: op.Pending})
			} else {
				obs.Note = "send result inconsistent with what the node accepted"
				n := uint64(len(acc))
				obs.Events = append(obs.Events, c08Ev{T: "inconsistent", Nonce: &n})
			}
		case "cancel":
			// CancelTx of the transaction sent last (if any is known): whatever becomes of it, the
			// allocator is untouched
			if lastHash != (common.Hash{}) {
				stub.mu.Lock()
				stub.pendingErr, stub.fault = false, ""
				stub.mu.Unlock()
				ks.mu.Lock()
				ks.failSign = false
				ks.mu.Unlock()
				_, _ = c.CancelTx(context.Background(), lastHash)
				lastHash = common.Hash{}
			}
			obs.Events = append(obs.Events, c08Ev{T: "cancelled"})
		case "monitor":
			stub.mu.Lock()
			stub.confirmed = op.C
			stub.mu.Unlock()
			// wake the real watch loop and wait until it stored the value
			select {
			case c.monitor.newTxAdded <- struct{}{}:
			case <-time.After(2 * time.Second):
			}
			deadline := time.Now().Add(3 * time.Second)
			for c.monitor.lastConfirmedNonce.Load() != op.C && time.Now().Before(deadline) {
				time.Sleep(200 * time.Microsecond)
			}
			if c.monitor.lastConfirmedNonce.Load() != op.C {
				obs.Note = "monitor did not store the confirmed nonce"
			}
			cc := op.C
			obs.Events = append(obs.Events, c08Ev{T: "mon", C: &cc})
		case "monitor-fails":
			// the watch loop runs a round in which the node cannot answer the confirmed-nonce query
			// while it reports op.Pending as the account's pending nonce: nothing is learnt from it
			stub.mu.Lock()
			stub.confirmedErr = true
			if op.Pending != nil {
				stub.pending, stub.pendingErr = *op.Pending, false
			}
			calls := stub.nonceAtCalls
			stub.mu.Unlock()
			select {
			case c.monitor.newTxAdded <- struct{}{}:
			case <-time.After(2 * time.Second):
			}
			deadline := time.Now().Add(2 * time.Second)
			for time.Now().Before(deadline) {
				stub.mu.Lock()
				n := stub.nonceAtCalls
				stub.mu.Unlock()
				if n > calls {
					break
				}
				time.Sleep(200 * time.Microsecond)
			}
			time.Sleep(5 * time.Millisecond)
			stub.mu.Lock()
			stub.confirmedErr = false
			stub.mu.Unlock()
			obs.Events = append(obs.Events, c08Ev{T: "mon-failed"})
		case "restart":
			c.Close()
			// the fresh monitor starts from 0 and would re-learn the node's confirmed nonce on
			// its own schedule; keep the schedule under the harness' control (next monitor op)
			stub.mu.Lock()
			stub.confirmed = 0
			stub.mu.Unlock()
			c = mk()
			obs.Events = append(obs.Events, c08Ev{T: "restarted"})
		}
	}
	return obs
}

func TestVerifC08(t *testing.T) {
	out := newVout(t, "C08")
	defer out.close()
	rng := newVrng(vseed(), 8)
	for _, raw := range vcorpus() {
		var in c08In
		if json.Unmarshal(raw, &in) == nil {
			out.emit(in, c08Run(t, in, rng))
		}
	}
	if vonlyReplay() {
		return
	}
	u := func(x uint64) *uint64 { return &x }
	faults := []string{"estimate", "tip", "price", "sign", "submit", "submit-deadline", "submit-canceled", "submit-transport"}
	// hand-written shapes the anchors name
	fixed := []c08In{
		{"fresh-account-lagging", []c08Op{{T: "send", Pending: u(0)}, {T: "send", Pending: u(0)}, {T: "send", Pending: u(0)}, {T: "send", Pending: u(1)}}},
		{"submission-ran-out-of-time-then-retry", []c08Op{{T: "send", Pending: u(0)}, {T: "send", Pending: u(1), Fault: "submit-deadline"}, {T: "send", Pending: u(1)}, {T: "send", Pending: u(2), Fault: "submit-canceled"},
			{T: "send", Pending: u(2)}, {T: "send", Pending: u(3), Fault: "submit-transport"}, {T: "send", Pending: u(3)}}},
		{"fail-then-retry", []c08Op{{T: "send", Pending: u(5)}, {T: "send", Pending: u(6), Fault: "submit"}, {T: "send", Pending: u(6)}, {T: "send", Pending: u(6), Fault: "sign"}, {T: "send", Pending: u(7)}}},
		{"window-edge", []c08Op{{T: "monitor", C: 10}, {T: "send", Pending: u(1034)}, {T: "send", Pending: u(1035)}, {T: "send", Pending: u(1036)}, {T: "monitor", C: 12}, {T: "send", Pending: u(1036)}, {T: "send", Pending: u(1037)}}},
		{"confirmed-query-fails", []c08Op{{T: "monitor", C: 5}, {T: "send", Pending: u(5)}, {T: "monitor-fails", Pending: u(1100)}, {T: "send", Pending: u(1100)}, {T: "send", Pending: u(1030)},
			{T: "send", Pending: u(1029)}, {T: "send", Pending: u(1028)}, {T: "monitor-fails", Pending: u(5000)}, {T: "send", Pending: u(1030)}, {T: "monitor", C: 6}, {T: "send", Pending: u(1030)}, {T: "send", Pending: u(1032)}}},
		{"confirmed-query-fails-fresh", []c08Op{{T: "monitor-fails", Pending: u(3000)}, {T: "send", Pending: u(3000)}, {T: "send", Pending: u(1024)}, {T: "send", Pending: u(1023)}, {T: "send", Pending: u(1025)}}},
		{"window-zero-confirmed", []c08Op{{T: "send", Pending: u(1024)}, {T: "send", Pending: u(1025)}, {T: "send", Pending: u(1025)}}},
		{"outside-tx", []c08Op{{T: "send", Pending: u(3)}, {T: "send", Pending: u(9)}, {T: "send", Pending: u(4)}, {T: "send", Pending: u(11)}}},
		{"restart", []c08Op{{T: "send", Pending: u(3)}, {T: "send", Pending: u(3)}, {T: "restart"}, {T: "send", Pending: u(5)}, {T: "send", Pending: u(5)}}},
		{"pending-error", []c08Op{{T: "send", Pending: u(2)}, {T: "send"}, {T: "send", Pending: u(2)}}},
		{"cancel-between-sends", []c08Op{{T: "send", Pending: u(5)}, {T: "send", Pending: u(6)}, {T: "send", Pending: u(7), CancelBefore: true}, {T: "send", Pending: u(8)},
			{T: "send", Pending: u(8), CancelBefore: true}, {T: "send", Pending: u(10)}}},
		{"cancel-between-sends-lagging", []c08Op{{T: "send", Pending: u(0)}, {T: "send", Pending: u(0), CancelBefore: true}, {T: "send", Pending: u(0)}, {T: "send", Pending: u(1), CancelBefore: true}}},
		{"cancel-op", []c08Op{{T: "send", Pending: u(5)}, {T: "cancel"}, {T: "send", Pending: u(5)}, {T: "send", Pending: u(6)}, {T: "cancel"}, {T: "cancel"}, {T: "send", Pending: u(8)},
			{T: "restart"}, {T: "cancel"}, {T: "send", Pending: u(9)}}},
		{"overlapping-sends", []c08Op{{T: "send", Pending: u(5), Overlap: true}, {T: "send", Pending: u(5)}, {T: "send", Pending: u(5)}}},
		{"overlapping-sends-fresh", []c08Op{{T: "send", Pending: u(0), Overlap: true}, {T: "send", Pending: u(0)}, {T: "send", Pending: u(0), Overlap: true}, {T: "send", Pending: u(0)}}},
		{"overlapping-after-fail", []c08Op{{T: "send", Pending: u(3)}, {T: "send", Pending: u(3), Fault: "submit"}, {T: "send", Pending: u(3), Overlap: true}, {T: "send", Pending: u(3)}, {T: "send", Pending: u(4)}}},
	}
	for _, f := range faults {
		fixed = append(fixed, c08In{"fault-" + f, []c08Op{{T: "send", Pending: u(0), Fault: f}, {T: "send", Pending: u(0)}, {T: "send", Pending: u(1), Fault: f}, {T: "send", Pending: u(1), Fault: f}, {T: "send", Pending: u(1)}}})
	}
	for _, in := range fixed {
		out.emit(in, c08Run(t, in, rng))
	}
	nseq := vcount(250, 4000)
	maxLen := vcount(40, 120)
	for i := 0; i < nseq; i++ {
		// simulated chain: truePending moves with accepted transactions and outside ones
		var ops []c08Op
		base := []uint64{0, 0, 1, 7, 500, 1 << 33}[rng.intn(6)]
		truePending := base
		confirmed := uint64(0)
		counter := uint64(0) // what an ideal allocator would hold (only used to aim at the window edge)
		n := 3 + rng.intn(maxLen)
		tag := "random"
		for j := 0; j < n; j++ {
			r := rng.intn(100)
			switch {
			case r < 70:
				op := c08Op{T: "send"}
				lag := uint64(0)
				if rng.chance(35) {
					lag = uint64(rng.intn(4))
				}
				ans := truePending
				if lag > ans-base {
					lag = ans - base
				}
				ans -= lag
				if rng.chance(6) {
					op.Pending = nil
				} else {
					op.Pending = u(ans)
				}
				if rng.chance(18) {
					op.Fault = faults[rng.intn(len(faults))]
				}
				ops = append(ops, op)
				if op.Pending != nil {
					if ans > counter {
						counter = ans
					}
					if op.Fault == "" && counter <= confirmed+1024 {
						if counter+1 > truePending {
							truePending = counter + 1
						}
						counter++
					}
				}
			case r < 80:
				// outside transactions from the same account
				k := uint64(1 + rng.intn(3))
				if rng.chance(15) {
					// jump to the edge of the window
					edge := confirmed + 1024
					if edge > truePending {
						k = edge - truePending + uint64(rng.intn(3)) - 1
					}
					tag = "random+window"
				}
				truePending += k
			case r < 93:
				// monitor update: confirmed nonce somewhere up to the true pending nonce
				c := confirmed
				if truePending > confirmed {
					c = confirmed + rng.u64()%(truePending-confirmed+1)
				}
				if rng.chance(10) && c > 0 {
					c-- // lagging node
				}
				confirmed = c
				ops = append(ops, c08Op{T: "monitor", C: c})
				if rng.chance(20) { // and a round in which the confirmed-nonce query fails
					pp := truePending + uint64(rng.intn(3000))
					ops = append(ops, c08Op{T: "monitor-fails", Pending: &pp})
				}
			default:
				ops = append(ops, c08Op{T: "restart"})
				confirmed = 0
				counter = 0
				if rng.chance(20) {
					tag = "random+stale-restart"
				}
			}
		}
		// cancellations as operations of their own
		for j := 0; j < len(ops); j++ {
			if rng.chance(5) {
				ops = append(ops[:j+1], append([]c08Op{{T: "cancel"}}, ops[j+1:]...)...)
				j++
			}
		}
		// some sends are preceded by a cancellation of the transaction sent last
		for j := range ops {
			if ops[j].T == "send" && rng.chance(8) {
				ops[j].CancelBefore = true
			}
		}
		// some neighbouring fault-free sends with the same answer are issued at the same time
		for j := 0; j+1 < len(ops); j++ {
			a, b := ops[j], ops[j+1]
			if a.T == "send" && b.T == "send" && a.Fault == "" && b.Fault == "" && a.Pending != nil && b.Pending != nil &&
				*a.Pending == *b.Pending && rng.chance(12) {
				ops[j].Overlap = true
				j++
			}
		}
		in := c08In{Tag: tag, Ops: ops}
		out.emit(in, c08Run(t, in, rng))
	}
}

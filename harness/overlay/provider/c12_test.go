package providerapi

// C12 correspondence driver: the real provider Service (real protovalidate), with the harness
// playing the bidder-side callers of ProcessBid and the decision engine on both gRPC streams.
// The harness executes a random plan and logs the *realised* atomic steps (which blocked
// ProcessBid the engine's receive actually took is decided by the Go runtime); the Lean model
// replays exactly that step list.  Observation: per bid the statuses that arrived on its
// channel, the bids the engine saw, the pending-table size, stream liveness.

import (
	"bytes"
	"reflect"
	"context"
	"encoding/hex"
	"encoding/json"
	"errors"
	"fmt"
	"io"
	"log/slog"
	"sync"
	"testing"
	"time"

	"github.com/bufbuild/protovalidate-go"
	"github.com/ethereum/go-ethereum/common"
	preconfpb "github.com/primevprotocol/mev-commit/gen/go/preconfirmation/v1"
	providerapiv1 "github.com/primevprotocol/mev-commit/gen/go/providerapi/v1"
	"google.golang.org/grpc"
)

type c12Bid struct {
	TxHash string `json:"txhash"` // hex of raw string
	Amount string `json:"amount"` // hex of raw string
	Block  int64  `json:"block"`
	Start  int64  `json:"start"`
	End    int64  `json:"end"`
	Digest string `json:"digest"` // hex
}
type c12Step struct {
	T      string  `json:"t"` // submit | handoff | abandon | decision
	Bid    *c12Bid `json:"bid,omitempty"`
	ID     int     `json:"id"`
	Digest string  `json:"digest,omitempty"`
	Status int     `json:"status,omitempty"`
}
type c12In struct {
	Tag   string    `json:"tag"`
	Steps []c12Step `json:"steps"` // realised steps
}
type c12Obs struct {
	Outs       []string         `json:"outs"`      // per step: rejected | registered:<id> | ok | decided | streamEnded
	Statuses   map[string][]int `json:"statuses"`  // bid id -> statuses read from its channel
	EngineSaw  []int            `json:"engine_saw"`
	FieldsOK   bool             `json:"fields_ok"` // every bid the engine saw carried exactly the submitted fields
	Pending    int              `json:"pending"`   // size of the table at quiescence
	StreamEnds int              `json:"stream_ends"`
	Blocked    bool             `json:"blocked"` // the decision stream stopped consuming
	Panic      bool             `json:"panic"`
}

// a bid stream of the engine (ReceiveBids) that comes and goes
type c12RecvStream struct {
	grpc.ServerStream
	ctx    context.Context
	onSend func(*providerapiv1.Bid)
}

func (r *c12RecvStream) Context() context.Context { return r.ctx }
func (r *c12RecvStream) Send(b *providerapiv1.Bid) error {
	r.onSend(b)
	return nil
}

type c12DecStream struct {
	grpc.ServerStream
	in      chan *providerapiv1.BidResponse
	entered chan struct{}
	ended   chan struct{}
	ctx     context.Context
}

// log handler with a gate at the line SendProcessedBids writes between looking the callback up
// and invoking it: lets the harness hold one decision stream exactly there
type c12Gate struct {
	mu     sync.Mutex
	armed  bool
	parked chan struct{}
	resume chan struct{}
}

func (g *c12Gate) Enabled(context.Context, slog.Level) bool { return true }
func (g *c12Gate) WithAttrs([]slog.Attr) slog.Handler      { return g }
func (g *c12Gate) WithGroup(string) slog.Handler           { return g }
func (g *c12Gate) Handle(_ context.Context, r slog.Record) error {
	if r.Message != "received bid status from node" {
		return nil
	}
	g.mu.Lock()
	armed := g.armed
	g.armed = false
	g.mu.Unlock()
	if armed {
		close(g.parked)
		<-g.resume
	}
	return nil
}

func (d *c12DecStream) Context() context.Context { return d.ctx }
func (d *c12DecStream) SendAndClose(*providerapiv1.EmptyMessage) error { return nil }
func (d *c12DecStream) Recv() (*providerapiv1.BidResponse, error) {
	select {
	case d.entered <- struct{}{}:
	default:
	}
	select {
	case m, ok := <-d.in:
		if !ok {
			return nil, io.EOF
		}
		return m, nil
	case <-d.ctx.Done():
		return nil, d.ctx.Err()
	}
}

var c12Validator, _ = protovalidate.New()

type c12Pending struct {
	id     int
	cancel context.CancelFunc
	done   chan struct{}
	ch     chan providerapiv1.BidResponse_Status
	err    error
	bid    c12Bid
}

// the pending table is looked at through reflection (whatever its key type is) and under a lock
// attempt that gives up: a service that keeps its mutex must not take the harness with it
func c12TableHas(svc *Service, dg []byte) (present, locked bool) {
	if !c12Lock(svc) {
		return false, false
	}
	defer svc.bidsMu.Unlock()
	for _, k := range reflect.ValueOf(svc.bidsInProcess).MapKeys() {
		var kb []byte
		switch k.Kind() {
		case reflect.String:
			kb = []byte(k.String())
		case reflect.Array, reflect.Slice:
			for i := 0; i < k.Len(); i++ {
				kb = append(kb, byte(k.Index(i).Uint()))
			}
			if len(dg) < len(kb) { // fixed-width key: compare with the zero-extended / cropped digest
				dg = append(make([]byte, len(kb)-len(dg)), dg...)
			} else if len(dg) > len(kb) {
				dg = dg[len(dg)-len(kb):]
			}
		}
		if bytes.Equal(kb, dg) {
			return true, true
		}
	}
	return false, true
}
func c12Lock(svc *Service) bool {
	for i := 0; i < 4000; i++ {
		if svc.bidsMu.TryLock() {
			return true
		}
		time.Sleep(250 * time.Microsecond)
	}
	return false
}

func c12Exec(t *testing.T, rng *vrng, plan int) (c12In, c12Obs) {
	in := c12In{Tag: "random"}
	obs := c12Obs{Statuses: map[string][]int{}, EngineSaw: []int{}, FieldsOK: true, Outs: []string{}}
	gate := &c12Gate{}
	svc := NewService(slog.New(gate), nil, common.Address{}, nil, c12Validator)
	ctx, cancelAll := context.WithCancel(context.Background())
	defer cancelAll()
	var wg sync.WaitGroup
	var dec *c12DecStream
	newDec := func(c context.Context) *c12DecStream {
		d := &c12DecStream{in: make(chan *providerapiv1.BidResponse), entered: make(chan struct{}, 1), ended: make(chan struct{}), ctx: c}
		wg.Add(1)
		go func() {
			defer wg.Done()
			defer close(d.ended)
			defer func() {
				if r := recover(); r != nil {
					obs.Panic = true
				}
			}()
			_ = svc.SendProcessedBids(d)
		}()
		<-d.entered
		return d
	}
	startDec := func() { dec = newDec(ctx) }
	startDec()
	// send one decision on stream d and wait until it has been fully processed
	sendDecision := func(d *c12DecStream, dg []byte, st int) string {
		select {
		case d.in <- &providerapiv1.BidResponse{BidDigest: dg, Status: providerapiv1.BidResponse_Status(st)}:
		case <-time.After(300 * time.Millisecond):
			obs.Blocked = true
			return "blocked"
		}
		select {
		case <-d.entered:
			return "decided"
		case <-d.ended:
			return "streamEnded"
		case <-time.After(300 * time.Millisecond):
			obs.Blocked = true
			return "blocked"
		}
	}
	bids := map[int]*c12Pending{}
	blocked := []int{} // ids whose ProcessBid is parked in the select
	nextID := 0
	hexs := func(s string) string { return hex.EncodeToString([]byte(s)) }
	digests := []string{"d1", "d2", "d3", hex.EncodeToString(make([]byte, 32))}
	goodHash := func() string { return hex.EncodeToString(rng.bytes(32)) }
	stuck := false // the service no longer answers (its table lock is never released): stop the plan
	waitDone := func(p *c12Pending) bool {
		select {
		case <-p.done:
			return true
		case <-time.After(2 * time.Second):
			obs.Blocked, stuck = true, true
			return false
		}
	}
	// the engine keeps the messages it was handed while later bids come in: they must stay what they were
	type c12Held struct {
		id int
		m  *providerapiv1.Bid
	}
	var heldMsgs []c12Held
	fieldsOf := func(id int, m *providerapiv1.Bid) bool {
		p := bids[id]
		tx, _ := hex.DecodeString(p.bid.TxHash)
		am, _ := hex.DecodeString(p.bid.Amount)
		return fmt.Sprint(m.TxHashes) == fmt.Sprint(splitComma(string(tx))) && m.BidAmount == string(am) && hex.EncodeToString(m.BidDigest) == p.bid.Digest &&
			m.DecayStartTimestamp == p.bid.Start && m.DecayEndTimestamp == p.bid.End && m.BlockNumber == p.bid.Block
	}
	handoff := func(id int, m *providerapiv1.Bid) {
		p := bids[id]
		if !waitDone(p) {
			return
		}
		in.Steps = append(in.Steps, c12Step{T: "handoff", ID: id})
		obs.Outs = append(obs.Outs, "ok")
		obs.EngineSaw = append(obs.EngineSaw, id)
		heldMsgs = append(heldMsgs, c12Held{id, m})
		tx, _ := hex.DecodeString(p.bid.TxHash)
		am, _ := hex.DecodeString(p.bid.Amount)
		if fmt.Sprint(m.TxHashes) != fmt.Sprint(splitComma(string(tx))) || m.BidAmount != string(am) || hex.EncodeToString(m.BidDigest) != p.bid.Digest ||
			m.DecayStartTimestamp != p.bid.Start || m.DecayEndTimestamp != p.bid.End {
			obs.FieldsOK = false
		}
		for k, x := range blocked {
			if x == id {
				blocked = append(blocked[:k], blocked[k+1:]...)
				break
			}
		}
	}
	for step := 0; step < plan && !stuck; step++ {
		switch r := rng.intn(100); {
		case r < 35: // submit
			b := c12Bid{TxHash: hexs(goodHash()), Amount: hexs("1000"), Block: int64(1000 + nextID), Start: 5, End: 9,
				Digest: hex.EncodeToString([]byte(digests[rng.intn(len(digests))]))}
			valid := true
			if rng.chance(25) {
				valid = false
				switch rng.intn(7) {
				case 6: // lists with an empty element
					b.TxHash = hexs([]string{goodHash() + ",", "," + goodHash(), goodHash() + ",," + goodHash(), ","}[rng.intn(4)])
				case 0:
					b.TxHash = hexs("zz" + goodHash()[2:])
				case 1:
					b.Amount = hexs([]string{"0", "-1", "abc", "18446744073709551616", ""}[rng.intn(5)])
				case 2:
					b.Block = []int64{0, -3}[rng.intn(2)]
				case 3:
					b.Digest = []string{"", hex.EncodeToString(make([]byte, 65))}[rng.intn(2)]
				case 4:
					b.Start = 0
				case 5:
					b.End = -1
				}
			} else if rng.chance(20) {
				b.TxHash = hexs(goodHash() + "," + goodHash())
			}
			in.Steps = append(in.Steps, c12Step{T: "submit", Bid: &b})
			tx, _ := hex.DecodeString(b.TxHash)
			am, _ := hex.DecodeString(b.Amount)
			dg, _ := hex.DecodeString(b.Digest)
			bctx, bcancel := context.WithCancel(ctx)
			mode := rng.intn(3)
			present, lockedOK := c12TableHas(svc, dg)
			if !lockedOK {
				obs.Blocked, stuck = true, true
			}
			if mode == 0 && present {
				mode = 1 + rng.intn(2)
			}
			if mode == 2 && valid {
				bcancel()
			}
			p := &c12Pending{id: nextID, cancel: bcancel, done: make(chan struct{}), bid: b}
			wg.Add(1)
			go func() {
				defer wg.Done()
				defer close(p.done)
				p.ch, p.err = svc.ProcessBid(bctx, &preconfpb.Bid{TxHash: string(tx), BidAmount: string(am), BlockNumber: b.Block,
					DecayStartTimestamp: b.Start, DecayEndTimestamp: b.End, Digest: dg})
			}()
			_ = bctx
			if !valid {
				// validation error: returns without touching the table
				select {
				case <-p.done:
					obs.Outs = append(obs.Outs, "rejected")
				case <-time.After(2 * time.Second):
					obs.Outs = append(obs.Outs, "accepted-invalid")
					bids[nextID] = p
					blocked = append(blocked, nextID)
					nextID++
				}
				bcancel()
				continue
			}
			obs.Outs = append(obs.Outs, fmt.Sprintf("registered:%d", nextID))
			bids[nextID] = p
			id := nextID
			nextID++
			switch mode {
			case 0: // park: the digest is not in the table, so its appearance is the registration
				ok := false
				for k := 0; k < 20000 && !ok && !stuck; k++ {
					var lockedOK bool
					ok, lockedOK = c12TableHas(svc, dg)
					if !lockedOK {
						obs.Blocked, stuck = true, true
					}
					select {
					case <-p.done: // returned instead of parking: a valid bid was refused
						obs.Outs[len(obs.Outs)-1] = "rejected-valid"
						ok = true
					default:
					}
					if !ok {
						time.Sleep(50 * time.Microsecond)
					}
				}
				blocked = append(blocked, id)
			case 1: // the engine takes bids until it has taken this one
				blocked = append(blocked, id)
				for taken := false; !taken; {
					select {
					case m := <-svc.receiver:
						hid := int(m.BlockNumber - 1000)
						taken = hid == id
						handoff(hid, m)
					case <-p.done:
						obs.Outs[len(obs.Outs)-1] = "rejected-valid"
						taken = true
					case <-time.After(2 * time.Second):
						obs.Blocked = true
						taken = true
					}
				}
			case 2: // the caller's context is already done: register, then take the ctx.Done branch
				if !waitDone(p) {
					continue
				}
				in.Steps = append(in.Steps, c12Step{T: "abandon", ID: id})
				obs.Outs = append(obs.Outs, "ok")
			}
		case r < 55: // engine receives one parked bid
			if len(blocked) == 0 {
				continue
			}
			select {
			case m := <-svc.receiver:
				handoff(int(m.BlockNumber-1000), m)
			case <-time.After(2 * time.Second):
				obs.Blocked = true
			}
		case r < 70: // a caller gives up (deadline / cancellation)
			if len(blocked) == 0 {
				continue
			}
			k := rng.intn(len(blocked))
			id := blocked[k]
			blocked = append(blocked[:k], blocked[k+1:]...)
			bids[id].cancel()
			if !waitDone(bids[id]) {
				continue
			}
			in.Steps = append(in.Steps, c12Step{T: "abandon", ID: id})
			obs.Outs = append(obs.Outs, "ok")
		case r < 74: // a bid stream of the engine attaches and leaves (engine re-opens its bid stream, a
			// second short-lived consumer): bids it forwards meanwhile are ordinary hand-offs; its
			// end must not disturb what is pending
			rctx, rcancel := context.WithCancel(ctx)
			rcancel()
			func() {
				defer func() {
					if r := recover(); r != nil {
						obs.Panic = true
					}
				}()
				_ = svc.ReceiveBids(&providerapiv1.EmptyMessage{}, &c12RecvStream{ctx: rctx, onSend: func(m *providerapiv1.Bid) {
					handoff(int(m.BlockNumber-1000), m)
				}})
			}()
		case r < 78: // the same digest decided on two decision streams at once (engine reconnect)
			d := hex.EncodeToString([]byte(digests[rng.intn(len(digests))]))
			dg, _ := hex.DecodeString(d)
			st1, st2 := 1+rng.intn(2), 1+rng.intn(2)
			bctx, bcancel := context.WithCancel(ctx)
			second := newDec(bctx)
			gate.mu.Lock()
			gate.armed, gate.parked, gate.resume = true, make(chan struct{}), make(chan struct{})
			parked, resume := gate.parked, gate.resume
			gate.mu.Unlock()
			first := dec
			res1 := make(chan string, 1)
			go func() { res1 <- sendDecision(first, dg, st1) }()
			held := false
			select {
			case <-parked: // first stream is between lookup and callback
				held = true
			case r1 := <-res1: // nothing was pending under that digest (no log line): already done
				res1 <- r1
			}
			in.Steps = append(in.Steps, c12Step{T: "decision", Digest: d, Status: st1})
			in.Steps = append(in.Steps, c12Step{T: "decision", Digest: d, Status: st2})
			r2 := sendDecision(second, dg, st2)
			_ = held
			gate.mu.Lock()
			gate.armed = false
			gate.mu.Unlock()
			close(resume) // whoever is parked at the gate (if anybody) goes on
			r1 := <-res1
			obs.Outs = append(obs.Outs, r1, r2)
			bcancel()
			select {
			case <-second.ended:
			case <-time.After(2 * time.Second):
				obs.Blocked = true
			}
			if r1 == "streamEnded" || r1 == "blocked" {
				select {
				case <-first.ended:
					startDec()
				default:
				}
			}
		default: // decision
			d := hex.EncodeToString([]byte(append(digests, "unknown")[rng.intn(len(digests)+1)]))
			if rng.chance(12) {
				// a digest that is not a pending one but looks like it to a fixed-width or trimming key:
				// a zero byte in front, bytes in front (the pending digest is the tail), a zero appended
				base := digests[rng.intn(len(digests))]
				d = hex.EncodeToString([]byte([]string{"\x00" + base, "prefix-" + base, base + "\x00"}[rng.intn(3)]))
			}
			st := []int{1, 2, 1, 2, 1, 2, 0, 3, 7}[rng.intn(9)]
			in.Steps = append(in.Steps, c12Step{T: "decision", Digest: d, Status: st})
			dg, _ := hex.DecodeString(d)
			res := sendDecision(dec, dg, st)
			obs.Outs = append(obs.Outs, res)
			if res == "streamEnded" {
				obs.StreamEnds++
				startDec()
			}
		}
	}
	for _, hm := range heldMsgs {
		if !fieldsOf(hm.id, hm.m) {
			obs.FieldsOK = false
		}
	}
	// quiescence: give up every parked caller (realised abandon steps), then look
	for _, id := range blocked {
		bids[id].cancel()
		if stuck || !waitDone(bids[id]) {
			continue
		}
		in.Steps = append(in.Steps, c12Step{T: "abandon", ID: id})
		obs.Outs = append(obs.Outs, "ok")
	}
	for id, p := range bids {
		sts := []int{}
		select {
		case <-p.done:
		default:
			obs.Statuses[fmt.Sprint(id)] = sts // its ProcessBid never returned
			continue
		}
		if p.ch != nil {
			for {
				select {
				case v, ok := <-p.ch:
					if ok {
						sts = append(sts, int(v))
						continue
					}
				default:
				}
				break
			}
		}
		obs.Statuses[fmt.Sprint(id)] = sts
	}
	if c12Lock(svc) {
		obs.Pending = reflect.ValueOf(svc.bidsInProcess).Len()
		svc.bidsMu.Unlock()
	} else {
		obs.Blocked = true
		obs.Pending = -1
	}
	cancelAll()
	fin := make(chan struct{})
	go func() { wg.Wait(); close(fin) }()
	select {
	case <-fin:
	case <-time.After(time.Second):
		obs.Blocked = true
	}
	return in, obs
}

func splitComma(s string) []string {
	var res []string
	cur := ""
	for _, c := range s {
		if c == ',' {
			res = append(res, cur)
			cur = ""
		} else {
			cur += string(c)
		}
	}
	return append(res, cur)
}

var _ = errors.New

func TestVerifC12(t *testing.T) {
	out := newVout(t, "C12")
	defer out.close()
	_ = json.Marshal
	if vonlyReplay() {
		// a realised step list cannot be forced on the runtime; replays re-run the generator
		// with the same seed instead (the case number is in the replay file)
	}
	rng := newVrng(vseed(), 12)
	n := vcount(120, 1500)
	blockedRuns := 0
	for i := 0; i < n && blockedRuns < 4; i++ {
		in, obs := c12Exec(t, rng, 4+rng.intn(vcount(20, 40)))
		out.emit(in, obs)
		if obs.Blocked { // a service that stops answering: a few such runs say it all
			blockedRuns++
		}
	}
}

// extract regenerates lean/MevCommit/Extracted.lean from the working tree of the repository:
// numeric constants, string literals (as byte lists) and small tables that the models import
// and the property theorems mention literally.  Purely syntactic (go/parser); a fact whose
// code shape is not recognised is emitted as MISSING (value 0 / empty) and listed in
// `missing`, which the Props modules require to be empty.
package main

import (
	"fmt"
	"go/ast"
	"go/parser"
	"go/token"
	"os"
	"path/filepath"
	"sort"
	"strconv"
	"strings"
)

var (
	root    string
	out     strings.Builder
	missing []string
	fset    = token.NewFileSet()
	cache   = map[string]*ast.File{}
)

func parse(rel string) *ast.File {
	if f, ok := cache[rel]; ok {
		return f
	}
	f, err := parser.ParseFile(fset, filepath.Join(root, rel), nil, parser.ParseComments)
	if err != nil {
		cache[rel] = nil
		return nil
	}
	cache[rel] = f
	return f
}

func findFunc(rel, name string) *ast.FuncDecl {
	f := parse(rel)
	if f == nil {
		return nil
	}
	for _, d := range f.Decls {
		if fd, ok := d.(*ast.FuncDecl); ok && fd.Name.Name == name {
			return fd
		}
	}
	return nil
}

func strLits(n ast.Node) []string {
	var res []string
	if n == nil {
		return res
	}
	ast.Inspect(n, func(x ast.Node) bool {
		if bl, ok := x.(*ast.BasicLit); ok && bl.Kind == token.STRING {
			if s, err := strconv.Unquote(bl.Value); err == nil {
				res = append(res, s)
			}
		}
		return true
	})
	return res
}

func leanBytes(s string) string {
	parts := make([]string, len(s))
	for i := 0; i < len(s); i++ {
		parts[i] = strconv.Itoa(int(s[i]))
	}
	return "[" + strings.Join(parts, ", ") + "]"
}

func emitNat(name string, v uint64, ok bool, doc string) {
	if !ok {
		missing = append(missing, name)
		fmt.Fprintf(&out, "/-- MISSING: %s -/\ndef %s : Nat := 0\n\n", doc, name)
		return
	}
	fmt.Fprintf(&out, "/-- %s -/\ndef %s : Nat := %d\n\n", doc, name, v)
}

func emitBytes(name, s string, ok bool, doc string) {
	if !ok {
		missing = append(missing, name)
		fmt.Fprintf(&out, "/-- MISSING: %s -/\ndef %s : List UInt8 := []\n\n", doc, name)
		return
	}
	fmt.Fprintf(&out, "/-- %s : %q -/\ndef %s : List UInt8 := %s\n\n", doc, s, name, leanBytes(s))
}

// package-level `var|const name [type] = <int literal>`
func pkgInt(rel, name string) (uint64, bool) {
	f := parse(rel)
	if f == nil {
		return 0, false
	}
	for _, d := range f.Decls {
		gd, ok := d.(*ast.GenDecl)
		if !ok {
			continue
		}
		for _, sp := range gd.Specs {
			vs, ok := sp.(*ast.ValueSpec)
			if !ok {
				continue
			}
			for i, n := range vs.Names {
				if n.Name == name && i < len(vs.Values) {
					return evalInt(vs.Values[i])
				}
			}
		}
	}
	return 0, false
}

func pkgString(rel, name string) (string, bool) {
	f := parse(rel)
	if f == nil {
		return "", false
	}
	for _, d := range f.Decls {
		gd, ok := d.(*ast.GenDecl)
		if !ok {
			continue
		}
		for _, sp := range gd.Specs {
			vs, ok := sp.(*ast.ValueSpec)
			if !ok {
				continue
			}
			for i, n := range vs.Names {
				if n.Name == name && i < len(vs.Values) {
					if bl, ok := vs.Values[i].(*ast.BasicLit); ok && bl.Kind == token.STRING {
						s, err := strconv.Unquote(bl.Value)
						return s, err == nil
					}
				}
			}
		}
	}
	return "", false
}

// integer literals, products, and time.X units (in nanoseconds)
func evalInt(e ast.Expr) (uint64, bool) {
	switch x := e.(type) {
	case *ast.BasicLit:
		if x.Kind == token.INT {
			v, err := strconv.ParseUint(strings.ReplaceAll(x.Value, "_", ""), 0, 64)
			return v, err == nil
		}
	case *ast.ParenExpr:
		return evalInt(x.X)
	case *ast.BinaryExpr:
		a, ok1 := evalInt(x.X)
		b, ok2 := evalInt(x.Y)
		if ok1 && ok2 {
			switch x.Op {
			case token.MUL:
				return a * b, true
			case token.ADD:
				return a + b, true
			}
		}
	case *ast.SelectorExpr:
		if id, ok := x.X.(*ast.Ident); ok && id.Name == "time" {
			switch x.Sel.Name {
			case "Nanosecond":
				return 1, true
			case "Microsecond":
				return 1e3, true
			case "Millisecond":
				return 1e6, true
			case "Second":
				return 1e9, true
			case "Minute":
				return 60e9, true
			case "Hour":
				return 3600e9, true
			}
		}
	case *ast.CallExpr:
		// conversions like uint64(1024), time.Duration(5)
		if len(x.Args) == 1 {
			return evalInt(x.Args[0])
		}
	}
	return 0, false
}

func selName(e ast.Expr) string {
	switch x := e.(type) {
	case *ast.Ident:
		return x.Name
	case *ast.SelectorExpr:
		return selName(x.X) + "." + x.Sel.Name
	}
	return ""
}

// calls to a function (by selector text suffix) inside node n
func callsIn(n ast.Node, suffix string) []*ast.CallExpr {
	var res []*ast.CallExpr
	if n == nil {
		return res
	}
	ast.Inspect(n, func(x ast.Node) bool {
		if c, ok := x.(*ast.CallExpr); ok {
			if s := selName(c.Fun); s == suffix || strings.HasSuffix(s, "."+suffix) {
				res = append(res, c)
			}
		}
		return true
	})
	return res
}

// value of key `key` in the first composite literal of type suffix `typ` inside n
func compositeField(n ast.Node, typ, key string) (ast.Expr, bool) {
	var found ast.Expr
	if n == nil {
		return nil, false
	}
	ast.Inspect(n, func(x ast.Node) bool {
		if found != nil {
			return false
		}
		cl, ok := x.(*ast.CompositeLit)
		if !ok {
			return true
		}
		if s := selName(cl.Type); s != typ && !strings.HasSuffix(s, "."+typ) {
			return true
		}
		for _, el := range cl.Elts {
			if kv, ok := el.(*ast.KeyValueExpr); ok {
				if id, ok := kv.Key.(*ast.Ident); ok && id.Name == key {
					found = kv.Value
					return false
				}
			}
		}
		return true
	})
	return found, found != nil
}

// block durations: within function fn, `case errors.Is(err, handshake.ErrX): s.blockPeer(id, DUR, ...)`
func blockDurations(rel, fn string) map[string]uint64 {
	res := map[string]uint64{}
	fd := findFunc(rel, fn)
	if fd == nil {
		return res
	}
	ast.Inspect(fd, func(x ast.Node) bool {
		cc, ok := x.(*ast.CaseClause)
		if !ok {
			return true
		}
		var errName string
		for _, e := range cc.List {
			for _, c := range callsIn(e, "Is") {
				if len(c.Args) == 2 {
					s := selName(c.Args[1])
					errName = s[strings.LastIndex(s, ".")+1:]
				}
			}
		}
		if errName == "" {
			return true
		}
		for _, st := range cc.Body {
			for _, c := range callsIn(st, "blockPeer") {
				if len(c.Args) >= 2 {
					if v, ok := evalInt(c.Args[1]); ok {
						res[errName] = v
					}
				}
			}
		}
		return true
	})
	return res
}

// PeerType.String(): case PeerTypeX: return "x"
func roleStrings(rel string) map[string]string {
	res := map[string]string{}
	fd := findFunc(rel, "String")
	if fd == nil {
		return res
	}
	ast.Inspect(fd, func(x ast.Node) bool {
		cc, ok := x.(*ast.CaseClause)
		if !ok {
			return true
		}
		if len(cc.List) == 1 && len(cc.Body) == 1 {
			if rs, ok := cc.Body[0].(*ast.ReturnStmt); ok && len(rs.Results) == 1 {
				ss := strLits(rs.Results[0])
				if len(ss) == 1 {
					res[selName(cc.List[0])] = ss[0]
				}
			}
		}
		return true
	})
	return res
}

func main() {
	if len(os.Args) < 2 {
		fmt.Fprintln(os.Stderr, "usage: extract <repo>")
		os.Exit(2)
	}
	root = os.Args[1]
	out.WriteString("/- GENERATED by /verif/extract from the repository working tree on every run.\n   Do not edit. -/\nnamespace MevCommit.Extracted\n\n")

	// ---- evmclient
	v, ok := pkgInt("pkg/evmclient/txmonitor.go", "maxSentTxs")
	emitNat("maxSentTxs", v, ok, "pkg/evmclient/txmonitor.go: var maxSentTxs")
	v, ok = pkgInt("pkg/evmclient/txmonitor.go", "batchSize")
	emitNat("batchSize", v, ok, "pkg/evmclient/txmonitor.go: var batchSize")

	cancel := findFunc("pkg/evmclient/evmclient.go", "CancelTx")
	var bump []uint64
	for _, c := range callsIn(cancel, "NewInt") {
		if len(c.Args) == 1 {
			if v, ok := evalInt(c.Args[0]); ok {
				bump = append(bump, v)
			}
		}
	}
	// expected order in CancelTx: NewInt(110), NewInt(100), NewInt(0)
	emitNat("cancelBumpNum", at(bump, 0), len(bump) >= 2, "CancelTx: tip multiplier numerator (first big.NewInt literal)")
	emitNat("cancelBumpDen", at(bump, 1), len(bump) >= 2, "CancelTx: tip multiplier denominator (second big.NewInt literal)")
	emitNat("cancelValue", at(bump, 2), len(bump) >= 3, "CancelTx: value of the replacement (third big.NewInt literal)")
	gasE, gok := compositeField(cancel, "DynamicFeeTx", "Gas")
	var gas uint64
	if gok {
		gas, gok = evalInt(gasE)
	}
	emitNat("cancelGas", gas, gok, "CancelTx: Gas field of the replacement DynamicFeeTx")

	// ---- signer: EIP-712 strings, in source order
	for _, fn := range []struct{ fn, prefix string }{{"GetBidHash", "bid"}, {"GetPreConfirmationHash", "commit"}} {
		fd := findFunc("pkg/signer/preconfsigner/signer.go", fn.fn)
		ss := strLits(fd)
		// expected: domain type string, domain name, version, [error text], message type string, "\x19\x01"
		var domType, name, ver, msgType, prefix string
		var have int
		for _, s := range ss {
			switch {
			case strings.HasPrefix(s, "EIP712Domain("):
				domType = s
				have |= 1
			case s == "\x19\x01":
				prefix = s
				have |= 16
			case strings.Contains(s, "(") && strings.HasSuffix(s, ")"):
				msgType = s
				have |= 8
			case have&1 != 0 && have&2 == 0:
				name = s
				have |= 2
			case have&2 != 0 && have&4 == 0:
				ver = s
				have |= 4
			}
		}
		emitBytes(fn.prefix+"DomainType", domType, have&1 != 0, fn.fn+": EIP712Domain type string")
		emitBytes(fn.prefix+"DomainName", name, have&2 != 0, fn.fn+": domain name")
		emitBytes(fn.prefix+"DomainVersion", ver, have&4 != 0, fn.fn+": domain version")
		emitBytes(fn.prefix+"TypeString", msgType, have&8 != 0, fn.fn+": message type string")
		emitBytes(fn.prefix+"Prefix", prefix, have&16 != 0, fn.fn+": EIP-191 prefix")
	}

	// ---- p2p roles
	roles := roleStrings("pkg/p2p/p2p.go")
	for _, r := range []struct{ k, n string }{{"PeerTypeBootnode", "roleBootnode"}, {"PeerTypeProvider", "roleProvider"}, {"PeerTypeBidder", "roleBidder"}} {
		s, ok := roles[r.k]
		emitBytes(r.n, s, ok, "pkg/p2p/p2p.go PeerType.String(): "+r.k)
	}

	// ---- block durations by error class
	in := blockDurations("pkg/p2p/libp2p/libp2p.go", "handleConnectReq")
	outb := blockDurations("pkg/p2p/libp2p/libp2p.go", "Connect")
	for _, d := range []struct {
		m    map[string]uint64
		side string
	}{{in, "In"}, {outb, "Out"}} {
		keys := []string{"ErrSignatureVerificationFailed", "ErrObservedAddressMismatch", "ErrInsufficientStake"}
		sort.Strings(keys)
		for _, k := range keys {
			v, ok := d.m[k]
			emitNat("block"+d.side+strings.TrimPrefix(k, "Err"), v, ok, "block duration (ns) for "+k+" ("+d.side+"bound handshake)")
		}
	}

	// ---- handler deadline in handleBid: context.WithTimeout(ctx, 5*time.Second)
	hb := findFunc("pkg/preconfirmation/preconfirmation.go", "handleBid")
	var dl uint64
	dlok := false
	for _, c := range callsIn(hb, "WithTimeout") {
		if len(c.Args) == 2 {
			dl, dlok = evalInt(c.Args[1])
		}
	}
	emitNat("handleBidDeadlineNs", dl, dlok, "handleBid: context.WithTimeout duration (ns)")

	// ---- protocol names / versions
	for _, p := range []struct{ rel, prefix string }{
		{"pkg/preconfirmation/preconfirmation.go", "preconf"},
		{"pkg/discovery/discovery.go", "discovery"},
		{"pkg/p2p/libp2p/internal/handshake/handshake.go", "handshake"}} {
		s, ok := pkgString(p.rel, "ProtocolName")
		emitBytes(p.prefix+"ProtocolName", s, ok, p.rel+" ProtocolName")
		s, ok = pkgString(p.rel, "ProtocolVersion")
		emitBytes(p.prefix+"ProtocolVersion", s, ok, p.rel+" ProtocolVersion")
	}

	fmt.Fprintf(&out, "/-- facts whose code shape was not recognised -/\ndef missing : List String := [")
	for i, m := range missing {
		if i > 0 {
			out.WriteString(", ")
		}
		fmt.Fprintf(&out, "%q", m)
	}
	out.WriteString("]\n\nend MevCommit.Extracted\n")
	fmt.Print(out.String())
}

func at(xs []uint64, i int) uint64 {
	if i < len(xs) {
		return xs[i]
	}
	return 0
}
